#!/bin/sh
# try_patch.sh <patch> <PROP> [<PROP>..]  -- apply a patch in a scratch worktree of /repo and run the quick checks against it
P="$1"; shift
WT=$(mktemp -d /tmp/zv-try-XXXXXX); rmdir "$WT"
git -C /repo worktree add --detach -q "$WT" HEAD || exit 2
git -C "$WT" apply "$P" || { echo "PATCH DOES NOT APPLY"; git -C /repo worktree remove --force "$WT"; exit 2; }
for prop in "$@"; do
  ZV_REPO="$WT" ZV_EVIDENCE_DIR=/verif/.cache/selftest-evidence /verif/verif check "$prop" 2>&1 | grep -v "^KNOWN-FINDING\|^      \|^\[facts\]" | tail -6 | cut -c1-260
done
git -C /repo worktree remove --force "$WT"; rm -rf "$WT"
