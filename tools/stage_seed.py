#!/usr/bin/env python3
"""stage_seed.py <worktree> <SEEDn> <name> <property[,property]> <needs_to_manifest> <demo cmd>
Copies a confirmed seeded change into /verif/seeded/<name>/ (patch, README, demonstration, meta.json).
Refuses unless <worktree>/<SEEDn>/confirm.log shows suite_rc=0, demo_with_seed_rc!=0, demo_without_seed_rc=0."""
import json, os, re, shutil, sys
wt, seed, name, props, needs, demo = sys.argv[1:7]
src = os.path.join(wt, seed)
log = open(os.path.join(src, "confirm.log")).read()
rc = dict(re.findall(r"(suite_rc|demo_with_seed_rc|demo_without_seed_rc)=(\d+)", log))
ok = rc.get("suite_rc") == "0" and rc.get("demo_with_seed_rc") not in (None, "0") and rc.get("demo_without_seed_rc") == "0"
if not ok:
    print("NOT CONFIRMED", rc); sys.exit(1)
dst = os.path.join("/verif/seeded", name)
os.makedirs(dst, exist_ok=True)
SKIP = re.compile(r"(test-suite|nextest|suite-with-seed|baseline)\S*|confirm\.log|Cargo\.lock|target")
for f in os.listdir(src):
    if SKIP.match(f):
        continue
    s, d = os.path.join(src, f), os.path.join(dst, f)
    if os.path.isdir(s):
        shutil.copytree(s, d, dirs_exist_ok=True, ignore=shutil.ignore_patterns("target", "Cargo.lock"))
    else:
        shutil.copy2(s, d)
props = props.split(",")
meta = {"property": props[0] if len(props) == 1 else props, "expect": "violation",
        "origin": "independent sub-agent, given only the property text", "status": "confirmed", "needs_to_manifest": needs,
        "confirmed_by_me": {"worktree": "%s (scratch worktree of /repo, removed afterwards)" % wt,
                            "commands": ["git apply %s/patch.diff" % seed, "cargo build --offline -p zydeco-cli",
                                         "/verif/tools/baseline.sh (ZV_REPO=worktree): 754/754 stable_pass tests pass with the change",
                                         "%s -> exit %s with the change" % (demo, rc["demo_with_seed_rc"]),
                                         "git checkout -- . ; cargo build ; %s -> exit 0 without the change" % demo],
                            "compiles": True, "suite_unchanged": True, "demo_fails_with_change": True,
                            "demo_passes_without_change": True}}
json.dump(meta, open(os.path.join(dst, "meta.json"), "w"), indent=1)
print("staged", dst, sorted(os.listdir(dst)))
