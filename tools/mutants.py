#!/usr/bin/env python3
"""Checker self-test: apply each patch of /verif/mutants (and /verif/seeded/*/patch.diff) to a scratch worktree of
/repo, run the property's check against it, and expect a VIOLATION (exit 1). The unpatched tree must be silent.
Results are calibration only (printed / written to evidence/selftest.json), never VIOLATION lines of a property."""
import json, os, subprocess, sys, tempfile, shutil, glob, time

VERIF = os.path.dirname(os.path.dirname(os.path.abspath(__file__)))
REPO = "/repo"


def run_check(prop, repo):
    env = dict(os.environ, ZV_REPO=repo, ZV_EVIDENCE_DIR=os.path.join(VERIF, ".cache", "selftest-evidence"))
    r = subprocess.run([os.path.join(VERIF, "verif"), "check", prop], cwd=VERIF, env=env, capture_output=True, text=True)
    return r.returncode, r.stdout + r.stderr


def main():
    only = sys.argv[1:]
    items = []
    for p in sorted(glob.glob(os.path.join(VERIF, "mutants", "*.patch"))):
        meta = json.load(open(p[:-6] + ".json"))
        items.append((os.path.basename(p)[:-6], p, meta))
    for d in sorted(glob.glob(os.path.join(VERIF, "seeded", "*"))):
        p = os.path.join(d, "patch.diff")
        if os.path.exists(p):
            meta = json.load(open(os.path.join(d, "meta.json")))
            items.append(("seeded-" + os.path.basename(d), p, meta))
    if only:
        items = [i for i in items if any(o in i[0] for o in only)]
    results = []
    for name, patch, meta in items:
        props = meta["property"] if isinstance(meta["property"], list) else [meta["property"]]
        wt = tempfile.mkdtemp(prefix="zv-mut-")
        os.rmdir(wt)
        try:
            subprocess.run(["git", "-C", REPO, "worktree", "add", "--detach", "-q", wt, "HEAD"], check=True)
            a = subprocess.run(["git", "-C", wt, "apply", patch], capture_output=True, text=True)
            if a.returncode != 0:
                results.append({"mutant": name, "status": "patch does not apply", "detail": a.stderr[-300:]})
                print("%-40s PATCH-FAILED %s" % (name, a.stderr.strip()[-200:]))
                continue
            for prop in props:
                t0 = time.time()
                code, out = run_check(prop, wt)
                detected = code == 1 and ("VIOLATION property=%s" % prop) in out
                keys = [l.strip() for l in out.splitlines() if l.strip().startswith("violation ")]
                expect = meta.get("expect", "violation")
                ok = detected if expect == "violation" else (code == 0)
                results.append({"mutant": name, "property": prop, "exit": code, "detected": detected, "expected": expect,
                                "ok": ok, "violations": keys[:6], "wall_s": round(time.time() - t0, 1)})
                print("%-40s %-4s exit=%d %s %s" % (name, prop, code, "DETECTED" if detected else "missed", keys[:2]))
                if code == 2:
                    print("    " + "\n    ".join(out.splitlines()[-6:]))
        finally:
            subprocess.run(["git", "-C", REPO, "worktree", "remove", "--force", wt], capture_output=True)
            shutil.rmtree(wt, ignore_errors=True)
    os.makedirs(os.path.join(VERIF, ".cache"), exist_ok=True)
    with open(os.path.join(VERIF, ".cache", "selftest.json"), "w") as fh:
        json.dump(results, fh, indent=1)
    bad = [r for r in results if not r.get("ok")]
    print("%d mutants, %d as expected, %d not" % (len(results), len(results) - len(bad), len(bad)))
    return 1 if bad else 0


if __name__ == "__main__":
    sys.exit(main())
