#!/bin/sh
# Runs the repository's pinned baseline (guard OFF: /repo has no verification hooks) and compares the
# set of passing tests with BASELINE.json's stable_pass. Exit 0 iff every stable_pass test passes.
set -u
REPO="${ZV_REPO:-/repo}"
OUT="$(mktemp -d)"
cat > "$OUT/nextest.toml" <<'T'
[profile.pb]
fail-fast = false
retries = 0
status-level = "fail"
final-status-level = "flaky"
failure-output = "never"
success-output = "never"
slow-timeout = { period = "60s", terminate-after = 5 }
[profile.pb.junit]
path = "junit.xml"
report-name = "pb"
T
cd "$REPO" || exit 2
CARGO_NET_OFFLINE=true cargo nextest run --workspace --no-fail-fast --tool-config-file pb:"$OUT/nextest.toml" \
    --profile pb --test-threads 8 --offline >"$OUT/log" 2>&1
J="$REPO/target/nextest/pb/junit.xml"
python3 - "$J" <<'P'
import json, sys, xml.etree.ElementTree as ET
base = set(json.load(open('/root/.vp/BASELINE.json'))['stable_pass'])
root = ET.parse(sys.argv[1]).getroot()
passed, failed = set(), set()
for tc in root.iter('testcase'):
    tid = (tc.get('classname') or '') + '::' + (tc.get('name') or '')
    if tc.find('failure') is not None or tc.find('error') is not None:
        failed.add(tid)
    elif tc.find('skipped') is None:
        passed.add(tid)
passed -= failed
missing = sorted(base - passed)
print('baseline: %d stable_pass, %d passed now, %d failed now, %d baseline tests not passing' % (len(base), len(passed), len(failed), len(missing)))
for m in missing[:40]:
    print('  NOT PASSING:', m)
sys.exit(1 if missing else 0)
P
RC=$?
rm -rf "$OUT"
exit $RC
