#!/bin/sh
# mk_seed_worktree.sh <ID>  -- scratch worktree /tmp/seed-<ID> of /repo HEAD with PROPERTY.md (the property text only)
ID="$1"; WT=/tmp/seed-$ID
git -C /repo worktree add --detach -q "$WT" HEAD || exit 1
python3 - "$ID" "$WT" <<'PY'
import json, sys
pid, wt = sys.argv[1:3]
for l in open('/verif/properties.jsonl'):
    d = json.loads(l)
    if d['id'] == pid:
        with open(wt + '/PROPERTY.md', 'w') as f:
            f.write("# %s\n\n%s\n\n## Quantifier\n%s\n\n## Why the existing tests cannot settle it\n%s\n\n## Anchors\nfiles:\n" % (d['title'], d['statement'], d['quantifier']['text'], d['why_tests_cant']))
            for x in d['anchors']['files']: f.write("- %s\n" % x)
            f.write("\nmechanisms:\n")
            for m in d['anchors']['mechanism']: f.write("- %s — %s\n" % (m['name'], m['where']))
            f.write("\nobserve at: %s\n" % "; ".join(d['anchors']['observe_at']))
PY
echo "$WT ready"
