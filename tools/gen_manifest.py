#!/usr/bin/env python3
"""Regenerates /verif/MANIFEST.json from py/zv/claims.py (single source of truth for claims)."""
import json, os, sys
HERE = os.path.dirname(os.path.dirname(os.path.abspath(__file__)))
sys.path.insert(0, os.path.join(HERE, "py"))
from zv import claims

checks = []
for c in claims.CLAIMS:
    pid = c["id"]
    checks.append({
        "property_id": pid,
        "quick_cmd": "./verif check %s --tier quick" % pid,
        "thorough_cmd": "./verif check %s --tier thorough" % pid,
        "evidence_file": "/verif/evidence/%s.json" % pid,
        "replay_cmd_template": "cat {path}",
        "engine": "zyq+rules",
        "level_claimed": {"category": c.get("category", "other"), "text": c["level_text"], "design_ref": "DESIGN.md section 3, %s" % pid},
        "level_note": c["level_note"],
        "technique": c["technique"],
    })
m = {
    "version": 1,
    "setup_cmd": "./verif setup",
    "hooks": {
        "guard": "zydeco_lang_zydeco_verif",
        "enable": "none needed: the checks are static analyses of /repo's working tree; no source hook exists",
        "baseline_off_cmd": "/verif/tools/baseline.sh",
        "source_commits": [],
        "add_only": True,
    },
    "engines": [
        {"name": "zyq", "path": "/verif/zyq", "serves_properties": [c["id"] for c in claims.CLAIMS],
         "kind_free_text": "rustc_private driver (nightly) run as RUSTC_WORKSPACE_WRAPPER under cargo check: dumps resolved call graph, compact MIR and typed HIR of every workspace body, ADT/impl/static facts"},
        {"name": "rules", "path": "/verif/py/zv/rules", "serves_properties": [c["id"] for c in claims.CLAIMS],
         "kind_free_text": "repository-specific static rules (MIR dominance/path rules, HIR arm tables, call-graph reachability, hash-order taint, type facts) evaluated over the facts"},
    ],
    "checks": checks,
    "not_applicable": claims.NOT_APPLICABLE,
    "notes": claims.NOTES,
}
with open(os.path.join(HERE, "MANIFEST.json"), "w") as fh:
    json.dump(m, fh, indent=1)
print("wrote MANIFEST.json with %d checks, %d not applicable" % (len(checks), len(claims.NOT_APPLICABLE)))
