#!/bin/sh
# confirm_seed.sh <worktree> <seed-subdir> <demo command (run from worktree)>
# Confirms a seeded change: applies, builds, runs the whole suite (must match BASELINE stable_pass), runs the demo with
# and without the change. Writes <worktree>/<seed>/confirm.log
WT="$1"; SEED="$2"; shift 2; DEMO="$*"
export CARGO_TARGET_DIR="$WT/target" CARGO_NET_OFFLINE=true
cd "$WT" || exit 2
LOG="$WT/$SEED/confirm.log"; : > "$LOG"
git checkout -q -- . 
git apply "$SEED/patch.diff" || { echo "PATCH DOES NOT APPLY" >> "$LOG"; exit 1; }
echo "== with seed: build" >> "$LOG"
cargo build --offline -p zydeco-cli >> "$LOG" 2>&1 || { echo "BUILD FAILED" >> "$LOG"; git checkout -q -- .; exit 1; }
echo "== with seed: suite" >> "$LOG"
ZV_REPO="$WT" /verif/tools/baseline.sh >> "$LOG" 2>&1; echo "suite_rc=$?" >> "$LOG"
echo "== with seed: demo ($DEMO)" >> "$LOG"
sh -c "$DEMO" >> "$LOG" 2>&1; echo "demo_with_seed_rc=$?" >> "$LOG"
git checkout -q -- .
echo "== without seed: build" >> "$LOG"
cargo build --offline -p zydeco-cli >> "$LOG" 2>&1
echo "== without seed: demo" >> "$LOG"
sh -c "$DEMO" >> "$LOG" 2>&1; echo "demo_without_seed_rc=$?" >> "$LOG"
grep -E "suite_rc|demo_with_seed_rc|demo_without_seed_rc|baseline:" "$LOG"
