"""What is claimed, per property (source of MANIFEST.json; see tools/gen_manifest.py)."""

CLAIMS = [
    {
        "id": "C11",
        "technique": "static analysis: MIR path rules (token stream ends only at lexer exhaustion and only at comment depth 0) + HIR front-door rules + skip-pattern inventory of the logos token definition",
        "level_text": "Decides from the MIR of <Lexer as Iterator>::next and LexicalTokens::next that None is returned only on the "
                      "None edge of the underlying logos iterator (every other path to a None result is reported with the token "
                      "variant chain that reaches it) and, for the parser's lexer, only where `comment_depth > 0` is false (end of input "
                      "inside a block comment is handed to the grammar as a token); that the lexer constructors lex their whole argument "
                      "from comment depth 0; that every non-test caller of a generated *Parser::parse lexes exactly the text it parses; "
                      "and that the token definition skips white space only. This is the structural content of 'no silent truncation'; "
                      "it holds for all inputs because it is a property of every path.",
        "level_note": "Trusted: LALRPOP parsers accept only at end of stream; logos turns every input byte that no skip pattern matches "
                      "into a token or an Err item. F1 and F20 (both repaired) were found by / led to these rules. Text inside a "
                      "well-terminated block comment is comment by definition, whatever it contains (two agent-reported consequences are "
                      "documented as candidates). The comment depth changes only under CommentOpen / CommentClose tokens (comment-depth rule). Round 3: the tools read a source file only with read_to_string (whole file or error); every other read / decode call is inventoried (source-readers, shared with C15).",
    },
    {
        "id": "C16",
        "technique": "static analysis: hash-order taint over typed HIR with function/parameter summaries + ambient-source and cast inventories",
        "level_text": "Every iteration over a RandomState-hashed container in the workspace (std/im HashMap/HashSet, DashMap; decided from "
                      "resolved types) is followed to its consumer; a path to an ordered sink (push, format, emit, id allocation, "
                      "early exit, choice of an element) is reported with function, source and sink unless an in-place sort intervenes or "
                      "the exact (function, source, sink) key is in the audited exemption table. Also decided: no pointer-to-integer "
                      "cast exists, no clock/random/pid/thread/env source is called from the check/run/fmt/build crates outside an "
                      "allow-list, no {:?} of a hash container. This is the whole structural content of the property.",
        "level_note": "Assumes sort keys are total, third-party crates do not leak hash order, and the 4 audited exemptions "
                      "(rules/order_exempt.json, each with its reason and re-checked side conditions) are right. OS-level nondeterminism "
                      "(ASLR) is excluded by the address rule.",
    },
    {
        "id": "C10",
        "technique": "static analysis: MIR panic provenance (text conversions, hole-dependent lookups, first-element unwraps with dominance-proved guards), HIR diverging-arm table with who-may-construct side conditions, stripped-arena typestate, exit-path dominance, inventory of positional index sites (typed HIR)",
        "level_text": "Decides six exact necessary conditions of front-end totality: (1) no unwrap/expect of a text-to-value conversion "
                      "outside the audited 'total on the token language' table; (2) no unwrap of a normal-form lookup that is None for an "
                      "unsolved hole (code before the error test runs on rejected programs); (3) every unwrap of the first/last/next "
                      "element of a sequence is dominated on MIR by a non-emptiness test of the same sequence, or belongs to the inventory "
                      "of declared invariants (34 sites by function and producer): a site that appears or loses its guard is reported; (4) "
                      "every match arm / let-else over a zydeco syntax enum in the surface passes, session and check/ that can only exit by "
                      "panic is a listed phase-ordering exclusion with re-checked producers; (5) the payload-stripped arena of "
                      "ProgramAnalysis::statics() is used only through StaticsIndexes; (6) main maps Err to render + exit(1). The rules fired "
                      "on confirmed defects of the pinned tree (F2, F3, F4, F10, F13; all repaired).",
        "level_note": "NOT decided: general panic freedom of the remaining invariant-justified unwrap/expect/index sites (the 34 inventoried "
                      "first-element invariants are declared by the source, not proved), termination, that diagnostic locations lie inside "
                      "the file. Capacity conversions (usize->u32) out of scope. Added after round-2 seeds and agent reports: string-slice "
                      "bounds by symbolic value flow (no constant byte offsets), partial helpers of zydeco_syntax reached from the front end, "
                      "readers of the cyclic-able seals table (F31: `def L : VType = L` overflowed the stack), bounded format directives (F34). "
                      "Round 3: an inventory of the 56 positional index / range-slice sites of the hand-written front end with the reason "
                      "each index is in range (F49: `components[position]` panicked in the checker); keyed arena lookups are not inventoried.",
    },
    {
        "id": "C15",
        "technique": "static analysis: call-graph effect reachability from salsa-tracked functions, type facts of the session, HIR setter/guard rules",
        "level_text": "Decides the proviso under which salsa's memoisation theorem applies: from every #[salsa::tracked] body (112 found) no "
                      "call-graph path (trait and dyn calls fanned out to all workspace impls) reaches a file-system, environment, "
                      "clock, random, lock, DashMap or atomic access except through three audited cut functions whose own bodies are "
                      "checked (source_input reads the disk only on the Vacant registry edge, keyed by SourcePath::identity; identity "
                      "never reads contents). Also decided: the path->input registry is Arc-shared with snapshots, no unclassified "
                      "session state exists, each mutator writes exactly the input field(s) it is named after under a guard on that "
                      "same field, and optional-companion probing reads only the tracked accessors.",
        "level_note": "Trusted: salsa's revision/memo logic; callers announce disk changes via refresh_disk. NOT decided: equality of "
                      "answers over concrete histories, lru=1 re-materialisation equality. Known findings F6 (intern_pending) and F72 (path identity resolves symbolic links inside tracked queries: a retargeted link on an import path is never reflected; findings/replay/f72) are listed.",
    },
    {
        "id": "C17",
        "technique": "static analysis: global-state inventory, atomic RMW and who-may-construct facts from MIR, lock-order/lock-scope analysis of cajun's async fns on HIR, guard-liveness dataflow over MIR at salsa input writes, arm table of the cancellation match",
        "level_text": "Decides structural necessary conditions of snapshot isolation: every interior-mutable static is audited (one: the "
                      "key-space counter, touched by a single fetch_update/checked_add in KeySpaceId::fresh only); KeySpaceId and "
                      "IdAllocator cannot be forged or copied (private fields, constructor inventory, no Clone/Copy, &mut alloc); "
                      "mutable session state is Arc-shared with snapshots; in cajun every async fn takes session before projects, holds "
                      "no guard across spawn_blocking, reads the revision before the snapshot and re-checks it under the session lock "
                      "before publishing; AnalysisTask::run's cancellation table is exact; no registry or lock guard is live at a salsa "
                      "input write (MIR may-analysis in the 19 functions that reach a setter, 24 write sites); a session built from another shares the other's registry Arc.",
        "level_note": "Interleavings are NOT explored (that is model checking / stress, a different family): absence of deadlock and of "
                      "mixed-revision results is argued from lock order and scope only. Known finding F6 (pending slot, two critical "
                      "sections) is listed. F38 (get-then-insert on the registry shared with snapshots; 266 / 324 stale iterations of 3000) was "
                      "reported by a seeding agent on the unchanged tree, reproduced with its harness (findings/replay/f38) and repaired; the "
                      "registry-atomic rule reports any non-entry write of that registry.",
    },
    {
        "id": "C05",
        "technique": "static analysis: arm-table evaluation over typed HIR (resolved core methods, operand provenance), boolean truth table of the Float32 acceptance predicate, MIR cast inventory",
        "level_text": "The numeric semantics is a finite table of arms, each a single call of a core method whose semantics is the "
                      "specification. All arms are evaluated from the macro-expanded, type-resolved HIR: 8x5 wrapping_* calls at the carrier "
                      "read from the ADT with operands in order, comparison helpers (==,<,> in order), Branch::select = if c {a} else {b} fed "
                      "slice positions 2,3, float ops via from_bits/IEEE operator/to_bits at the arm's width, renderers, "
                      "IntegerLiteral::with_type = TryInto<carrier> (exact), FloatLiteral::with_type's predicate truth table = !A || B, the "
                      "checker's literal gates (Some edge stored, None edge OutOfRange, defaults Int64/Float64), no numeric cast. This "
                      "decides the property for the Rust side completely (171 obligations); no operand enumeration is needed.",
        "level_note": "Trusted: core's wrapping_*, PartialOrd, IEEE operators, TryInto, ToString. Native back ends (runtime/stub.rs) are "
                      "outside the cargo workspace and not covered. The Float32 acceptance table checked is the property's (finite after "
                      "narrowing): F35 (`1e999 : Float32` accepted) was repaired after a seeding agent showed my table had copied the code. "
                      "Known finding F36: decimal text is rounded twice on the way to Float32 (text -> f64 -> f32). Round 3: `Int64 when nothing "
                      "selects a type` — an expected type that is a SOLVED inference variable selects its solution (F65, reported by a "
                      "seeding agent: `! pick _ b 255` with `b : UInt8` was rejected; repaired, rule added).",
    },
    {
        "id": "C06",
        "technique": "static analysis: symbolic evaluation of the five role tables for all 126 roles and cross-table agreement; continuation-application arity analysis; callee/panic/handle-table and numeric-cast inventories from MIR and HIR",
        "level_text": "Statically evaluates arity(), for_role(), host_name(), stack-IR for_known_role() and the invoke dispatch for every "
                      "role and checks they agree with the slice pattern and the continuation applications of the dispatched interpreter "
                      "function (arity, per-position atom kinds, declared result atom, every continuation applied to exactly as many "
                      "arguments as its classifier has arrows, Branch::select order). Also decided: Utf8String indexes by scalars only, the "
                      "role functions' panic inventory is exactly {shape default, wrapping_div/rem, six legacy expects}, handle ids are "
                      "never reissued and the handle tables are touched only by open/close/lookup with closed() on a miss, every "
                      "io::Result reaches the error continuation, the classifier matcher compares every decisive case and rejects by default, "
                      "and no `as` cast in the host operations or Utf8String can wrap or truncate (arguments are validated at full width; "
                      "the one lossy cast, process/exit's i64 -> i32, is inventoried).",
        "level_note": "NOT decided: behaviour of std on concrete strings and files, the .zy declarations in lib/std/builtin (validated at "
                      "link time by the matcher checked here), runtime/stub.rs (outside the workspace).",
    },
    {
        "id": "C01",
        "technique": "static analysis: MIR dominance / who-may-construct gates, whole-crate error-discipline rule on typed HIR, audited arm tables for definitional equality and the Builtin classifier matcher, constructor inventory for hole nodes, traversal completeness and use-or-error rules on the judgments, symbolic value flow over MIR for the binder correspondence, branch-join and declaration-lookup dataflow rules, binder-coverage over the typed ADTs",
        "level_text": "Decides structural necessary conditions of soundness (not the soundness theorem): the accepted outcome, the executable "
                      "program and the package plan are constructed only in the listed functions and only on the success edges of their "
                      "validators (infeasible `Err(..)?` edges pruned); the error list is append-only and tested before accepting; none of "
                      "the ~780 call sites returning the not-yet-recorded error type drops its result; Lub still performs each of the "
                      "audited field comparisons of all 24 type and 4 kind formers, rejects every off-diagonal pair and keeps its leaf "
                      "guards; the classifier matcher compares every decisive case; Link has an explicit arm per variant; Value::Hole / "
                      "Computation::Hole are built only where listed; every sub-term of every former reaches a judgment and every analysis "
                      "arm uses its expected type or reports; the per-arm types of a match are all joined by lub_k; Debruijn::insert "
                      "advances the level on every path and the lookups read their own side; constructor / destructor names are looked up "
                      "only through Data::get / CoData::get; the coverage validator visits both arenas and every variant that carries a "
                      "value pattern (match, comatch, let / do / fn / fix binders), so `no matching arm` and `pattern match failed` are "
                      "unreachable if the matrix algorithm is right.",
        "level_note": "NOT decided: progress/preservation of the typing rules, the matrix algorithm's theorem (C04), termination of "
                      "normalisation. The lub table (rules/lub_table.json) is the audited reference of today's comparisons; it encodes my "
                      "reading of lub.rs. Known finding F7 (typed holes get stuck) is listed; F11, F27 (refutable binders accepted) and F28 "
                      "(repeated constructor name), F44 (repeated names in a declaration) were found by seeding agents on the unchanged tree "
                      "and repaired. Known findings F45-F48 (four independent soundness root causes found by the round-3 agent: forall / pi "
                      "introductions reuse witness ids, substitution skips inference variables, local seals are not scoped) are reported by "
                      "the generativity rule, which names each structural cause; their repair changes the checker's core judgments.",
    },
    {
        "id": "C02",
        "technique": "static analysis: audited golden arm traces (canonical, name-independent event sequences from typed HIR) of the CK machine and of erasure; environment-flow rule; sibling-agreement rules",
        "level_text": "Decides that every arm of Eval for Computation/Value, Assign, the product helpers and Link performs exactly the audited "
                      "sequence of pops, pushes (with payload provenance), operand evaluations, environment installs and captures, steps and "
                      "positional constructor arguments (80 arm obligations), plus a generic rule that every closure-like value captures "
                      "runtime.env and runtime.env is written only from a frame/thunk/closure field or a saved outer environment, that the "
                      "two projection-pattern elaborations fold in the same direction, and that block source order is the collector's "
                      "enumeration index. These are the structural content of 'thunks capture their lexical environment', 'do runs its bindee "
                      "before its tail', 'patterns bind by position', 'a destructor selects the same-named arm'.",
        "level_note": "NOT decided: observational equality over runs; that the audited reference is CBPV (by inspection). Also audited: the "
                      "desugarer's arms (spines, telescopes, placements) and the tuple agreement of copattern clauses; the rest of copattern "
                      "elaboration is not covered. The audited references alarm on any semantic edit of an audited arm, including a correct "
                      "one, which then needs re-auditing; added queries are tolerated.",
    },
    {
        "id": "C03",
        "technique": "static analysis: audited Lub arm table, whole-crate error-discipline rule, sort-helper arm tables, unroll-to-equality value flow on typed HIR, audited traces of beta-normalisation, binder-scope table over the substitution arms, shape-assumption provenance rule, symbolic value flow over MIR (binder levels)",
        "level_text": "Soundness side only: (1) Lub performs every audited field comparison, rejects every off-diagonal pair, keeps the guards "
                      "and the closed accepting cases of the identity formers, the existential mode table and the AnnId sort table; (2) no "
                      "unrecorded checker error is dropped anywhere in zydeco-statics; (3) try_as_<sort> helpers accept exactly their sort, "
                      "every let-else on a sort enum ends in an error, no match on a sort enum continues through `_` outside two audited "
                      "cases; (4) no unrolled type (unroll_k, or a deferred telescope materialised with an unrolling environment) flows into "
                      "Lub, so a sealed definition is never compared by representation; (5) the binder correspondence of alpha-equivalence "
                      "advances one level per binder pair; (6) substitution of abstract witnesses filters the assignments under every "
                      "former that rebinds a witness (computed from the payload types); (7) the judgments take a type apart without a "
                      "diagnostic only where the same arm has just forced that shape by lub / analysis; (8) the match judgment joins all "
                      "arm types; names are looked up in declarations one way; (9) completeness side, partially: beta-normalisation "
                      "performs its audited steps (whole spine, head and every argument normalised, substitution / fusion, projections).",
        "level_note": "NOT decided: completeness in general (only the normalisation steps are pinned), the exact diagnostic, inference. The "
                      "rules are necessary conditions; they do not prove the typing rules. F29 (fix binder never compared with Thk: crash / "
                      "acceptance) and F30 (substitution rewrote a shadowed witness) were found by a seeding agent on the unchanged tree and "
                      "repaired, as were F40-F43 of round 3 (crash on a computation as constructor argument, wildcard at a computation type, "
                      "sealed product given away by the tuple judgment, monadic block ignoring analysis mode), each now guarded by its own "
                      "rule; the normalisation traces alarm on any semantic edit of normalize.rs's spine code. Round 4: an inventory of the places where a judgment opens a `def` seal (a new one is reported), and the copattern elaborator takes Arrow / Forall / PackPi from the type as written (F69: `{ comatch | x => .. } : Thk F` was accepted at a sealed arrow; repaired).",
    },
    {
        "id": "C07",
        "technique": "static analysis: flow-sensitive symbolic scope traces of every resolver arm against an audited table; generic traversal-completeness rule (typed HIR); merge-bias rule on the pattern-binder map; type facts of the program builder",
        "level_text": "Decides the per-former scoping rules that make renaming invariance hold: for all 38 term and 9 pattern formers, each child "
                      "is resolved in the audited scope (inherited / after its binder / threaded / empty at source and signature boundaries), "
                      "`that` forms need an enclosing block, block names are installed by explicit updates over the inherited map; the "
                      "candidate collector, resolver, DeepClone and program builder visit every TermId/PatId child they bind (299 "
                      "obligations), the collector stops exactly at Block/SourceBoundary/SignatureBoundary, and the program builder "
                      "allocates a fresh copy per import occurrence and has no cache; the names a `that` pattern contributes are merged so that "
                      "a repeated name denotes the later component, as in the lexical resolution of the same pattern.",
        "level_note": "NOT decided: the theorem that these rules imply alpha-invariance of behaviour. The scope table encodes my reading of the "
                      "language's scoping rules and alarms on any semantic edit of a resolver arm. F26 (a name repeated inside one `that` pattern "
                      "bound its first occurrence) was found by a seeding agent on the unchanged tree and repaired.",
    },
    {
        "id": "C09",
        "technique": "static analysis: HIR provenance rules (canonical keys, dedup before recursion, companion edges), MIR dominance gate for acyclicity, successor-function inventory, audited flow-sensitive traces of loader / DFS walkers / directive decoder",
        "level_text": "Decides the structural content of 'once per canonical path, cyclic graphs rejected, providers first, fresh copy per "
                      "occurrence, companion = annotation': every dedup key / provider path derives from SourcePath::identity; the dedup map "
                      "is filled before recursion and hits return the stored id; load_signature drops a companion only when there is no "
                      "companion path or file; SourceGraph is built only in load_root and returned only on the Ok edge of ensure_acyclic; "
                      "both graph walkers enumerate successors only via dependencies() (signature + every import); audited traces of the "
                      "cycle DFS (stack discipline, reported slice), the post-order provider walk, ImportSite::decode and of the assembly "
                      "(SourceBoundary per occurrence, Ann with SignatureBoundary); no per-source cache in the builder.",
        "level_note": "NOT decided: behavioural equivalence of an import with hand-inlining (quantifies over programs and runs); "
                      "Path::canonicalize is trusted. The traces alarm on any semantic edit of the audited functions.",
    },
    {
        "id": "C08",
        "technique": "static analysis: scope-provenance rule for dependency-edge recording, statement-order and must-pass-through (MIR) rules for the block graph and Kosaraju's passes, audited flow-sensitive traces of the SCC / release / scheduling functions, arm table of the elaboration, hash-order taint on the dependency machinery, gate table of the recursive-group judgment",
        "level_text": "Decides the structural content of 'ordered by dependency, not position': every binder and bindee of a contribution is "
                      "resolved under a scope carrying that contribution's BindingSite and every reference to a sited name records "
                      "user -> dependency for all enclosing sites of the block; the block graph has a node per candidate, is installed "
                      "before and consumed after resolution; dfs_forward marks first and pushes on every path, dfs_backward labels first, "
                      "the backward pass follows reverse finishing order, condensation and release keep their five maps in step (audited "
                      "traces); groups and layers are sorted by source_order, recursive iff >1 member or self edge; Abs/Let/RecGroup/"
                      "RecursiveParameter arm table of the elaboration over the reversed order; every hash-ordered iteration is "
                      "neutralised or audited; recursive groups are accepted only as sealed annotated type definitions.",
        "level_note": "NOT decided: that Kosaraju as audited yields exactly the SCCs for every graph, nor permutation invariance of behaviour "
                      "(both follow by textbook argument from the decided structure; enumeration of graphs/programs is a different "
                      "technique). Parameters in different dependency layers are ordered by layer, as documented ('source order only "
                      "breaks ties'). The traces alarm on any semantic edit of the audited functions.",
    },
    {
        "id": "C04",
        "technique": "static analysis: sibling-table agreement of the five constructor tables (typed HIR arm evaluation), explicit-arm pattern translation table, producer/hint pairing over who-constructs facts and query-judgment callers, gate/truncation rules, binder-coverage over the typed ADTs, audited flow-sensitive traces of the matrix recursion and of run-time pattern assignment",
        "level_text": "Decides necessary structural conditions, not the algorithm's theorem: per constructor kind head_space -> constructors -> "
                      "specialize is the diagonal with None elsewhere, specialize yields exactly arity() sub-patterns (same name / same "
                      "product arity), wildcards specialise to arity() wildcards, rebuild consumes arity() witnesses and keeps the rest; "
                      "from_typed has an explicit arm per typed pattern former with the audited translation (right-nested product spine, "
                      "static package fields erased); every producer of a CoMatch node or constructor pattern records its hint for the id "
                      "it produced and the scrutinee hint comes from the Data arm of the unrolled type; every coverage error reaches the "
                      "checker's error list; truncation bounds agree; audited traces of U(P,n,E) (columns-1+arity, head space over all rows, "
                      "expected space on empty matrices), comatch missing/duplicate sets and the interpreter's pattern assignment; every "
                      "Computation / Value variant that carries a value pattern is validated (binders outside match are one-clause matches) "
                      "and both arenas are visited.",
        "level_note": "Round 3: the monadic translation (which runs BEFORE coverage validation) hints its translated scrutinee and tests "
                      "completeness before looking a destructor's arm up (F55, F56 repaired); one Package layer per existential witness (F57 "
                      "repaired). NOT decided: soundness/completeness of the pattern-matrix algorithm against enumeration of values (a different "
                      "technique); the traces encode my reading of Maranget's algorithm as implemented and alarm on any semantic edit. Also "
                      "decided: the irrefutability predicate behind alias patterns has no default arm and recurses everywhere. Known finding "
                      "F37: the matrix is not inhabitation-aware (constructors() ignores payload types), so missing patterns that denote no "
                      "value are reported for types with empty components; F27 (binders outside match never validated) was repaired.",
    },
    {
        "id": "C12",
        "technique": "static analysis: cross-check of the formatter's precedence-class tables (typed HIR arm tables) against the precedence levels read from parser.lalrpop; MIR dominance and result-provenance rules on the CLI write path; call-graph reachability to unwraps of the render result; writer/reader escape-table inversion",
        "level_text": "Decides necessary conditions of 'total and meaning-preserving': every term/pattern former's class equals the grammar level "
                      "that produces it (33 + 9 formers, no default arm), infix operands and scoped bodies follow level and associativity, the "
                      "requirement test is the order test; the CLI writes only in format_path, only on the Ok edge of parse+render, only the "
                      "renderer's untransformed output, only when it differs; no tool entry point reaches an unwrap of RcDoc::render_fmt "
                      "(render failure is a value); quote_string is the inverse of apply_string_escapes and the printer uses it; grammar-"
                      "owned parentheses of existential parameters are printed; a constructor name never touches a comment. Each rule "
                      "fired on a confirmed defect of the pinned tree (F14, F15, F17, F18; repaired) or a confirmed seeded change.",
        "level_note": "NOT decided: that formatted output re-parses to the same term for every source (child-position requirements, punning, "
                      "telescope merging, directive nesting are not analysed). The known parseable-but-unformattable shape (a comment in front of a "
                      "block construct on its line) is repaired (F70) and has an agreement rule (starts_own_line = the printer arms that call "
                      "block_like). F32 (`1e999` printed as `inf`), F33 (metadata strings "
                      "printed with Debug) and F34 (unbounded indent directive) were reported by seeding agents on the unchanged tree and "
                      "repaired; the literal and directive rules now cover floats, metadata strings and the indent bound. Round 3: the printer's "
                      "pattern level at the binder of do / fix / param equals the grammar's (read from parser.lalrpop); the verbatim "
                      "annotation end is the first `]` TOKEN (F61); a named manifest binder keeps its group (F62); formatting time is not "
                      "decided (F63 repaired two exponential shapes, others remain: findings/candidates/C12).",
    },
    {
        "id": "C13",
        "technique": "static analysis: capture/emission agreement between the grammar's arm_prefix actions (read from parser.lalrpop) and the printer's arm anchors (typed HIR), exit-completeness of the comment emitters, reader inventory of the three comment tables, provenance rules of the verbatim copy and of formatter construction",
        "level_text": "Decides necessary conditions of 'never loses text': arms of data/codata/match/comatch are anchored at the entity under "
                      "which the parser files their leading comments and arm_block emits them; each entity printer emits its own leading "
                      "comments on every exit, render roots emit trailing comments, each comment table has one emitter folding over the whole "
                      "list; verbatim regions are copied as two adjacent source slices ending the annotation at its first `]`; scoped "
                      "formatters and every tool entry point keep the source text; the CLI writes the renderer's untransformed output; a "
                      "constructor name is separated from a commented argument; the text of a comment is cut out of the source and printed with "
                      "inventoried str operations only (marker, one space and the terminator removed; `split` at the separator capture joins "
                      "with; the printer is the inverse of capture) and comment tokens are grouped only over horizontal gaps. Fired on F17, "
                      "F19 (repaired) and on all eight seeded changes.",
        "level_note": "NOT decided: which entity a comment is filed under beyond the anchor polarity (comments that move over name tokens), and the "
                      "universally quantified statement itself.",
    },
    {
        "id": "C14",
        "technique": "static analysis: who-constructs / call-graph rule that all tool entry points share one renderer built with the source text; typed-HIR table of arm header boundaries against the wrappability of the header; writer/reader escape inversion; trailing-newline provenance; capture/emission agreement of comment indentation; who-may-inspect rule for recorded layout intentions",
        "level_text": "Decides necessary conditions of 'projection, and --check agrees with fmt': check_path and format_path obtain (source, "
                      "formatted) from the same function and compare the same pair; fmt, --check and the language server build the "
                      "formatter with with_source; try_render_unit appends exactly one hardline; the break before an arm's payload is "
                      "measured from the last wrappable header entity and from the `|` line only for bare names (else the printer's own "
                      "wrapping is read back: F16, repaired); string literals are fixed points (F15, repaired); existential parameters "
                      "re-parse (F18, repaired).",
        "level_note": "NOT decided: idempotence over all starting layouts (Preserve-policy feedback at the other boundaries, blank-line bounds), "
                      "pun/parenthesis canonical forms in general. Round 3: ALL confirmed non-idempotent inputs of rounds 1-3 are repaired (F51 block "
                      "comment after code, F52 pun behind elided parentheses, F53 raw intention under layout(ignore), F54 telescope behind "
                      "elided parentheses) and each repair has a rule: capture and emission of block comments agree on the opener column "
                      "unconditionally; the field printers and the telescope collectors look through the groups the printer elides; only "
                      "the policy functions look inside a recorded BreakIntent. A gap-mutation probe of 5500 variants found no further "
                      "non-idempotent input (a probe, not a check). Since round 2: the compared / rendered source is the text as read "
                      "(symbolic value flow), and a width directive's payload is emitted as the pre-rendered text.",
    },
    {
        "id": "C18",
        "technique": "static analysis: who-may-construct + MIR dominance gates for the IR validators, complete audited inventory of panic-only sites of the lowering passes (typed HIR: match arms, let-else, asserts, unwrap/expect), arm tables of the match-classification functions",
        "level_text": "Decides necessary conditions of 'lowers without internal error, IR valid': BranchJoinProgram / SpsLowProgram exist only "
                      "on the Ok edge of their validators and the closed-root test; the CLI route chains the three pipelines, the closed "
                      "root is checked before conversion, the stack is analysed twice and the second analysis is published; each of the 31 "
                      "places where a lowering pass can only panic is an audited invariant with a re-checked side condition, a validator, "
                      "or a listed known finding (a new one is a violation); is_coprod_pattern / is_coprod_match / the universal "
                      "jump-table test are the audited tables. The inventory reported three confirmed defects of the pinned tree "
                      "(F21-F23: accepted programs on which `zydeco build` panics), recorded as known findings.",
        "level_note": "NOT decided: that the validators establish the stated IR invariants, nor that no accepted program violates an audited "
                      "invariant (each is argued from the checker's guarantees, not proved). Emitters are infallible by type. LLVM support "
                      "is outside ('where supported'). Since round 2 every arm of both lowering passes is pinned by audited traces "
                      "(rules/golden_lowering.json): they alarm on any semantic edit of sps/lower.rs or sps_low/convert.rs, including a "
                      "correct one, which then needs re-auditing. Round 3: the free-variable equations (shared with C19) are checked here "
                      "too; the AMD64 rsp-parity table agrees modulo 2 with the words each inline instruction's emission moves (GF(2) "
                      "linear forms; the stack-allocation path is checked dead); the tuple node records the product of its component "
                      "types, which the lowerer lays it out by (F60: a regression of fix F42, found by a seeding agent, repaired).",
    },
    {
        "id": "C19",
        "technique": "static analysis: sibling-agreement rules over typed HIR (tag construction sites share one canonical declaration-index form; the environment builders and their users share one capture list and one product builder), audited arm-by-arm free/bound-variable equations of both IRs",
        "level_text": "Decides necessary conditions of 'lowering preserves behaviour' that are visible as agreement between two sides of one "
                      "protocol: all CtorIdx / DtorIdx (constructor value and pattern, destructor send and comatch arm) are the position of "
                      "the same name in the declaration recorded by the checker's hint; pattern, creation-site value and re-packing value "
                      "of every closure-like translation derive from one sorted capture list, mapped whole and in order through the same "
                      "product builder; the free-variable and bound-variable equations of sps and sps_low (52 arms) are the audited ones. "
                      "Both seeded miscompilations (tags by arm position; one-element environment unboxed on two of three sides) are "
                      "caught by these rules, as are the hand-made mutants.",
        "level_note": "NOT decided: observational equality with the interpreter (no executor for lowered code is available offline: the assembly "
                      "interpreter stops at extern calls), continuation packaging, builtin wiring, product layout. A polymorphic-product "
                      "layout mismatch reported by the seeding agent (findings/candidates/C19/poly.zy: pack <product:2/3> vs unpack "
                      "<product:2/2>) could only be read off the IR text, not executed. It is now known finding F39: the layout-stability rule "
                      "names its structural cause (product_arity flattens syntactic product tails and counts abstract tails as one word). "
                      "Both lowering passes are pinned arm by arm by audited traces (rules/golden_lowering.json), read against the CK machine "
                      "of C02. Round 3: every selector of an arm by tag takes the first arm for a constructor, like the interpreter (F64: the AMD64 jump table kept the last; repaired).",
    },
]

_PENDING = "check not built yet in this round (static rule designed in DESIGN.md, implementation pending)"
NOT_APPLICABLE = [
    {"property_id": "C20", "reason": "behavioural equation through a 2800-line type-directed translation; no clause is both visible in the shape of elaborate/monadic/* and a necessary condition of the equation (DESIGN.md C20)"},
]

NOTES = ("Static analysis only: every verdict is computed from /repo's current working tree by the zyq rustc driver "
         "(facts) and repository-specific rules; nothing executes zydeco. Exit 2 (no VIOLATION line) means the tree could not "
         "be analysed (compile error / anchor function missing): fail closed, never a vacuous pass.")
