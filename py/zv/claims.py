"""What is claimed, per property (source of MANIFEST.json; see tools/gen_manifest.py)."""

CLAIMS = [
    {
        "id": "C11",
        "technique": "static analysis: MIR path rule (token stream ends only at lexer exhaustion) + HIR front-door rules",
        "level_text": "Decides from the MIR of <Lexer as Iterator>::next and LexicalTokens::next that None is returned only on the "
                      "None edge of the underlying logos iterator (every other path to a None result is reported with the token "
                      "variant chain that reaches it), that the lexer constructors lex their whole argument from comment depth 0, and "
                      "that every non-test caller of a generated *Parser::parse lexes exactly the text it parses. This is the "
                      "structural content of 'no silent truncation'; it holds for all inputs because it is a property of every path.",
        "level_note": "Trusted: LALRPOP parsers accept only at end of stream; logos turns every input byte into a token, a skip or an "
                      "Err item. Text inside an unterminated `/-` comment counts as comment (lexer definition).",
    },
]

_PENDING = "check not built yet in this round (static rule designed in DESIGN.md, implementation pending)"
NOT_APPLICABLE = [
    {"property_id": "C20", "reason": "behavioural equation through a 2800-line type-directed translation; no clause is both visible in the shape of elaborate/monadic/* and a necessary condition of the equation (DESIGN.md C20)"},
] + [{"property_id": p, "reason": _PENDING} for p in
     ["C01", "C02", "C03", "C04", "C05", "C06", "C07", "C08", "C09", "C10", "C12", "C13", "C14", "C15", "C16", "C17", "C18", "C19"]]

NOTES = ("Static analysis only: every verdict is computed from /repo's current working tree by the zyq rustc driver "
         "(facts) and repository-specific rules; nothing executes zydeco. Exit 2 (no VIOLATION line) means the tree could not "
         "be analysed (compile error / anchor function missing): fail closed, never a vacuous pass.")
