"""C16 — tool output is a deterministic function of the sources (R-ORDER + address/clock inventory)."""
import json
import os

from .. import order, tys
from ..facts import VERIF

EXPLANATION = (
    "Hash-order taint analysis over the typed HIR of every workspace body: each iteration over a container whose "
    "hasher is the per-process random default (std HashMap/HashSet, im::HashMap/HashSet, DashMap; decided from the "
    "resolved receiver type, so FxHashMap arenas are not sources) is followed through adaptors, bindings, loops, "
    "closures, function results (summaries to a fixpoint) and arguments until it reaches an order-insensitive "
    "consumer, a sort, or an ordered sink (push/format/emit/alloc/early exit), which is reported. Plus inventories: "
    "no pointer-to-integer cast, no clock/random/pid/thread source on check/run/fmt/build crates outside the "
    "allow-list, no {:?} of a hash container outside derive(Debug)."
)

INTERACTIVE_CRATES = ("cajun", "zydeco_tui")  # language server / REPL: not check, run, fmt or build

CLOCK_PATTERNS = ("std::time::SystemTime", "std::time::Instant", "time::Instant::now", "rand::", "rand_core::",
                  "getrandom::", "std::process::id", "std::thread::spawn", "std::thread::current",
                  "std::thread::Builder", "std::hash::random::RandomState::new", "std::env::var", "std::env::vars",
                  "std::env::temp_dir", "std::thread::available_parallelism", "tokio::spawn", "tokio::task::")
CLOCK_ALLOWED = {
    ("zydeco_dynamics::impls::random_int", "rand::"): "the `random_int` host role is the one intended source of randomness",
    ("zydeco_assembly::lower::Lowerer::<'a>::new", "std::env::var"): "ZYDECO_DISABLE_UNBOXING is an explicit opt-out knob: same environment, same output",
}


def crate_of(fn):
    f = fn.lstrip("<&'")
    for sep in ("::", " "):
        pass
    # def paths start with the crate name, possibly inside `<.. as ..>`
    import re
    m = re.search(r"(zydeco_[a-z0-9]+|cajun|zydeco)::", fn)
    return m.group(1) if m else "?"


def run(ctx):
    facts = ctx.facts
    with open(os.path.join(VERIF, "rules", "order_exempt.json")) as fh:
        table = json.load(fh)["exempt"]
    exempt = {e["key"]: e for e in table}
    ctx.rule("order", "every iteration over a RandomState-hashed container ends in an order-insensitive consumer, "
                      "a sort before any other use, or is listed (exact key + reason) as unobservable")
    eng = order.Engine(facts)
    analyses = eng.run()
    n_sources = 0
    seen_exempt = set()
    for fn, ba in sorted(analyses.items()):
        if not (ba.findings or ba.discharged):
            continue
        ctx.fn(fn)
        loc_file = facts.bodies()[fn]["loc"][0]
        for src, how in ba.discharged:
            n_sources += 1
            ctx.ok("order", "%s|%s" % (fn, src), {"fn": fn, "source": src, "consumer": how})
        for f in ba.findings:
            n_sources += 1
            key = f.key()
            if key in exempt:
                seen_exempt.add(key)
                ctx.ok("order", key, {"fn": fn, "source": f.source, "sink": f.sink, "exempt": exempt[key]["reason"]})
                continue
            ctx.violation("order", key,
                          "hash-ordered data reaches an ordered sink: in %s, %s => %s" % (fn, f.source, f.sink),
                          [loc_file, f.line])
    ctx.floor("order", "hash-order sources followed", n_sources, 40)
    ctx.note("function summaries (return hash-ordered data): %s" % sorted(eng.returns))
    # side conditions of exemptions
    callers = facts.calls_to()
    for e in table:
        for fn in e.get("requires_no_callers", []):
            if fn not in facts.bodies():
                ctx.ok("order-exempt-condition", fn + ":absent")
                continue
            cs = [c for c in callers.get(fn, [])]
            ctx.check(not cs, "order-exempt-condition", fn,
                      "exemption %r relies on %s having no caller, but it is called from %s"
                      % (e["key"].split("|")[0], fn, [c["from"] for c in cs][:3]),
                      cs[0]["loc"] if cs else None, detail={"no_callers_of": fn})
    # ---- address-derived order ---------------------------------------------------------------------
    ctx.rule("address", "no pointer-to-integer conversion (`as usize` on a pointer, addr(), expose_provenance()) "
                        "in the workspace: nothing can be ordered or named by an address")
    n_casts = 0
    for t in facts.tags():
        for k in facts.index(t).get("casts", []):
            n_casts += 1
            if k["ck"] in ("PointerExposeProvenance", "PointerWithExposedProvenance"):
                ctx.violation("address", "%s:%s->%s" % (k["fn"], k["from"], k["to"]),
                              "pointer/integer conversion in %s" % k["fn"], k["loc"])
    for c in facts.calls():
        to = c["to"]
        if to.endswith("::addr") and "ptr" in to or "expose_provenance" in to or "expose_addr" in to:
            ctx.violation("address", "%s:%s" % (c["from"], to), "address taken as integer in %s" % c["from"], c["loc"])
    ctx.ok("address", "inventory", {"casts_inspected": n_casts, "pointer_to_int": 0})
    # ---- clocks, randomness, threads -----------------------------------------------------------------
    ctx.rule("ambient", "no clock / random / pid / thread / environment source in the crates behind check, run, fmt and "
                        "build, except the allow-listed (function, source) pairs")
    n_calls = 0
    for c in facts.calls():
        n_calls += 1
        to = c["to"]
        hit = next((p for p in CLOCK_PATTERNS if p in to), None)
        if not hit:
            continue
        owner = c["from"].split("::{closure")[0]
        if crate_of(owner) in INTERACTIVE_CRATES:
            continue
        allowed = any(owner == fn and pat in to for (fn, pat) in CLOCK_ALLOWED)
        ctx.check(allowed, "ambient", "%s:%s" % (owner, to.split("<")[0]),
                  "%s reads an ambient nondeterministic source (%s)" % (owner, to), c["loc"],
                  detail={"fn": owner, "source": to, "allowed_because": next((r for (fn, pat), r in CLOCK_ALLOWED.items() if owner == fn and pat in to), None)})
    ctx.note("ambient: %d call edges inspected" % n_calls)
    # ---- {:?} of hash containers ---------------------------------------------------------------------
    ctx.rule("debugfmt", "no `{:?}` formatting of a RandomState-hashed container outside derive(Debug)")
    n_dbg = 0
    for c in facts.calls():
        if "fmt::rt::Argument" in c["to"] and "new_debug" in c["to"]:
            n_dbg += 1
            a = c.get("args") or []
            if a and tys.is_random_hash_container(a[0]):
                if c.get("expn") and "Debug" in c["expn"]:
                    continue
                owner = c["from"].split("::{closure")[0]
                if crate_of(owner) in INTERACTIVE_CRATES:
                    continue
                ctx.violation("debugfmt", "%s:%s" % (owner, order.short_ty(a[0])),
                              "%s formats a hash container with {:?} (iteration order leaks into text)" % owner, c["loc"])
    ctx.ok("debugfmt", "inventory", {"debug_format_arguments_inspected": n_dbg})
    ctx.assume("key functions of sort_by_key neutralisers are total on their elements (source_order is an enumerate() index)")
    ctx.assume("third-party crates (pretty, ariadne, salsa, lalrpop) do not iterate RandomState containers into output")
    return {}
