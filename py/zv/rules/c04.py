"""C04 — exhaustiveness checking (constructor-table agreement, hint pairing, gate, truncation, audited matrix recursion)."""
import re

from .. import armlib as A
from .. import golden
from .. import hirlib as H
from .. import tys

EXPLANATION = (
    "Soundness and completeness of the pattern-matrix algorithm against brute-force enumeration quantify over all matrices "
    "and values and are NOT decided. Decided, from the typed HIR of validate/coverage.rs and the checker: (1) the five "
    "tables of the algorithm agree per constructor kind: MatrixPattern::head_space maps each non-wildcard pattern to the "
    "head space whose HeadSpace::constructors yields the constructor kind that Constructor::specialize accepts for exactly "
    "that pattern (diagonal), every other pair is None, a wildcard specialises to arity() wildcards, each diagonal arm "
    "yields exactly arity() sub-patterns, and Constructor::rebuild consumes exactly arity() witnesses; (2) from_typed maps "
    "every typed pattern former (no default arm): variables, holes and aliases to Wildcard, constructors with the data "
    "definition recorded by the checker, products to a right-nested binary spine, packages to their dynamic payload; (3) "
    "every producer of a CoMatch node / constructor pattern records its codata / data hint for the very id it produced, "
    "and the scrutinee hint is recorded on the Data arm of the unrolled scrutinee type; (4) gate and truncation: every "
    "coverage error is appended to the checker's error list (no filter) before acceptance is decided, `truncated` is "
    "computed before truncation and both recursion helpers take MAX+1 witnesses; (5) audited flow-sensitive traces of "
    "uncovered / uncovered_finite / uncovered_default / validate_* (rules/golden_coverage.json): column bookkeeping "
    "columns-1+arity, specialise keeps the rest of the row, the head space is searched over all rows, the expected space "
    "is used for empty matrices, comatch missing = declared minus supplied, duplicates reported once."
)

CV = "zydeco_statics::validate::coverage::"
KINDS = {
    # MatrixPattern variant -> (HeadSpace variant, Constructor variant, arity)
    "Constructor": ("Data", "Data", "1"),
    "Unit": ("Unit", "Unit", "0"),
    "Product": ("Product", "Product", "payload"),
    "Named": ("Named", "Named", "1"),
    "Package": ("Package", "Package", "1"),
}


def _arms(ctx, rule, fn):
    h = ctx.need_hir(rule, fn)
    m = A.find_match_on(h["body"], lambda n: True)
    return h, m


def _v(p):
    return (H.top_variant(A.strip_or(p)) or "_").split("::")[-1]


def rule_tables(ctx):
    rule = "constructor-tables"
    facts = ctx.facts
    ctx.rule(rule, "head_space / constructors / specialize / arity / rebuild agree for each of the five constructor kinds; "
                   "off-diagonal specialisation is None; wildcards specialise to arity() wildcards")
    loc = facts.bodies()[CV + "Constructor::specialize"]["loc"]
    # arity table
    h, m = _arms(ctx, rule, CV + "Constructor::arity")
    env = A.Env(); env.strip = True; env.bind_params(h)
    arity = {}
    for a in m["arms"]:
        p = A.strip_or(a["pat"])
        pats = p["pats"] if H.kind(p) == "Or" else [p]
        e = A.ArmEnv(); e.strip = True; e.names = dict(env.names); e.bind_pat(p)
        val = A.sexpr(a["body"], e)
        for q in pats:
            arity[_v(q)] = "payload" if val.endswith("Product.0") else val
    want_ar = {c: ar for (_, c, ar) in KINDS.values()}
    ctx.check(arity == want_ar, rule, "arity", "Constructor::arity is %s, expected %s" % (arity, want_ar),
              facts.bodies()[CV + "Constructor::arity"]["loc"], detail={"arity": arity})
    # head_space
    h, m = _arms(ctx, rule, CV + "MatrixPattern::head_space")
    hs = {}
    for a in m["arms"]:
        body = H.peel(a["body"])
        v = _v(a["pat"])
        if H.kind(body) == "Path":
            hs[v] = (body.get("res", {}).get("def") or "").split("::")[-1]
        else:
            inner = H.peel(H.call_args(body)[0]) if H.kind(body) == "Call" and (H.callee(body) or "").endswith("Option::Some") else None
            c = None
            if inner is not None:
                c = (H.callee(inner) or (inner.get("res", {}).get("def") if H.kind(inner) == "Path" else None) or "")
            hs[v] = (c or "?").split("::")[-1]
    want_hs = dict({k: v[0] for k, v in KINDS.items()}, Wildcard="None")
    ctx.check(hs == want_hs, rule, "head_space", "MatrixPattern::head_space is %s, expected %s" % (hs, want_hs),
              facts.bodies()[CV + "MatrixPattern::head_space"]["loc"], detail={"head_space": hs})
    # constructors
    h, m = _arms(ctx, rule, CV + "HeadSpace::constructors")
    cs = {}
    for a in m["arms"]:
        made = sorted(set((n["path"].get("def") or "").split("::")[-1] for n in H.walk(a["body"]) if H.kind(n) == "Struct"
                          and "coverage::Constructor::" in (n["path"].get("def") or "")) |
                      set((H.callee(n) or "").split("::")[-1] for n in H.walk(a["body"]) if H.kind(n) == "Call"
                          and "coverage::Constructor::" in (H.callee(n) or "")) |
                      set((n.get("res", {}).get("def") or "").split("::")[-1] for n in H.walk(a["body"]) if H.kind(n) == "Path"
                          and re.search(r"coverage::Constructor::(Unit|Package)$", n.get("res", {}).get("def") or "")))
        cs[_v(a["pat"])] = made
    want_cs = {v[0]: [v[1]] for v in KINDS.values()}
    ctx.check(cs == want_cs, rule, "constructors", "HeadSpace::constructors is %s, expected %s" % (cs, want_cs),
              facts.bodies()[CV + "HeadSpace::constructors"]["loc"], detail={"constructors": cs})
    # the Data space enumerates the declaration of that data type, deduplicated, without any other filter
    data_arm = next((a for a in m["arms"] if _v(a["pat"]) == "Data"), None)
    if data_arm is not None:
        e = A.ArmEnv(); e.strip = True; e.bind_params(h); e.bind_pat(A.strip_or(data_arm["pat"])); e.absorb(data_arm["body"])
        fm = next((n for n in H.walk(data_arm["body"]) if H.kind(n) == "MethodCall" and n["name"] == "filter_map"), None)
        recv = A.sexpr(fm["recv"], e) if fm else ""
        adapters = [x["name"] for x in H.walk(data_arm["body"]) if H.kind(x) == "MethodCall" and x["name"] in
                    ("filter", "skip", "take", "step_by", "take_while", "skip_while", "rev")]
        ctx.check(recv == "([] (. $P1 datas) $Data.0)" and not adapters, rule, "constructors:data-space",
                  "the constructor space of a data type is enumerated from %s with %s; expected every arm of statics.datas[data]"
                  % (recv[:100], adapters), facts.bodies()[CV + "HeadSpace::constructors"]["loc"], detail={"space": "statics.datas[data]"})
    # specialize
    h, m = _arms(ctx, rule, CV + "Constructor::specialize")
    diag = {}
    default_none = False
    wild = None
    for a in m["arms"]:
        p = A.strip_or(a["pat"])
        body = H.peel(a["body"])
        if H.kind(p) == "Tuple" and len(p["pats"]) == 2:
            cv, pv = _v(p["pats"][0]), _v(p["pats"][1])
            e = A.ArmEnv(); e.strip = True; e.bind_params(h); e.bind_pat(p)
            val = A.sexpr(a["body"], e)
            if pv == "Wildcard":
                wild = (cv, val)
            else:
                diag[(cv, pv)] = (val, A.sexpr(a["guard"], e) if a.get("guard") is not None else None)
        elif H.pat_is_catch_all(p):
            default_none = H.kind(body) == "Path" and (body.get("res", {}).get("def") or "").endswith("Option::None")
    ctx.check(default_none, rule, "specialize:off-diagonal", "Constructor::specialize no longer answers None for every pair that is not "
              "listed", loc, detail={"default": "None"})
    ctx.check(wild is not None and wild[0] == "_" and re.search(r"vec::from_elem zydeco_statics::validate::coverage::MatrixPattern::Wildcard "
              r"\(zydeco_statics::validate::coverage::Constructor::arity \$P0\)\)", wild[1] or "") is not None, rule, "specialize:wildcard",
              "a wildcard row specialises to %s; expected vec![Wildcard; self.arity()] for every constructor" % (wild,), loc,
              detail={"wildcard": "vec![Wildcard; arity()]"})
    want_diag = {(v[1], k) for k, v in KINDS.items()}
    ctx.check(set(diag) == want_diag, rule, "specialize:diagonal", "Constructor::specialize pairs %s, expected exactly %s"
              % (sorted(diag), sorted(want_diag)), loc, detail={"pairs": sorted("%s/%s" % k for k in diag)})
    for (cv, pv), (val, guard) in sorted(diag.items()):
        ar = want_ar.get(cv)
        if ar == "1":
            ok = re.match(r"^\(core::option::Option::Some \(alloc::boxed::box_assume_init_into_vec_unsafe .*\(array \$T1/%s\.(\w+)\)\)\)\)$" % pv, val) is not None \
                or re.match(r"^\(core::option::Option::Some \(.*\(array [^ ()]+\)\)+\)$", val) is not None
            payload = re.search(r"\(array ([^ ()]+)\)", val)
            ok = ok and payload is not None and payload.group(1).startswith("$T1/%s." % pv)
        elif ar == "0":
            ok = val == "(core::option::Option::Some (alloc::vec::Vec::<T>::new ))"
        else:
            ok = val == "(core::option::Option::Some $T1/Product.0)" and guard == "(Eq $T0/Product.0 (alloc::vec::Vec::<T, A>::len $T1/Product.0))"
        if cv in ("Data", "Named") and ok:
            ok = guard is not None and re.match(r"^\(Eq \$T0/%s\.(name|0) \$T1/%s\.(name|0)\)$" % (cv, pv), guard) is not None
        ctx.check(ok, rule, "specialize:%s" % cv, "Constructor::specialize (%s, %s) yields %s under guard %s: not exactly arity()=%s sub-patterns "
                  "of the matching pattern (same name / same arity)" % (cv, pv, val[:140], guard, ar), loc,
                  detail={"constructor": cv, "yields": "arity %s" % ar, "guard": guard})
    # rebuild consumes arity()
    fn = CV + "Constructor::rebuild"
    h = ctx.need_hir(rule, fn)
    env = A.ArmEnv(); env.strip = True; env.bind_params(h); env.absorb(h["body"])
    so = next((n for n in H.walk(h["body"]) if H.kind(n) == "MethodCall" and n["name"] == "split_off"), None)
    ctx.check(so is not None and A.sexpr(so, env) == "(alloc::vec::Vec::<T, A>::split_off $P1 (zydeco_statics::validate::coverage::Constructor::arity $P0))",
              rule, "rebuild:split", "Constructor::rebuild does not split the witness row at arity()", facts.bodies()[fn]["loc"],
              detail={"split": "row.split_off(self.arity())"})
    m = A.find_match_on(h["body"], lambda n: True)
    used = {}
    for a in m["arms"]:
        v = _v(a["pat"])
        nexts = sum(1 for n in H.walk(a["body"]) if H.kind(n) == "MethodCall" and n["name"] == "next")
        whole = any(H.kind(n) == "Call" and (H.callee(n) or "").endswith("CoveragePattern::Product") and H.path_local(H.call_args(n)[0]) is not None
                    for n in H.walk(a["body"]))
        used[v] = "payload" if whole else str(nexts)
    ctx.check(used == want_ar, rule, "rebuild:consumes", "Constructor::rebuild consumes %s witnesses per kind, arity() says %s" % (used, want_ar),
              facts.bodies()[fn]["loc"], detail={"consumes": used})
    tail = [A.sexpr(n, env) for n in H.walk(h["body"]) if H.kind(n) == "MethodCall" and n["name"] == "chain"]
    ctx.check(len(tail) == 1 and tail[0].startswith("(core::iter::traits::iterator::Iterator::chain (core::iter::sources::once::once ")
              and tail[0].endswith("(alloc::vec::Vec::<T, A>::split_off $P1 (zydeco_statics::validate::coverage::Constructor::arity $P0)))"),
              rule, "rebuild:rest", "Constructor::rebuild does not return head followed by the untouched rest of the row", facts.bodies()[fn]["loc"],
              detail={"result": "once(head).chain(rest)"})


def rule_from_typed(ctx):
    rule = "pattern-translation"
    facts = ctx.facts
    ctx.rule(rule, "MatrixPattern::from_typed has an explicit arm for every ValuePattern former: Hole/Var/Alias => Wildcard; Named / Ctor / "
                   "Triv / VCons / SCons => the corresponding matrix pattern over the translated sub-patterns; the product spine is a "
                   "right fold of binary products ending in the tail, and a package has one Package layer per witness (so the grouping "
                   "of a telescope, `(A, B, p)` or `(A, (B, p))`, does not change the row shape)")
    fn = CV + "MatrixPattern::from_typed"
    h, m = _arms(ctx, rule, fn)
    loc = facts.bodies()[fn]["loc"]
    variants = [v["name"] for v in facts.adts()["zydeco_statics::syntax::ValuePattern"]["variants"]]
    got = {}
    for a in m["arms"]:
        p = A.strip_or(a["pat"])
        pats = p["pats"] if H.kind(p) == "Or" else [p]
        e = A.ArmEnv(); e.strip = True; e.bind_params(h); e.bind_pat(p); e.absorb(a["body"])
        val = A.sexpr(a["body"], e)
        for q in pats:
            dup = _v(q) in got
            got.setdefault(_v(q), val)      # the first arm wins at run time
            if dup:
                got["%s (second arm)" % _v(q)] = val
    ctx.check(sorted(got) == sorted(variants), rule, "arms", "from_typed has arms %s for formers %s (a default arm would turn a new former into "
              "a wildcard)" % (sorted(got), sorted(variants)), loc, detail={"arms": sorted(got)})
    FT = "zydeco_statics::validate::coverage::MatrixPattern::from_typed"
    MP = "zydeco_statics::validate::coverage::MatrixPattern::"
    want = {
        "Hole": r"^%sWildcard$" % re.escape(MP), "Var": r"^%sWildcard$" % re.escape(MP), "Alias": r"^%sWildcard$" % re.escape(MP),
        "Triv": r"^%sUnit$" % re.escape(MP),
        "Named": r"^\(%sNamed \$Named\.0/Named\.0 \(%s \$Named\.0/Named\.1 \$P1\)\)$" % (re.escape(MP), re.escape(FT)),
        "Ctor": r"^\(%sConstructor data=\(core::option::Option::<T>::expect \(.*::get \(\. \$P1 data_pat_hints\) \$P0\) [^)]*\) name=\$Ctor\.0/Ctor\.0 argument=\(%s \$Ctor\.0/Ctor\.1 \$P1\)\)$" % (re.escape(MP), re.escape(FT)),
        # one Package layer per witness (F57): a fold over the witnesses that wraps the translated tail
        "SCons": r"^\(<.*? as core::iter::traits::iterator::Iterator>::fold (\(core::iter::traits::iterator::Iterator::rev )?\$SCons\.0/ConsN\.0\)? "
                 r"\(%s \$SCons\.0/ConsN\.1 \$P1\) \(closure \(%sPackage \$c0\.0\)\)\)$" % (re.escape(FT), re.escape(MP)),
        "VCons": r"^\(\S* as core::iter::traits::iterator::Iterator>::fold \(core::iter::traits::iterator::Iterator::rev \$VCons\.0/ConsN\.0\) \(%s \$VCons\.0/ConsN\.1 \$P1\) "
                 r"\(closure \(%sProduct \(.*\(array \(%s \(each \(core::iter::traits::iterator::Iterator::rev \$VCons\.0/ConsN\.0\)\) \$P1\) \$c0\.0\)\)+$" % (re.escape(FT), re.escape(MP), re.escape(FT)),
    }
    for v, rx in want.items():
        ctx.check(v in got and re.match(rx, got[v]) is not None, rule, "arm:%s" % v, "from_typed(%s) builds %s" % (v, (got.get(v) or "(missing)")[:220]),
                  loc, detail={"former": v})


def rule_hints(ctx):
    rule = "hint-pairing"
    facts = ctx.facts
    ctx.rule(rule, "every body of zydeco-statics outside elaborate/ that builds a CoMatch node or a constructor pattern either records the "
                   "codata / data hint for the allocated id itself, or is a query judgment whose every caller records it for `outcome.id`; "
                   "the scrutinee hint of a match is recorded on the Type::Data arm of the unrolled, filled scrutinee type")
    producers = {}
    hints = {}
    for p, bd in facts.bodies().items():
        if bd["tag"] != "zydeco_statics" or bd.get("expn") and "derive" in str(bd.get("expn")):
            continue
        h = facts.hir(p)
        if h is None:
            continue
        for n in H.walk(h["body"]):
            k = H.kind(n)
            ty = n.get("ty") or ""
            if k in ("Struct", "Call") and re.match(r"zydeco_syntax::(CoMatch|Ctor)<", ty):
                if k == "Call" and not (H.callee(n) or "").startswith("zydeco_syntax::"):
                    continue
                kind = "CoMatch" if ty.startswith("zydeco_syntax::CoMatch<") else ("CtorPat" if "VPatId>" in ty else None)
                if kind == "CoMatch" and k == "Struct":
                    arms = next((f for f in n["fields"] if f["name"] == "arms"), None)
                    if arms is not None and (H.callee(H.peel(arms["e"])) or "").endswith("Vec::<T>::new"):
                        kind = "CoMatch(empty)"
                if kind:
                    producers.setdefault(p, set()).add(kind)
            if k == "MethodCall" and n["name"] in ("insert_new", "upsert"):
                r = H.peel(n["recv"])
                if H.kind(r) == "Field" and r["name"] in ("data_hints", "data_pat_hints", "codata_hints"):
                    hints.setdefault(p, []).append((r["name"], n))
    need = {"CoMatch": "codata_hints", "CtorPat": "data_pat_hints"}
    n = 0
    callers = facts.calls_to()
    for p, kinds in sorted(producers.items()):
        file = facts.bodies()[p]["loc"][0]
        if "/elaborate/" in file:
            continue    # monadic elaboration runs after coverage validation
        for kind in sorted(kinds):
            if kind == "CoMatch(empty)":
                ctx.ok(rule, "%s:%s" % (_short(p), kind), {"producer": _short(p), "audited": "the empty comatch of Top has no destructors to cover"})
                continue
            n += 1
            field = need[kind]
            own = [x for f, x in hints.get(p, []) if f == field]
            if own:
                ctx.ok(rule, "%s:%s" % (_short(p), kind), {"producer": _short(p), "records": field, "where": "same body"})
                continue
            jm = re.search(r"_::(\w+)_Configuration_", p)
            if jm:
                jname = jm.group(1)
                cs = [c for k2, v in callers.items() if k2.endswith("::" + jname) for c in v if c["from"] in facts.bodies()
                      and facts.bodies()[c["from"]]["tag"] == "zydeco_statics" and "_Configuration_" not in c["from"]]
                ok = bool(cs)
                bad = []
                for c in cs:
                    caller = c["from"].split("::{closure")[0]
                    hh = facts.hir(caller)
                    good = False
                    if hh is not None:
                        env = A.ArmEnv(); env.strip = True; env.bind_params(hh); env.absorb(hh["body"])
                        for f, x in hints.get(caller, []):
                            if f != field:
                                continue
                            key = A.sexpr(x["args"][0], env)
                            if jname in key and re.search(r"/Some\.0 id\)$|\. .*%s.* id\)$" % jname, key):
                                good = True
                    if not good:
                        bad.append(caller)
                ctx.check(ok and not bad, rule, "%s:%s" % (jname, kind), "judgment %s produces a %s node but %s do(es) not record %s for outcome.id: "
                          "coverage validation skips that node" % (jname, kind, bad or "no caller", field), facts.bodies()[p]["loc"],
                          detail={"producer": jname, "records": field, "where": "every caller, keyed by outcome.id"})
            else:
                ctx.violation(rule, "%s:%s" % (_short(p), kind), "%s builds a %s node without recording %s" % (p, kind, field), facts.bodies()[p]["loc"])
    ctx.floor(rule, "producers of CoMatch nodes / constructor patterns", n, 3)
    # scrutinee hint
    sites = 0
    for p, hs in sorted(hints.items()):
        file = facts.bodies()[p]["loc"][0]
        hh = facts.hir(p)
        par = {}
        st = [(hh["body"], None)]
        while st:
            x, q = st.pop()
            if isinstance(x, dict):
                par[id(x)] = q
                for c in H.children(x):
                    st.append((c, x))
        env = A.ArmEnv(); env.strip = True; env.bind_params(hh); env.absorb(hh["body"])
        for f, x in hs:
            if f != "data_hints":
                continue
            val = A.sexpr(x["args"][1], env)
            # climb to the nearest enclosing conditional
            cur, cond = x, None
            while cur is not None:
                q = par.get(id(cur))
                if q is not None and H.kind(q) in ("If", "Match") and not H.is_try(q) and not q.get("src"):
                    cond = q
                    break
                cur = q
            key = A.sexpr(x["args"][0], env)
            if cond is None or not re.search(r"Data\.0$", val) or key.endswith(" id)"):
                continue    # the value-constructor hint (unconditional, data id from the judgment): not a scrutinee hint
            sites += 1
            scr = A.sexpr(cond["scrut"], env) if H.kind(cond) == "Match" else A.sexpr(H.peel(cond["c"])["init"], env) if H.kind(H.peel(cond["c"])) == "LetExpr" else "?"
            ok = re.search(r"type_filled(_k)?\b", scr) is not None and re.search(r"unroll(_k)?\b", scr) is not None
            ctx.check(ok, rule, "scrutinee:%s" % _short(p), "%s records the scrutinee's data hint from %s; expected the Data arm of "
                      "type_filled_k(unroll_k(scrutinee type))" % (_short(p), scr[:160]), [file, x.get("ln")],
                      detail={"fn": _short(p), "hint_from": "Type::Data arm of the unrolled, filled scrutinee type"})
    ctx.floor(rule, "scrutinee hint sites", sites, 2)
    rule_monadic_translation(ctx)


def rule_monadic_translation(ctx):
    """the monadic translation runs DURING checking, before the coverage validator: its Match / CoMatch nodes are validated too"""
    rule = "monadic-translation"
    facts = ctx.facts
    ctx.rule(rule, "computation_translation (the `@[monadic]` elaboration, which runs while the program is checked, before the coverage "
                   "validator) (a) records the data hint of the TRANSLATED scrutinee of a match, so that the validator can decide a match "
                   "without arms (F56); (b) looks the arm of a destructor up only after testing that every destructor of the codata "
                   "type has an arm, reporting a diagnostic otherwise: the comatch has not been validated yet (F55: `unwrap` panicked)")
    fn = "zydeco_statics::elaborate::monadic::computation_translation"
    h = facts.hir(fn)
    if h is None:
        ctx.anchor_lost(rule, fn + " not found")
        return
    loc = facts.bodies()[fn]["loc"]
    arms = {}
    for m in H.walk(h["body"]):
        if H.kind(m) == "Match" and not m.get("src"):
            for a in m["arms"]:
                for v in H.pat_variants(a["pat"]):
                    if v.startswith("zydeco_statics::syntax::Computation::"):
                        arms[v.split("::")[-1]] = a
    ctx.floor(rule, "arms of computation_translation", len(arms), 10)
    a = arms.get("Match")
    if a is None:
        ctx.anchor_lost(rule, "no arm for Computation::Match")
    else:
        env = A.ArmEnv(); env.strip = True; env.bind_params(h); env.absorb(a["body"])
        hint = [n for n in H.walk(a["body"]) if H.kind(n) == "MethodCall" and n["name"] in ("insert_new", "upsert")
                and H.kind(H.peel(n["recv"])) == "Field" and H.peel(n["recv"])["name"] == "data_hints"]
        keys = [A.sexpr(n["args"][0], env) for n in hint]
        ok = any("mbuild" in k and "TermLift" in k for k in keys)
        ctx.check(ok, rule, "match:scrutinee-hint", "the translation of a match records no data hint for the translated scrutinee (%s): "
                  "inside `@[monadic]` an exhaustive `match v end` on an empty data type is rejected with the missing pattern `_`"
                  % [k[:80] for k in keys], [loc[0], a["ln"]], detail={"hint keyed by": [k[:80] for k in keys]})
    a = arms.get("CoMatch")
    if a is None:
        ctx.anchor_lost(rule, "no arm for Computation::CoMatch")
    else:
        lookups = [n for n in H.walk(a["body"]) if H.kind(n) == "MethodCall" and n["name"] in ("unwrap", "expect")
                   and any(H.kind(y) == "MethodCall" and y["name"] in ("get", "remove") for y in H.walk(n["recv"]))]
        index = [n for n in H.walk(a["body"]) if H.kind(n) == "Index"]
        tests = [n for n in H.walk(a["body"]) if H.kind(n) == "If" and any(H.kind(y) == "MethodCall" and y["name"] == "contains_key" for y in H.walk(n.get("c") or {}))
                 and any(H.kind(y) in ("Call", "MethodCall") and re.search(r"Tycker<'\w+>>::err(_k)?$|Tycker::<'\w+>::err(_k)?$", H.callee(y) or "") for y in H.walk(n.get("t") or n.get("then") or n))]
        ok = (not lookups) or bool(tests)
        ctx.check(ok, rule, "comatch:destructor-lookup", "the translation of a comatch unwraps the arm looked up for each destructor of the codata "
                  "type (%d lookup(s)) without first reporting a destructor that has no arm (%d completeness test(s)): `{ comatch | .left "
                  "=> .. end } : Thk Choice` with a second destructor panics the checker" % (len(lookups), len(tests)),
                  [loc[0], a["ln"]], detail={"lookups": len(lookups), "completeness_tests": len(tests)})


def _short(p):
    m = re.search(r"_::(\w+)_Configuration_", p)
    if m:
        return m.group(1)
    p = re.sub(r"zydeco_\w+::", "", p)
    return p[-70:]


def rule_gate(ctx):
    rule = "gate-and-truncation"
    facts = ctx.facts
    ctx.rule(rule, "normalize_and_validate_k appends every CoverageError to the error list (into_iter().map only) before testing it; "
                   "CoverageChecker::validate visits every computation; `truncated` is computed before truncate(MAX); both helpers take MAX+1")
    fn = "zydeco_statics::check::Tycker::<'a>::normalize_and_validate_k"
    h = ctx.need_hir(rule, fn)
    env = A.ArmEnv(); env.strip = True; env.bind_params(h); env.absorb(h["body"])
    ext = [n for n in H.walk(h["body"]) if H.kind(n) == "MethodCall" and n["name"] == "extend" and A.sexpr(n["recv"], env) == "(. $P0 errors)"]
    ok = False
    if len(ext) == 1:
        arg = ext[0]["args"][0]
        adapters = [x["name"] for x in H.walk(arg) if H.kind(x) == "MethodCall"]
        s = A.sexpr(arg, env)
        ok = sorted(adapters) in (["into_iter", "map", "validate"], ["into_iter", "map"], ["clone", "into_iter", "map", "validate"]) \
            and "CoverageChecker::<'a>::validate" in s and "TyckError::Coverage" in s
    ctx.check(ok, rule, "errors-extended", "normalize_and_validate_k does not append every coverage error to self.errors", facts.bodies()[fn]["loc"],
              detail={"errors": "extend(validate().into_iter().map(TyckError::Coverage))"})
    fn = CV + "CoverageChecker::<'a>::validate"
    h = ctx.need_hir(rule, fn)
    env = A.Env(); env.strip = True; env.bind_params(h)
    s = A.sexpr(h["body"], env)
    adapters = sorted(set(x["name"] for x in H.walk(h["body"]) if H.kind(x) == "MethodCall"))
    ok = "(core::iter::traits::iterator::Iterator::flat_map (. (. $P0 statics) compus) (closure (%sCoverageChecker::<'a>::validate_computation " % CV in s \
        and s.startswith("(core::iter::traits::iterator::Iterator::collect ") and set(adapters) <= {"iter", "flat_map", "chain", "collect", "validate_computation", "validate_value"}
    ctx.check(ok, rule, "validate:all-computations", "CoverageChecker::validate is %s (adapters %s): not an unfiltered flat_map over every "
              "computation" % (s[:120], adapters), facts.bodies()[fn]["loc"], detail={"over": "statics.compus", "adapters": adapters})
    fn = next((CV + "CoverageChecker::<'a>::" + f for f in ("missing_patterns", "validate_pattern_matrix")
               if facts.hir(CV + "CoverageChecker::<'a>::" + f) is not None and any(
                   H.kind(x) == "MethodCall" and x["name"] == "truncate" for x in H.walk(facts.hir(CV + "CoverageChecker::<'a>::" + f)["body"]))),
              CV + "CoverageChecker::<'a>::validate_pattern_matrix")
    h = ctx.need_hir(rule, fn)
    body = h["body"]
    stmts = list(body.get("stmts") or [])
    pos = {}
    for i, st in enumerate(stmts):
        for x in H.walk(st):
            if H.kind(x) == "MethodCall" and x["name"] == "truncate":
                pos.setdefault("truncate", (i, A.sexpr(x["args"][0])))
            if H.kind(x) == "Binary" and x["op"] == "Gt" and any(H.kind(y) == "MethodCall" and y["name"] == "len" for y in H.walk(x["a"])):
                pos.setdefault("gt", (i, A.sexpr(x["b"])))
    ok = "truncate" in pos and "gt" in pos and pos["gt"][0] < pos["truncate"][0] and pos["gt"][1] == pos["truncate"][1]
    ctx.check(ok, rule, "truncated-flag", "validate_pattern_matrix: `truncated` (%s) is not computed from the same bound before truncate (%s)"
              % (pos.get("gt"), pos.get("truncate")), facts.bodies()[fn]["loc"], detail={"bound": pos.get("gt", [None, None])[1]})
    bound = pos.get("gt", (0, "?"))[1]
    for f in ("uncovered_finite", "uncovered_default"):
        fn = CV + "CoverageMatrix::<'a>::" + f
        h = ctx.need_hir(rule, fn)
        takes = [A.sexpr(x["args"][0]) for x in H.walk(h["body"]) if H.kind(x) == "MethodCall" and x["name"] == "take"]
        ctx.check(takes == ["(Add %s 1)" % bound], rule, "%s:take" % f, "%s limits its witnesses with take(%s); expected take(%s + 1) so that "
                  "truncation is detectable" % (f, takes, bound), facts.bodies()[fn]["loc"], detail={"take": takes})


def rule_irrefutable(ctx):
    """the predicate on which the matrix relies when it maps an alias pattern to a wildcard"""
    from .. import trav
    rule = "irrefutable-predicate"
    facts = ctx.facts
    ctx.rule(rule, "MatrixPattern::from_typed maps an alias pattern to a wildcard because the checker only accepts alias members for which "
                   "ValuePatternShape::is_irrefutable holds. That predicate has an explicit arm per typed pattern former (no default), "
                   "answers false for a constructor, and recurses into every sub-pattern of the structural formers (named, alias, "
                   "product, opened package): otherwise a refutable pattern hidden in an alias is invisible to the coverage matrix")
    fn = "zydeco_statics::check::ValuePatternShape::is_irrefutable"
    if fn not in facts.bodies():
        ctx.anchor_lost(rule, fn + " not found")
        return
    n = trav.check_traversal(ctx, rule, fn, r"ValuePatternShape::is_irrefutable$", r"statics::syntax::VPatId\b", label="is_irrefutable",
                             ignored_ok={"Ctor": "a constructor pattern is refutable whatever its argument"})
    ctx.floor(rule, "sub-patterns examined", n, 4)
    h = ctx.need_hir(rule, fn)
    m = A.find_match_on(h["body"], lambda x: True)
    for a in m["arms"]:
        vs = set(_v(q) for q in (a["pat"]["pats"] if H.kind(a["pat"]) == "Or" else [a["pat"]]))
        val = A.sexpr(a["body"], None)
        if "Ctor" in vs:
            ctx.check(val == "false" or val == "False", rule, "is_irrefutable:Ctor:false", "a constructor pattern is reported irrefutable (%s)" % val,
                      [facts.bodies()[fn]["loc"][0], a["ln"]], detail={"Ctor": val})
    # the alias judgment really consults it
    callers = set(c["from"].split("::{closure")[0] for c in facts.calls_to().get(fn, []))
    ctx.check(any(c.endswith("PatId> as zydeco_statics::check::Tyck<'a>>::tyck_inner_k") for c in callers), rule, "is_irrefutable:consulted",
              "the pattern judgment no longer consults is_irrefutable for alias members (callers: %s)" % sorted(callers), None,
              detail={"callers": sorted(callers)})


def rule_inhabitation(ctx):
    """"every reported missing pattern denotes at least one value": the enumeration of constructors must skip empty payload types"""
    rule = "inhabitation"
    facts = ctx.facts
    ctx.rule(rule, "HeadSpace::constructors, which enumerates the shapes a value of a data type can have, looks at the payload type of "
                   "each constructor (a constructor whose payload type is empty has no values and must not be enumerated); an "
                   "enumeration that ignores the payload types reports missing patterns that denote no value and rejects exhaustive "
                   "matches over types with empty components")
    fn = CV + "HeadSpace::constructors"
    h = ctx.need_hir(rule, fn)
    if h is None:
        return
    loc = facts.bodies()[fn]["loc"]
    m = A.find_match_on(h["body"], lambda n: True)
    for a in m["arms"]:
        if _v(a["pat"]) != "Data":
            continue
        ignored = False
        for c in H.walk(a["body"]):
            if H.kind(c) == "Closure":
                for p in c.get("params") or []:
                    q = H.peel(p) if not isinstance(p, dict) or "pat" not in p else p["pat"]
                    kids = [x for x in H.walk(q) if H.kind(x) in ("Bind", "Wild")]
                    if any(H.kind(x) == "Wild" and "TypeId" in (x.get("ty") or "") for x in kids):
                        ignored = True
        if ignored:
            ctx.violation(rule, "constructors:Data:payload-type-ignored", "HeadSpace::constructors enumerates every declared constructor "
                          "of a data type and ignores its payload type (`(name, _)`): the matrix is not inhabitation-aware, so "
                          "`| +None() => ..` on `data | +None : Unit | +Some : Void end` is rejected with the missing pattern "
                          "`+Some(_)`, which denotes no value", [loc[0], a["ln"]])
        else:
            ctx.ok(rule, "constructors:Data:payload-type-examined")


def rule_binder_coverage(ctx):
    """every binder position of the typed language is validated (a binder outside `match` is a one-clause match)"""
    rule = "binder-coverage"
    facts = ctx.facts
    ctx.rule(rule, "every variant of the typed Computation and Value that carries a value pattern (VPatId: the binders of fn, fix, do, "
                   "let, match) has an explicit arm in CoverageChecker::validate_computation / validate_value that hands that binder to "
                   "the matrix validator, and CoverageChecker::validate visits both arenas: no binder of an accepted program is "
                   "refutable, so the interpreter's `pattern match failed` sites are unreachable")
    fam = r"CoverageChecker::<'a>::(validate_\w+|missing_patterns)$"
    n = 0
    for adt, fn in (("zydeco_statics::syntax::Computation", CV + "CoverageChecker::<'a>::validate_computation"),
                    ("zydeco_statics::syntax::Value", CV + "CoverageChecker::<'a>::validate_value")):
        short = adt.split("::")[-1]
        a = facts.adts().get(adt)
        if a is None:
            ctx.anchor_lost(rule, adt + " not found")
            continue
        carriers = [v["name"] for v in a["variants"] if any("VPatId" in (f.get("ty") or "") for f in v["fields"])]
        ctx.floor(rule, "%s variants carrying a value pattern" % short, len(carriers), 2)
        h = facts.hir(fn)
        if h is None:
            for v in carriers:
                n += 1
                ctx.violation(rule, "%s::%s:unvalidated" % (short, v), "there is no %s: the binder of %s::%s is never checked for "
                              "refutability (a constructor pattern that does not cover its data type is accepted and the interpreter "
                              "panics `pattern match failed`)" % (fn.split("::")[-1], short, v), a.get("loc"))
            continue
        ctx.fn(fn)
        loc = facts.bodies()[fn]["loc"]
        m = A.find_match_on(h["body"], lambda x: short in H.strip_refs(x["scrut"].get("ty") or ""))
        if m is None:
            ctx.anchor_lost(rule, "%s: dispatch on %s not found" % (fn, short))
            continue
        for v in carriers:
            n += 1
            arm = None
            for arm_ in m["arms"]:
                pat = arm_["pat"]
                alts = pat["pats"] if H.kind(pat) == "Or" else [pat]
                if any((H.top_variant(A.strip_or(q)) or "").split("::")[-1] == v for q in alts):
                    arm = arm_
                    alt = next(q for q in alts if (H.top_variant(A.strip_or(q)) or "").split("::")[-1] == v)
            if arm is None:
                ctx.violation(rule, "%s::%s:unvalidated" % (short, v),
                              "%s has no arm for %s::%s: its binder is never checked for refutability (a constructor pattern that does "
                              "not cover its data type is accepted there and the interpreter panics `pattern match failed`)"
                              % (fn.split("::")[-1], short, v), loc)
                continue
            binds = [b for b in H.pat_bindings(alt) if "VPatId" in (b.get("ty") or "")]
            names = set(b["name"] for b in binds)
            handed = False
            for node, c in H.calls(arm["body"]):
                if re.search(fam, c):
                    for x in H.call_args(node):
                        for q in H.walk(x):
                            l = H.path_local(q)
                            if l and l[1] in names:
                                handed = True
            ctx.check(bool(binds) and handed, rule, "%s::%s:validated" % (short, v),
                      "%s arm %s binds %s but does not hand the value pattern to the matrix validator" % (fn.split("::")[-1], v, sorted(names)),
                      [loc[0], arm["ln"]], detail={"variant": v, "binder": sorted(names)})
    ctx.floor(rule, "binder positions", n, 7)
    # validate visits both arenas
    fn = CV + "CoverageChecker::<'a>::validate"
    h = ctx.need_hir(rule, fn)
    if h is not None:
        txt = A.sexpr(h["body"], None)
        callees = set(c for _, c in H.calls(h["body"]))
        for arena, f in (("compus", "validate_computation"), ("values", "validate_value")):
            ok = any(c.endswith("::" + f) for c in callees) and any(
                H.kind(x) == "Field" and x.get("name") == arena for x in H.walk(h["body"]))
            ctx.check(ok, rule, "validate:%s" % arena, "CoverageChecker::validate does not run %s over statics.%s" % (f, arena),
                      facts.bodies()[fn]["loc"], detail={"arena": arena})


def run(ctx):
    ctx.rule("matrix-trace", "uncovered / uncovered_finite / uncovered_default / validate_* / the five tables perform the audited sequence of "
                             "operations (rules/golden_coverage.json)")
    golden.check(ctx, "matrix-trace", "golden_coverage.json")
    ctx.rule("runtime-selection", "the interpreter's pattern assignment and product flattening, which must select the arm the matrix says is "
                                  "covered, perform the audited operations (rules/golden_eval.json, shared with C02)")
    golden.check(ctx, "runtime-selection", "golden_eval.json", only={"Assign::step", "into_product_fields", "from_product_fields"})
    rule_tables(ctx)
    rule_from_typed(ctx)
    rule_hints(ctx)
    rule_gate(ctx)
    rule_binder_coverage(ctx)
    rule_irrefutable(ctx)
    rule_inhabitation(ctx)
    ctx.assume("the pattern-matrix algorithm U(P, n, E) as audited is sound and complete (Maranget); agreement with brute-force enumeration "
               "is NOT decided; run-time arm selection is the Assign judgment of C02")
    return {}
