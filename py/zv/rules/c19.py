"""C19 — compilation to first-order stack-passing form preserves behaviour (tag agreement, capture-shape agreement, free-variable equations)."""
import re

from .. import armlib as A
from .. import golden
from .. import hirlib as H

EXPLANATION = (
    "Observational equality of the lowered program with the interpreter quantifies over programs and inputs and is NOT "
    "decided; native execution is not even available here. Decided: sibling-agreement rules, i.e. necessary conditions "
    "that two sides of one protocol use the same function of the same data: (1) tags: constructor values and constructor "
    "patterns, destructor sends and comatch arms all number a name by its position in the declaration of the hinted "
    "(co)data type (four sites, one canonical form), never by arm position; (2) captures: every closure-like translation "
    "derives pattern, creation-site value and (for fix) re-packing value from ONE sorted capture list through "
    "capture_bindings, and the three environment builders map the whole list 1:1 in order into build_product_pattern / "
    "build_product_value with no case on its length - the two product builders are themselves the same function of the "
    "length (Triv for none, VCons with the conservative layout otherwise); (3) the free-variable and bound-variable "
    "equations of both IRs, arm by arm, against an audited table (rules/golden_freevars.json): which children contribute, "
    "which binders are subtracted from which sub-term."
)

LOWER_FNS = {
    "ctor-pattern": (r"<zydeco_statics::syntax::VPatId as zydeco_stackir::sps::lower::Lower>::lower$", "datas", "data_pat_hints", "CtorIdx"),
    "ctor-value": (r"<zydeco_statics::syntax::ValueId as zydeco_stackir::sps::lower::Lower>::lower$", "datas", "data_hints", "CtorIdx"),
    "comatch+dtor": (r"<zydeco_statics::syntax::CompuId as zydeco_stackir::sps::lower::Lower>::lower$", "codatas", "codata_hints", "DtorIdx"),
}
CONVERT = "zydeco_stackir::sps_low::convert::SpsLowConverter::<'a>::"


def rule_tags(ctx):
    rule = "tag-agreement"
    facts = ctx.facts
    ctx.rule(rule, "every CtorIdx / DtorIdx built by the stack-IR lowering has idx = position of the name in statics.datas / "
                   "statics.codatas of the type recorded by the checker's hint (declaration index), with the same name it indexes; the "
                   "construction side and the matching side therefore agree for every program")
    n = 0
    for label, (frx, table, hint, struct) in LOWER_FNS.items():
        fn = next((p for p in facts.bodies() if re.search(frx, p)), None)
        if fn is None:
            ctx.anchor_lost(rule, "%s: lowering function not found" % label)
            continue
        h = ctx.need_hir(rule, fn)
        loc = facts.bodies()[fn]["loc"]
        env = A.ArmEnv(); env.strip = True; env.bind_params(h); env.absorb(h["body"])
        sites = [x for x in H.walk(h["body"]) if H.kind(x) == "Struct" and (x["path"].get("def") or "").endswith(struct)]
        if not sites:
            ctx.anchor_lost(rule, "%s: no %s constructed" % (label, struct))
            continue
        for i, st in enumerate(sites):
            n += 1
            f = {x["name"]: A.sexpr(x["e"], env) for x in st["fields"]}
            idx, name = f.get("idx", ""), f.get("name", "")
            coll = r"\(\[\] \(\. \(\. \$P1 statics\) %s\) \(\[\] \(\. \(\. \$P1 statics\) %s\) (?P<key>.+?)\)\)" % (table, hint)
            m = re.match(r"^\(core::option::Option::<T>::expect \(\S*Iterator>?::position " + coll +
                         r" \(closure \(Eq \(each \(\[\] \(\. \(\. \$P1 statics\) %s\) \(\[\] \(\. \(\. \$P1 statics\) %s\) (?P=key)\)\)\)/T0 (?P<name>.+)\)\)\) [^()]*\)$"
                         % (table, hint), idx)
            nm = m.group("name") if m else None
            ok = m is not None and nm == name
            ctx.check(ok, rule, "%s:%d" % (label, i + 1), "%s builds %s{idx: %s, name: %s}: the tag is not the declaration index of that name in "
                      "statics.%s[statics.%s[..]] - the other side of the protocol numbers it by declaration, so a different arm / "
                      "constructor is selected" % (label, struct, idx[:120], name[:40], table, hint), [loc[0], st.get("ln")],
                      detail={"site": label, "idx": "declaration index by name", "hint": hint})
    ctx.floor(rule, "tag construction sites", n, 4)
    # no other producer of the two index types in the lowering
    others = []
    for p, bd in facts.bodies().items():
        if not bd["loc"][0].startswith("lang/stackir/src/sps/lower.rs") or bd["tag"].endswith("-test"):
            continue
        h = facts.hir(p)
        if h is None:
            continue
        if any(H.kind(x) == "Struct" and re.search(r"(CtorIdx|DtorIdx)$", x["path"].get("def") or "") for x in H.walk(h["body"])):
            others.append(p)
    extra = [p for p in others if not any(re.search(frx, p.split("::{closure")[0]) for frx, _, _, _ in LOWER_FNS.values())]
    ctx.check(not extra, rule, "producers", "CtorIdx / DtorIdx are also built in %s" % extra, None, detail={"producers": len(others)})


def rule_captures(ctx):
    rule = "capture-shape"
    facts = ctx.facts
    ctx.rule(rule, "captured_pattern / captured_value_inside / captured_value_outside are `build_product_*(list.iter().map(one element -> "
                   "one item).collect())` with no test on the list; build_product_pattern and build_product_value are the same function of "
                   "the item list; each translation that builds an environment takes pattern, outside value and inside value from one "
                   "sorted_free_vars list via capture_bindings")
    shapes = {}
    for f, builder in (("captured_pattern", "build_product_pattern"), ("captured_value_inside", "build_product_value"), ("captured_value_outside", "build_product_value")):
        fn = CONVERT + f
        h = ctx.need_hir(rule, fn)
        env = A.ArmEnv(); env.strip = True; env.bind_params(h); env.absorb(h["body"])
        conds = [H.kind(x) for x in H.walk(h["body"]) if H.kind(x) in ("If", "Match") and not (H.kind(x) == "Match" and (H.is_try(x) or x.get("src")))]
        from . import c07
        outs = [A.sexpr(o, env) for o in c07._results(h["body"])]
        m = re.match(r"^\(%s%s \$P0 \(core::iter::traits::iterator::Iterator::collect \(core::iter::traits::iterator::Iterator::map \$P1 \(closure (?P<elem>.+)\)\)\)( \$P\d)?\)$"
                     % (re.escape(CONVERT), builder), outs[0]) if len(outs) == 1 else None
        ok = m is not None and not conds and m.group("elem").count("(each $P1)") >= 1
        shapes[f] = m.group("elem") if m else None
        ctx.check(ok, rule, "%s:whole-list" % f, "%s is %s (conditionals: %s); expected %s over the whole list, one item per capture, in order: "
                  "a special case for some length makes this side's environment differ from its siblings'" % (f, [o[:140] for o in outs], conds, builder),
                  facts.bodies()[fn]["loc"], detail={"fn": f, "builder": builder})
    # the two product builders agree
    b = {}
    for f in ("build_product_pattern", "build_product_value"):
        fn = CONVERT + f
        h = ctx.need_hir(rule, fn)
        env = A.ArmEnv(); env.strip = True; env.bind_params(h); env.absorb(h["body"])
        m = A.find_match_on(h["body"], lambda n: True)
        arms = []
        for a in (m["arms"] if m else []):
            e = A.ArmEnv(); e.strip = True; e.names = dict(env.names); e.bind_pat(A.strip_or(a["pat"]))
            s = A.sexpr(a["body"], e)
            s = re.sub(r" (\$P2|core::option::Option::None)\)$", " <site>)", s)
            s = re.sub(r"Construct<[^>]*>", "Construct<..>", s)
            arms.append((A.pat_shape(a["pat"]), s))
        b[f] = (A.sexpr(m["scrut"], env) if m else None, arms)
    ctx.check(b["build_product_pattern"] == b["build_product_value"] and b["build_product_value"][0] is not None, rule, "product-builders",
              "build_product_pattern and build_product_value differ as functions of the item list: %s vs %s" % (b["build_product_pattern"], b["build_product_value"]),
              facts.bodies()[CONVERT + "build_product_value"]["loc"], detail={"scrutinee": b["build_product_value"][0]})
    # users
    n = 0
    for p, bd in sorted(facts.bodies().items()):
        if not p.startswith(CONVERT) or "{closure" in p:
            continue
        h = facts.hir(p)
        if h is None:
            continue
        calls = [(n2, c.split("::")[-1]) for n2, c in H.calls(h["body"]) if c.startswith(CONVERT) and c.split("::")[-1] in
                 ("captured_pattern", "captured_value_inside", "captured_value_outside", "sorted_free_vars", "capture_bindings")]
        names = [c for _, c in calls]
        if not any(c.startswith("captured_") for c in names) or p.split("::")[-1].startswith("captured_"):
            continue
        n += 1
        env = A.ArmEnv(); env.strip = True; env.bind_params(h); env.absorb(h["body"])
        args = {}
        for node, c in calls:
            args.setdefault(c, []).append(A.sexpr(H.call_args(node)[1], env))
        srt = args.get("sorted_free_vars", [])
        ok = names.count("sorted_free_vars") == 1 and names.count("capture_bindings") == 1 and names.count("captured_pattern") == 1 \
            and names.count("captured_value_outside") == 1
        cap = "(%ssorted_free_vars $P0 " % CONVERT
        bind = "(%scapture_bindings $P0 %s" % (CONVERT, cap)
        ok = ok and all(a.startswith(bind) for a in args.get("captured_pattern", []) + args.get("captured_value_inside", [])) \
            and all(a.startswith(cap) for a in args.get("captured_value_outside", [])) and all(a.startswith(cap) for a in args.get("capture_bindings", []))
        ctx.check(ok, rule, "%s:one-list" % p.split("::")[-1], "%s builds its environment from %s: pattern, outside value and inside value must all "
                  "derive from one sorted_free_vars(..) through capture_bindings" % (p.split("::")[-1], {k: [x[:60] for x in v] for k, v in args.items()}),
                  bd["loc"], detail={"fn": p.split("::")[-1], "helpers": names})
    ctx.floor(rule, "closure-like translations", n, 3)
    fn = CONVERT + "sorted_free_vars"
    h = ctx.need_hir(rule, fn)
    names = [x["name"] for x in H.walk(h["body"]) if H.kind(x) == "MethodCall"]
    ctx.check(any(x.startswith("sort") for x in names) and "free_vars" in names, rule, "sorted_free_vars", "sorted_free_vars is %s: the capture order "
              "must be a function of the set (sorted), the same at creation and at entry" % names, facts.bodies()[fn]["loc"], detail={"calls": names})
    fn = CONVERT + "capture_bindings"
    h = ctx.need_hir(rule, fn)
    env = A.ArmEnv(); env.strip = True; env.bind_params(h); env.absorb(h["body"])
    from . import c07
    outs = [A.sexpr(o, env) for o in c07._results(h["body"])]
    ctx.check(len(outs) == 1 and outs[0].startswith("(core::iter::traits::iterator::Iterator::collect (core::iter::traits::iterator::Iterator::map $P1 (closure (tuple (each $P1) "),
              rule, "capture_bindings", "capture_bindings is %s: expected a 1:1, order-preserving map of the capture list" % [o[:120] for o in outs],
              facts.bodies()[fn]["loc"], detail={"map": "captures.iter().map(|c| (c, fresh(c)))"})


def rule_layout_stability(ctx):
    """the physical layout of a product must not depend on how much of its type happens to be known at a site"""
    rule = "layout-stability"
    facts = ctx.facts
    ctx.rule(rule, "Lowerer::product_arity (the number of words of a product object, used by every site that builds or reads one) is the "
                   "same function of a type and of every instance of it: it must not flatten a tail that is syntactically a product "
                   "while counting a tail that is a type variable / abstract type as one word, because the producer and the consumer "
                   "of one object see different instances of the same type (a polymorphic function and its caller, the two sides of "
                   "an existential package)")
    fn = "zydeco_stackir::sps::lower::Lowerer::<'a>::product_arity"
    h = ctx.need_hir(rule, fn)
    if h is None:
        return
    loc = facts.bodies()[fn]["loc"]
    flattens = False
    default_one = False
    for m in H.walk(h["body"]):
        if H.kind(m) != "Match" or m.get("src"):
            continue
        for a in m["arms"]:
            shape = A.pat_shape(a["pat"])
            rec = any((H.callee(c) or "") == fn for c in H.walk(a["body"]) if H.kind(c) in ("Call", "MethodCall"))
            if "Prod" in shape and rec and m is not A.find_match_on(h["body"], lambda n: True):
                flattens = True
            if H.pat_is_catch_all(A.strip_or(a["pat"])) and A.sexpr(a["body"], None) == "1":
                default_one = True
    if flattens and default_one:
        ctx.violation(rule, "product_arity:tail-by-syntactic-shape", "Lowerer::product_arity flattens the tail of a product when it is "
                      "syntactically a product at this site and counts any other tail (a type variable, an abstract type) as one word: "
                      "`def ! pair (A : VType) (a : A) : Ret (Int64 * A) = ret (1, a)` builds a 2-word object that the caller at "
                      "`A = Int64 * Int64` reads as 3 words, and an existential package `(Int64 * Int64, snd, (3, 5))` is packed as "
                      "`product:2/3` and unpacked as `product:2/2`", loc)
    else:
        ctx.ok(rule, "product_arity:stable", {"flattens_syntactic_tails": flattens, "counts_other_tails_as_one": default_one})


def run(ctx):
    rule_tags(ctx)
    rule_captures(ctx)
    ctx.rule("variable-equations", "free-variable and bound-variable equations of both IRs, arm by arm (rules/golden_freevars.json)")
    golden.check(ctx, "variable-equations", "golden_freevars.json")
    ctx.rule("lowering", "every arm of the two lowering passes performs the audited construction (rules/golden_lowering.json). Stack-passing "
                         "form: an abstraction pops its argument from the stack it runs on, an application pushes the lowered argument, `do` "
                         "pushes a continuation frame whose body runs on the CURRENT stack, a coproduct match names the current stack once "
                         "(`let • = stack`) around the match and an irrefutable match lowers its arm against the current stack, destructor "
                         "/ constructor tags are positions in the declaration, value plans are sequenced before their use. Closure "
                         "conversion: a sub-term is translated in the environment of the place where it RUNS (the stack and the captured "
                         "values of a closure / continuation / fix entry in the surrounding environment, the body in the environment "
                         "extended with the captures, then the binder), a block pops what the jump pushes in the same order (returned "
                         "value, then environment), tuple values keep their typed layout")
    golden.check(ctx, "lowering", "golden_lowering.json")
    rule_layout_stability(ctx)
    rule_first_arm(ctx)
    from . import c01
    c01.rule_erasure_arity(ctx)
    ctx.assume("continuation packaging, builtin package wiring and the assembly lowering's register/stack discipline are NOT analysed")
    return {}


def rule_first_arm(ctx):
    rule = "first-arm"
    facts = ctx.facts
    ctx.rule(rule, "a match may have several arms for one constructor and the interpreter takes the FIRST (Assign tries the arms in "
                   "source order). Every selector of an arm by tag in the compiled pipeline agrees: the assembly interpreter uses "
                   "`find` (first hit), and the AMD64 emitter, which de-duplicates the arms of a jump table through a map keyed by the "
                   "constructor index, inserts them in REVERSE order so that the first arm survives. Inserting in source order keeps "
                   "the last arm: the compiled program runs another arm than `zydeco run`")
    emit = next((p for p in facts.bodies() if re.search(r"^<zydeco_assembly::syntax::Terminator as zydeco_amd64::emit::Emit<'a>>::emit$", p)), None)
    if emit is None:
        ctx.anchor_lost(rule, "<Terminator as Emit>::emit not found")
        return
    h = ctx.need_hir(rule, emit)
    arm = None
    for m in H.walk(h["body"]):
        if H.kind(m) == "Match" and not m.get("src"):
            for a in m["arms"]:
                if A.pat_shape(a["pat"]).startswith("PopBranch"):
                    arm = a
    if arm is None:
        ctx.anchor_lost(rule, "no PopBranch arm in <Terminator as Emit>::emit")
        return
    env = A.ArmEnv(); env.strip = True; env.bind_params(h); env.bind_pat(A.strip_or(arm["pat"])); env.absorb(arm["body"])
    maps = [c for c in H.walk(arm["body"]) if H.kind(c) in ("Call", "MethodCall") and (H.callee(c) or "").endswith("Iterator::collect")
            and re.search(r"BTreeMap|HashMap|IndexMap", c.get("ty") or "")]
    ctx.floor(rule, "map collections of jump-table arms", len(maps), 1)
    for c in maps:
        sx = A.sexpr(c, env)
        ok = "Iterator::rev" in sx.split("Iterator::map")[-1] or re.search(r"Iterator::rev \(.*PopBranch\.0", sx) is not None
        ctx.check(ok, rule, "amd64:jump-table:first-arm-wins", "the AMD64 emitter collects the arms of a jump table into a map in source "
                  "order (%s): a later arm for the same constructor replaces the first, which is the one the interpreter takes"
                  % sx[:160], [facts.bodies()[emit]["loc"][0], c.get("ln")], detail={"order": "reversed before the map is built"})
    interp = next((p for p in facts.bodies() if re.search(r"^<zydeco_assembly::syntax::Terminator as zydeco_assembly::interp::Eval>::eval$", p)), None)
    if interp is not None:
        hi = facts.hir(interp)
        names = [x["name"] for x in H.walk(hi["body"]) if H.kind(x) == "MethodCall" and x["name"] in ("find", "rfind", "rposition", "position", "last", "max_by_key", "min_by_key")]
        ctx.check("find" in names and not {"rfind", "rposition", "last"} & set(names), rule, "assembly-interp:first-arm",
                  "the assembly interpreter selects the arm of a tag with %s" % names, facts.bodies()[interp]["loc"])
