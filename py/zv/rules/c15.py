"""C15 — incremental answers equal from-scratch answers (effect discipline of tracked queries + input registry)."""
import re

from .. import callgraph
from .. import hirlib as H
from .. import mirlib as M
from .. import tys

EXPLANATION = (
    "Memoisation is salsa's theorem provided every tracked function is a function of its tracked inputs. Decided here: "
    "(1) call-graph reachability (trait/dyn fan-out) from every #[salsa::tracked] body to file-system, environment, "
    "clock, random, lock, DashMap and atomic reads, cut only at three audited functions whose bodies are themselves "
    "checked; (2) the path->input registry of the #[salsa::db] struct is shared (Arc) between a session and its "
    "snapshots, no unclassified mutable session state exists; (3) each mutator writes the input field it is named "
    "after, guarded only by a comparison on that same field; (4) optional-companion probing decides presence from the "
    "tracked accessors."
)

FORBIDDEN = re.compile(
    r"^(std::fs::|std::path::Path::(exists|is_file|is_dir|metadata|canonicalize|read_dir|read_link|symlink_metadata|try_exists)"
    r"|std::path::absolute|std::env::|std::time::|rand::|std::process::id|std::io::stdio::"
    r"|std::sync::poison::mutex::Mutex::<T>::(lock|try_lock|get_mut|into_inner)|std::sync::poison::rwlock::RwLock::<T>::"
    r"|std::sync::(mpsc|once_lock|lazy_lock)::|dashmap::|core::sync::atomic::|std::thread::|core::cell::(Ref)?Cell::)")

SOURCE_INPUT = "<zydeco_session::source::query::CompilerSession as zydeco_session::source::query::SourceQueryDb>::source_input"
IDENTITY = "zydeco_session::source::graph::SourcePath::identity"
KEYSPACE_FRESH = "zydeco_utils::arena::KeySpaceId::fresh"
CUTS = {
    SOURCE_INPUT: "reads the disk only while creating the salsa input of a path seen for the first time (Vacant entry); "
                  "every consumer then reads the text through the tracked accessors, and refresh_disk updates it",
    IDENTITY: "path identity only (canonicalize / absolute): file contents are never read",
    KEYSPACE_FRESH: "process-wide id-space counter: affects arena identities only, which answers are compared modulo",
}
SESSION = "zydeco_session::source::query::CompilerSession"


def run(ctx):
    facts = ctx.facts
    g = callgraph.CallGraph(facts)
    # ---- (1) tracked functions read nothing untracked --------------------------------------------------
    rule = "tracked-pure"
    ctx.rule(rule, "from every #[salsa::tracked] function body no path of the call graph reaches a file-system / "
                   "environment / clock / random / lock / DashMap / atomic access except through the audited cut functions")
    roots = sorted(p for p in facts.bodies()
                   if "as salsa::function::Configuration>::execute::inner_" in p and "{closure" not in p)
    ctx.floor(rule, "tracked function bodies", len(roots), 40)
    hits = g.reach(roots, lambda to, c: (FORBIDDEN.match(to) or [None])[0], cuts=CUTS.keys())
    bad_roots = {}
    for root, path, c, lab in hits:
        name = re.search(r"_::(\w+)_Configuration_", root)
        rname = name.group(1) if name else root
        key = "%s:%s" % (rname, c["to"].split("<")[0].rstrip(":"))
        bad_roots.setdefault(rname, set()).add(key)
        ctx.violation(rule, key,
                      "tracked function `%s` reads untracked state: %s -> %s"
                      % (rname, " -> ".join(_short(p) for p in path[-4:]), c["to"]), c["loc"])
    for root in roots:
        name = re.search(r"_::(\w+)_Configuration_", root)
        rname = name.group(1) if name else root
        ctx.fn(root)
        if rname not in bad_roots:
            ctx.ok(rule, rname, {"tracked_fn": rname, "reachable_forbidden_effects": 0})
    reach = g.reachable_set(roots, cuts=CUTS.keys())
    ctx.note("%s: %d tracked roots, %d functions reachable, cuts: %s" % (rule, len(roots), len(reach), sorted(CUTS)))
    # cut functions must exist, be reached, and be what the table says they are
    for cfn, why in CUTS.items():
        if cfn not in facts.bodies():
            ctx.anchor_lost(rule, "cut function %s not found" % cfn)
    # SourcePath::identity: path identity only
    rule2 = "cut-body"
    ctx.rule(rule2, "the cut functions do what their exemption says: identity() never reads contents; source_input() "
                    "reads the disk only on the Vacant edge of the registry entry")
    if IDENTITY in facts.bodies():
        sub = g.reachable_set([IDENTITY])
        for fn in sub:
            for c in g.out.get(fn, []):
                to = c["to"]
                if to.startswith("std::fs::") or re.match(r"std::path::Path::(read_dir|metadata|symlink_metadata|read_link)", to):
                    ctx.violation(rule2, "identity:%s" % to, "SourcePath::identity reads the file system beyond path "
                                  "identity (%s)" % to, c["loc"])
        ctx.ok(rule2, "identity", {"fn": IDENTITY, "fs_calls": sorted(set(
            c["to"] for fn in sub for c in g.out.get(fn, []) if c["to"].startswith("std::path::")))})
        # the exemption covers the SPELLING of a path (absolute, `.` / `..`); resolving names through the file system (symbolic
        # links) reads state that no input tracks: the memo of a tracked query that reached identity() keeps the old target (F72)
        resolves = sorted(set(c["to"] for fn in sub for c in g.out.get(fn, [])
                              if re.match(r"std::path::Path::(canonicalize|read_link)$|std::fs::(canonicalize|read_link)$", c["to"])))
        ctx.check(not (resolves and IDENTITY in reach), rule2, "identity:name-resolution-untracked",
                  "SourcePath::identity resolves names through the file system (%s) and is reached from tracked queries: where a "
                  "symbolic link on an import path points is not a tracked input, so a retargeted link is never reflected" % resolves,
                  facts.bodies()[IDENTITY]["loc"], detail={"resolves_through": resolves})
    if SOURCE_INPUT in facts.bodies():
        b = ctx.need_mir(rule2, SOURCE_INPUT)
        reads = [(bb, t) for bb, t in b.calls() if t["fn"].startswith("std::fs::")]
        if not reads:
            ctx.note("source_input no longer reads the disk itself")
        for bb, t in reads:
            ok = M.dominated_by_variant(b, bb, "Entry", "Vacant")
            ctx.check(ok, rule2, "source_input:%s" % t["fn"],
                      "source_input reads the disk (%s) outside the Vacant-entry path: an existing input would be "
                      "bypassed by an untracked read" % t["fn"], [facts.bodies()[SOURCE_INPUT]["loc"][0], t.get("ln")],
                      detail={"fn": SOURCE_INPUT, "read": t["fn"], "dominated_by": "Entry::Vacant"})
        # keys of the registry are path identities
        ident_calls = [bb for bb, t in b.calls() if t["fn"].endswith("CompilerSession::path_identity") or t["fn"] == IDENTITY]
        entry_calls = [bb for bb, t in b.calls() if t["fn"].startswith("dashmap::DashMap") and t["fn"].endswith("::entry")]
        ok = bool(ident_calls) and bool(entry_calls) and all(any(b.dominates(i, e) for i in ident_calls) for e in entry_calls)
        ctx.check(ok, rule2, "source_input:key", "the registry is not keyed by SourcePath::identity on every path",
                  facts.bodies()[SOURCE_INPUT]["loc"], detail={"key": "path_identity(path) dominates files.entry(..)"})
    # ---- (2) registry sharing / session state inventory -------------------------------------------------
    rule3 = "session-state"
    ctx.rule(rule3, "every interior-mutable field of the #[salsa::db] #[derive(Clone)] session is shared (Arc / salsa "
                    "Storage) between a session and its snapshots; no other mutable state or side cache exists")
    adt = facts.adts().get(SESSION)
    if adt is None:
        ctx.anchor_lost(rule3, "CompilerSession not found")
    else:
        is_clone = any(i["trait"] == "core::clone::Clone" and i["self"] == SESSION for i in facts.impls())
        ctx.note("CompilerSession: derive(Clone)=%s fields=%s" % (is_clone, [(f["name"], f["ty"][:60]) for f in adt["variants"][0]["fields"]]))
        for f in adt["variants"][0]["fields"]:
            t = f["ty"]
            head = tys.head(t)
            inst = "CompilerSession.%s" % f["name"]
            if head == "salsa::storage::Storage":
                ctx.ok(rule3, inst, {"field": f["name"], "sharing": "salsa Storage (shared by design)"})
                continue
            mutable = re.search(r"(dashmap::|Mutex|RwLock|RefCell|core::cell::Cell|atomic::Atomic|OnceLock|OnceCell)", t)
            collection = re.search(r"(HashMap|HashSet|BTreeMap|Vec<|VecDeque|im::)", t)
            if mutable:
                shared = head in ("alloc::sync::Arc",)
                ctx.check(shared or not is_clone, rule3, inst,
                          "field `%s: %s` is mutated through &self but deep-cloned by derive(Clone): a snapshot gets a "
                          "private copy while the salsa storage is shared, so inputs registered inside a snapshot are "
                          "invisible to the owner (two inputs for one path => stale answers)" % (f["name"], t),
                          adt["loc"], detail={"field": f["name"], "type": t, "sharing": "Arc"})
            elif collection:
                ctx.violation(rule3, inst, "unclassified session state `%s: %s` (a side cache outside salsa is not "
                                           "invalidated by input changes)" % (f["name"], t), adt["loc"])
            else:
                ctx.ok(rule3, inst, {"field": f["name"], "type": t, "sharing": "plain value"})
    # ---- (3) mutators ---------------------------------------------------------------------------------------
    rule4 = "mutators"
    ctx.rule(rule4, "set_overlay writes `overlay`; refresh_disk writes `disk_text`; clear_overlay writes both; each "
                    "setter is guarded only by a test on the current value of the same field")
    want = {
        "zydeco_session::source::query::CompilerSession::set_overlay": ["overlay"],
        "zydeco_session::source::query::CompilerSession::refresh_disk": ["disk_text"],
        "zydeco_session::source::query::CompilerSession::clear_overlay": ["disk_text", "overlay"],
    }
    for fn, fields in want.items():
        h = ctx.need_hir(rule4, fn)
        setters = {}
        for n, c in H.calls(h["body"]):
            m = re.search(r"SourceInput>::set_(\w+)$", c)
            if m:
                setters.setdefault(m.group(1), []).append(n)
        for fld in fields:
            inst = "%s:%s" % (fn.rsplit("::", 1)[-1], fld)
            if fld not in setters:
                ctx.violation(rule4, inst, "%s never writes input field `%s`" % (fn, fld), facts.bodies()[fn]["loc"])
                continue
            ok, why = _guard_ok(h["body"], setters[fld][0], fld)
            ctx.check(ok, rule4, inst, "%s: the write of `%s` is guarded by %s" % (fn, fld, why),
                      facts.bodies()[fn]["loc"], detail={"fn": fn, "field": fld, "guard": why})
        for fld in setters:
            if fld not in fields:
                ctx.violation(rule4, "%s:%s" % (fn.rsplit("::", 1)[-1], fld),
                              "%s unexpectedly writes input field `%s`" % (fn, fld), facts.bodies()[fn]["loc"])
    # ---- (4) optional companion through the inputs ------------------------------------------------------------
    rule5 = "optional-companion"
    ctx.rule(rule5, "QuerySourceProvider::load_optional decides presence from overlay(..).or_else(disk_text(..)) and "
                    "from nothing else")
    lo = "<zydeco_session::source::query::QuerySourceProvider<'_> as zydeco_session::source::loader::SourceProvider>::load_optional"
    h = ctx.need_hir(rule5, lo)
    cs = [c for n, c in H.calls(h["body"])]
    reads_overlay = any(c.endswith("SourceInput>::overlay") for c in cs)
    reads_disk = any(c.endswith("SourceInput>::disk_text") for c in cs)
    others = [c for c in cs if FORBIDDEN.match(c)]
    ctx.check(reads_overlay and reads_disk and not others, rule5, "load_optional",
              "load_optional does not decide presence from both tracked accessors only (overlay=%s, disk_text=%s, "
              "other=%s)" % (reads_overlay, reads_disk, others), facts.bodies()[lo]["loc"],
              detail={"reads": ["SourceInput::overlay", "SourceInput::disk_text"], "untracked": others})
    # the None exit must be on the is_none() edge of that expression
    ret_none = False
    for n in H.walk(h["body"]):
        if H.kind(n) == "If":
            c = H.peel(n["c"])
            if H.kind(c) == "MethodCall" and c["name"] == "is_none":
                inner = [cc for _, cc in H.calls(c["recv"])]
                if any(x.endswith("SourceInput>::overlay") for x in inner) and any(x.endswith("SourceInput>::disk_text") for x in inner):
                    ret_none = True
    ctx.check(ret_none, rule5, "load_optional:guard", "the `no companion` answer is not guarded by "
              "overlay.or_else(disk_text).is_none()", facts.bodies()[lo]["loc"], detail={"guard": "overlay.or_else(disk_text).is_none()"})
    rule_path_spelling(ctx)
    ctx.assume("salsa's own memoisation and revision logic are correct; lru=1 re-materialisation is deterministic (C16)")
    ctx.assume("callers announce disk changes through refresh_disk (contract of the session API)")
    from . import c17
    c17.rule_registry_atomic(ctx)
    c17.rule_snapshot_shares(ctx)
    from . import c11
    c11.check_source_readers(ctx)
    return {}


def rule_path_spelling(ctx):
    """F12: the path stored in an input is later read back from disk, so the identity must be a spelling that opens the file."""
    rule = "path-spelling"
    facts = ctx.facts
    ctx.rule(rule, "MIR may-analysis over every non-test body: no Path::join / PathBuf::push appends a path that may still be the "
                   "empty PathBuf::new() / String::new() (`p.join(\"\")` is `p/`: equal as a registry key, but opening it fails with "
                   "NotADirectory once the file exists, so a file first seen while absent can never be refreshed)")
    n = 0
    for p, bd in sorted(facts.bodies().items()):
        if bd["tag"].endswith("-test"):
            continue
        m = facts.mir(p)
        if m is None:
            continue
        b = M.Body(p, m)
        sites = [t for _, t in b.calls() if t["fn"] in M.PATH_APPEND]
        if not sites:
            continue
        n += len(sites)
        hits = M.may_empty_appends(b)
        fn = p.split("::{closure")[0]
        for bb, t in hits:
            ctx.violation(rule, "%s:%s" % (fn.split("::")[-2] + "::" + fn.split("::")[-1], t["fn"].split("::")[-1]),
                          "%s appends a possibly empty path with %s: the result ends in a separator" % (p, t["fn"]),
                          [bd["loc"][0], t.get("ln")])
        if not hits and "SourcePath::identity" in p:
            ctx.ok(rule, "identity", {"fn": fn, "appends": len(sites), "may_append_empty": 0})
    ctx.ok(rule, "inventory", {"path_appends_checked": n})
    ctx.floor(rule, "Path::join / PathBuf::push sites", n, 20)


def _short(p):
    m = re.search(r"_::(\w+)_Configuration_", p)
    if m:
        return m.group(1)
    return p.split("<")[0][-50:] if len(p) > 60 else p


def _calls_through_lets(body, expr, depth=4):
    """callees in `expr` and in the initialisers of the plain `let x = ..` locals it mentions (transitively): a lookup that
    was given a name first is the same lookup"""
    lets = {}
    for n in H.walk(body):
        if H.kind(n) == "Let" and n.get("init") is not None and H.kind(n.get("pat") or {}) == "Bind" and "local" in n["pat"]:
            lets[n["pat"]["local"]] = n["init"]
    out, seen, todo = [], set(), [(expr, 0)]
    while todo:
        e, d = todo.pop()
        out += [c for _, c in H.calls(e)]
        for x in H.walk(e):
            loc = (x.get("res") or {}).get("local") if H.kind(x) == "Path" else None
            if loc is not None and loc in lets and loc not in seen and d < depth:
                seen.add(loc)
                todo.append((lets[loc], d + 1))
    return out


def _guard_ok(body, setter_call, fld):
    """Every conditional around the setter must be the same-field guard (a test reading only that field's accessor) or the
    registry lookup `if let Some(input) = self.files.get(..)`; and the function has no early `return` besides `?`."""
    parents = {}
    stack = [(body, None)]
    while stack:
        n, p = stack.pop()
        if not isinstance(n, dict):
            continue
        parents[id(n)] = p
        for c in H.children(n):
            stack.append((c, n))
    for n in H.walk(body):
        if H.kind(n) == "Ret":
            e = H.peel(n["e"]) if n.get("e") is not None else None
            if e is not None and ((H.callee(e) or "").endswith("from_residual") or (H.callee(e) or "").endswith("Result::Err")):
                continue    # error exits: the caller is told the operation failed
            return False, "an early `return` at line %s (the write is skipped on that path)" % n.get("ln")
    p = parents.get(id(setter_call))
    cur = setter_call
    guards = []
    while p is not None:
        k = H.kind(p)
        if k == "If" and ((p.get("t") is not None and _inside(p["t"], cur)) or (p.get("e") is not None and _inside(p["e"], cur))):
            cond = H.peel(p["c"])
            if H.kind(cond) == "LetExpr":
                init = _calls_through_lets(body, cond["init"])
                if any(c.startswith("dashmap::DashMap") and c.endswith("::get") for c in init) and _inside(p["t"], cur):
                    cur, p = p, parents.get(id(p))
                    continue
                return False, "an `if let` on %s" % ([c.split("::")[-1] for c in init] or "a value")
            accs = set()
            for n, c in H.calls(cond):
                m = re.search(r"SourceInput>::(\w+)$", c)
                if m and not m.group(1).startswith("set_"):
                    accs.add(m.group(1))
            if accs == {fld} and _inside(p["t"], cur):
                guards.append(fld)
            else:
                return False, "a condition reading %s instead of `%s` only" % (sorted(accs) or "no input field", fld)
        elif k == "Match" and not H.is_try(p) and not p.get("src"):
            return False, "a match at line %s" % p.get("ln")
        elif k == "Closure":
            return False, "a closure (the write may not run)"
        elif k in ("Loop", "While"):
            return False, "a loop"
        cur = p
        p = parents.get(id(p))
    if len(guards) > 1:
        return False, "more than one guard"
    return True, ("a test on `%s` only" % fld) if guards else "nothing (unconditional write)"


def _inside(tree, node):
    for n in H.walk(tree):
        if n is node:
            return True
    return False
