"""C18 — every accepted executable lowers to native code text with valid IR (validator gates, panic inventory of the lowering passes)."""
import re

from .. import armlib as A
from .. import hirlib as H
from .. import mirlib as M
from .. import tys
from . import c01

EXPLANATION = (
    "That every accepted program lowers without an internal error quantifies over programs and is NOT decided. Decided: "
    "(1) validator gates: BranchJoinProgram and SpsLowProgram are constructed only by their try_new, on the Ok edge of "
    "their validator (and of the closed-root test); SpsLowPipeline::run checks the closed root before converting; the CLI "
    "route BackendProgram::lower goes builtin-root lowering -> SpsLowPipeline -> LoweringPipeline and propagates the "
    "fallible step; LoweringPipeline::run analyses the stack twice and publishes the layouts of the second analysis; "
    "(2) the complete inventory of places where a lowering pass can only panic (match arms, let-else, asserts, unwrap / "
    "expect) in lang/stackir and lang/assembly outside printers and interpreters: each is an audited invariant with a "
    "re-checked side condition, a validator (panic = violated IR invariant by design), or a listed known finding with a "
    "failing accepted program; a new site is a violation until audited; (3) the two classifications that decide between "
    "the refutable and irrefutable lowering of a match: is_coprod_pattern (explicit arm table, packages and names looked "
    "through) / is_coprod_match, and the jump-table test, which must be universal over the arms."
)

BACK_FILES = ("lang/stackir/src", "lang/assembly/src")
SKIP_FILES = ("fmt.rs", "interp.rs", "gc.rs")
LOWER = "zydeco_stackir::sps::lower::"

# (function suffix, kind, detail regex) -> (class, reason)
TABLE = [
    (r"sps::lower::Lowerer::<'a>::finish$", "expect", r"BranchJoinProgram::try_new", "validator", "stack-indexed lowering must produce branch-join SPS: the validator's verdict is the invariant"),
    (r"sps_low::convert::SpsLowConverter::<'a>::convert$", "expect", r"SpsLowProgram::try_new", "validator", "closure conversion must produce closed first-order SPSLow"),
    (r"sps::check::check_closed_root$", "assert", r"is_empty", "validator", "closed-root check"),
    (r"assembly::syntax::ProductLayout::new(_with_fields)?$", "assert", r".*", "validator", "positive arity not smaller than the element count (the layout invariant of the property)"),
    (r"stackir::syntax::ProductLayout::(new|conservative)$", "assert", r".*", "validator", "positive arity not smaller than the element count"),
    (r"stackir::syntax::VCons::new$|stackir::syntax::.*::new$", "assert", r".*", "validator", "layout arity covers the fields"),
    (r"sps::lower::.*lower$", "expect", r"Iterator::position \(\[\] \(\. \(\. \$P1 statics\) (datas|codatas)\)", "invariant",
     "constructor / destructor names were resolved against this declaration by the checker (UnknownDataConstructor / UnknownCoDataDestructor otherwise)"),
    (r"sps::lower::.*(lower|projection_binding)$|sps_low::convert::.*translate_pattern$", "expect", r"ConsN<T, T>>::from_vec", "invariant",
     "a product value / pattern has at least one component (ConsN is non-empty by construction of the typed syntax)"),
    (r"sps::lower::.*lower$", "unwrap", r"ConsN<T, T>>::from_vec", "invariant", "same: non-empty product"),
    (r"sps::lower::Lowerer::<'a>::projection_binding$", "assert", r"\(Lt \$P2 \(\. \$P3 arity\)\)", "invariant", "projection index below the layout arity: computed from the same layout"),
    (r"sps::lower::.*lower$", "let-else", r"\[_,_\]", "invariant", "ValuePlan::sequence of two plans yields two values"),
    (r"sps::lower::.*lower$", "let-else", r"\[Matcher", "invariant", "is_coprod_match is false only for a one-arm slice (re-checked below)"),
    (r"sps::lower::Lowerer::<'a>::product_arity$", "arm", r"_", "invariant", "VCons is typed at Unit or a product (checker); normalized_at is total on accepted programs"),
    (r"assembly::analyze::.*stack_inline$", "unwrap", r"Vector::<A>::last", "invariant", "control stack of a laid-out program is non-empty"),
    (r"sps_low::syntax::CompuId as zydeco_assembly::lower::Lower<'a>>::lower$", "arm", r"^_$", "invariant",
     "inside the jump-table route, which is taken only when every arm binder is a constructor pattern (re-checked: match-classification)"),
    (r"assembly::lower::.*lower$", "expect", r"for_builtin", "invariant", "every builtin of the package plan has an extern mode (BuiltinPackagePlan validates roles: C01/C06)"),
]
KNOWN = {
    "K1": (r"assembly::lower::.*lower$", "arm", r"Ctor\(Ctor"),
    "K2": (r"assembly::lower::.*lower$", "assert", r"\(Eq \(alloc::vec::Vec::<T, A>::len"),
    "K2b": (r"assembly::lower::.*lower$", "arm", r"^_$"),
    "K3": (r"sps::lower::.*lower$", "arm", r"^_$"),
}


def _sites(facts):
    out = []
    for p, b in sorted(facts.bodies().items()):
        fl = b["loc"][0]
        if not fl.startswith(BACK_FILES) or fl.endswith(SKIP_FILES) or b.get("expn") or b["tag"].endswith("-test"):
            continue
        h = facts.hir(p)
        if not h:
            continue
        env = A.ArmEnv()
        env.strip = True
        env.bind_params(h)
        owner = p.split("::{closure")[0]
        for m in H.walk(h["body"]):
            k = H.kind(m)
            if k == "Match" and not m.get("src"):
                for a in m["arms"]:
                    if H.exits_by_panic_only(a["body"]):
                        out.append((owner, "arm", A.pat_shape(a["pat"]), fl, a["ln"], tys.strip_refs(m.get("scrut_ty", ""))))
            elif k == "Let" and m.get("els") is not None and H.exits_by_panic_only(m["els"]):
                out.append((owner, "let-else", A.pat_shape(m["pat"]), fl, m["ln"], ""))
            elif k == "If" and H.exits_by_panic_only(m["t"]):
                out.append((owner, "assert", A.sexpr(m["c"], env), fl, m.get("ln"), ""))
            elif k in ("MethodCall", "Call"):
                c = H.callee(m) or ""
                mm = re.search(r"(core::option::Option|core::result::Result)::<.*>::(expect|unwrap)$", c)
                if mm:
                    out.append((owner, mm.group(2), A.sexpr(H.call_args(m)[0], env), fl, m.get("ln"), ""))
    return out


def rule_totality(ctx):
    rule = "lowering-totality"
    facts = ctx.facts
    ctx.rule(rule, "every place in the lowering passes (lang/stackir, lang/assembly; printers, interpreter and gc excluded) that can only "
                   "panic - a match arm, a let-else, an assert, an unwrap/expect - is an audited invariant, a validator, or a listed known "
                   "finding")
    sites = _sites(facts)
    ctx.floor(rule, "panic-only sites in the lowering passes", len(sites), 25)
    seen = {}
    for owner, kind, detail, fl, ln, sty in sites:
        hit = None
        for fx, kx, dx, klass, why in TABLE:
            if re.search(fx, owner) and kx == kind and re.search(dx, detail):
                hit = (klass, why)
                break
        short = _short(owner)
        base = "%s:%s:%s" % (short, kind, re.sub(r"\s+", " ", detail)[:60])
        seen[base] = seen.get(base, 0) + 1
        inst = base if seen[base] == 1 else "%s#%d" % (base, seen[base])
        if hit:
            ctx.ok(rule, inst, {"fn": short, "kind": kind, "class": hit[0], "audited": hit[1]})
        else:
            ctx.violation(rule, inst, "%s can only panic here (%s %s) and the site is not audited: an accepted program reaching it crashes "
                          "`zydeco build`" % (owner, kind, detail[:100]), [fl, ln])
    # side condition: is_coprod_match is false only for exactly one arm
    fn = LOWER + "Lowerer::<'a>::is_coprod_match"
    h = ctx.need_hir(rule, fn)
    m = A.find_match_on(h["body"], lambda n: True)
    arms = [(A.pat_shape(a["pat"]), A.sexpr(a["body"], _env(h, a))) for a in m["arms"]]
    ok = len(arms) == 2 and arms[0][0].startswith("[Matcher") and "is_coprod_pattern" in arms[0][1] and arms[1] == ("_", "True")
    ctx.check(ok, rule, "is_coprod_match", "is_coprod_match is %s; expected [one arm] => is_coprod_pattern(binder), _ => true (so that the "
              "irrefutable lowering sees exactly one arm)" % arms, facts.bodies()[fn]["loc"], detail={"arms": [a[0] for a in arms]})


def _short(owner):
    m = re.match(r"^<(.+) as (.+)>::(\w+)$", owner)
    if m:
        a, b2 = m.group(1), re.sub(r"<.*$", "", m.group(2))
        return "<%s as %s>::%s" % ("::".join(a.replace("zydeco_", "").split("::")[-3:]).replace("::syntax", ""),
                                   "::".join(b2.replace("zydeco_", "").split("::")[-3:]), m.group(3))
    return re.sub(r"::<[^>]*>", "", "::".join(owner.replace("zydeco_", "").split("::")[-2:]))


def _env(h, a):
    e = A.ArmEnv()
    e.strip = True
    e.bind_params(h)
    e.bind_pat(A.strip_or(a["pat"]))
    return e


def rule_classification(ctx):
    rule = "match-classification"
    facts = ctx.facts
    ctx.rule(rule, "is_coprod_pattern has an explicit arm per typed pattern former: Ctor => true; Named / SCons => the payload pattern; "
                   "Alias => any member; Hole / Var / Triv / VCons => false. The assembly lowering takes the jump-table route only when "
                   "EVERY arm binder is a constructor pattern (fold(true, ..) with `_ => false`, or all(..))")
    fn = LOWER + "Lowerer::<'a>::is_coprod_pattern"
    h = ctx.need_hir(rule, fn)
    m = A.find_match_on(h["body"], lambda n: True)
    got = {}
    for a in m["arms"]:
        p = A.strip_or(a["pat"])
        pats = p["pats"] if H.kind(p) == "Or" else [p]
        val = A.sexpr(a["body"], _env(h, a))
        for q in pats:
            got.setdefault((H.top_variant(A.strip_or(q)) or "_").split("::")[-1], val)
    R = "zydeco_stackir::sps::lower::Lowerer::<'a>::is_coprod_pattern $P0 "
    want = {"Ctor": "True", "Hole": "False", "Var": "False", "Triv": "False", "VCons": "False",
            "Named": "(%s$Named.0/Named.1)" % R, "SCons": "(%s$SCons.0/ConsN.1)" % R}
    variants = [v["name"] for v in facts.adts()["zydeco_statics::syntax::ValuePattern"]["variants"]]
    ok = sorted(got) == sorted(variants) and all(got.get(k) == v for k, v in want.items()) \
        and re.match(r"^\(.*Iterator>?::any \$Alias\.0/Alias\.0 \(closure \(%s\$c0\.0\)\)\)$" % re.escape(R), got.get("Alias", "")) is not None
    ctx.check(ok, rule, "is_coprod_pattern", "is_coprod_pattern is %s" % {k: v[-60:] for k, v in got.items()}, facts.bodies()[fn]["loc"],
              detail={"table": {k: v[-40:] for k, v in got.items()}})
    # jump table
    fn = next((p for p in facts.bodies() if re.search(r"sps_low::syntax::CompuId as zydeco_assembly::lower::Lower<'a>>::lower$", p)), None)
    if fn is None:
        ctx.anchor_lost(rule, "assembly lowering of computations not found")
        return
    h = ctx.need_hir(rule, fn)
    target = None
    for n in H.walk(h["body"]):
        if H.kind(n) == "Let" and H.kind(n["pat"]) == "Bind" and n.get("init") is not None and H.kind(H.peel(n["init"])) == "MethodCall":
            init = H.peel(n["init"])
            if init["name"] in ("fold", "all", "any", "find", "position") and "bool" == (n["pat"].get("ty") or "") \
                    and any("ValuePattern::Ctor" in v for x in H.walk(init) if H.kind(x) in ("Match", "LetExpr") for v in
                            (H.pat_variants(x["pat"]) if H.kind(x) == "LetExpr" else [v for a in x["arms"] for v in H.pat_variants(a["pat"])])):
                target = (n, init)
    if target is None:
        ctx.anchor_lost(rule, "jump-table test not found")
        return
    n, init = target
    universal = False
    if init["name"] == "all":
        universal = True
    elif init["name"] == "fold":
        seed = H.peel(init["args"][0])
        clo = H.peel(init["args"][1])
        mm = next((x for x in H.walk(clo["body"]) if H.kind(x) == "Match" and not x.get("src")), None)
        if H.kind(seed) == "Lit" and seed["lit"].get("bool") in (True, "true") and mm is not None:
            acc_local = A.pat_paths(clo["params"][0])
            arms = {}
            for a in mm["arms"]:
                v = (H.top_variant(A.strip_or(a["pat"])) or "_").split("::")[-1]
                b = H.peel(a["body"])
                arms[v] = "acc" if H.path_local(b) and H.path_local(b)[0] in acc_local else (b.get("lit", {}).get("bool") if H.kind(b) == "Lit" else "?")
            universal = arms.get("Ctor") == "acc" and arms.get("_") in (False, "false")
    ctx.check(universal, rule, "jump-table:universal", "the jump-table route is chosen by `%s`, which is not a universal test over the arm "
              "binders: the route panics on any other binder (and an empty match takes the wrong route)" % init["name"],
              [facts.bodies()[fn]["loc"][0], n.get("ln")], detail={"test": init["name"]})


def rule_gates(ctx):
    rule = "validator-gates"
    facts = ctx.facts
    ctx.rule(rule, "BranchJoinProgram / SpsLowProgram are built only in their try_new on the Ok edge of the validator (and after the open-"
                   "root test); SpsLowPipeline::run calls sps::check::check before convert; BackendProgram::lower chains the three "
                   "pipelines; LoweringPipeline::run runs StackAnalyzer twice and stores the second analysis")
    for adt, fn, validator in (("zydeco_stackir::sps::check::BranchJoinProgram", "zydeco_stackir::sps::check::BranchJoinProgram::try_new", "BranchJoinValidator::validate"),
                               ("zydeco_stackir::sps_low::check::SpsLowProgram", "zydeco_stackir::sps_low::check::SpsLowProgram::try_new", "SpsLowValidator::validate")):
        sites = sorted(c01.who_constructs(facts, adt))
        ctx.check(sites == [fn], rule, "%s:constructors" % adt.split("::")[-1], "%s is constructed in %s" % (adt, sites), None, detail={"constructed_in": sites})
        b = ctx.need_mir(rule, fn)
        aggs = [bb for bb, k, s in b.assignments() if s["rv"]["k"] == "agg" and s["rv"].get("adt") == adt]
        calls = [bb for bb, t in b.calls() if re.sub(r"::<'a>", "", t["fn"]).endswith(validator)]
        ok = bool(aggs) and bool(calls)
        for a in aggs:
            ok = ok and any((b.success_blocks(c) or [None])[0] is not None and b.dominates(b.success_blocks(c)[0], a) for c in calls)
        ctx.check(ok, rule, "%s:validated" % adt.split("::")[-1], "%s::try_new builds the program on a path that is not the success edge of %s"
                  % (adt.split("::")[-1], validator), facts.bodies()[fn]["loc"], detail={"dominated_by": "Ok edge of " + validator})
    fn = "zydeco_stackir::sps_low::check::SpsLowProgram::try_new"
    h = ctx.need_hir(rule, fn)
    rets = [A.sexpr(n["e"]) for n in H.walk(h["body"]) if H.kind(n) == "Ret" and n.get("e") is not None]
    ctx.check(any("SpsLowError::OpenRoot" in r for r in rets), rule, "SpsLowProgram:closed-root", "SpsLowProgram::try_new no longer rejects an open root",
              facts.bodies()[fn]["loc"], detail={"rejects": "OpenRoot"})
    fn = "zydeco_stackir::pipeline::SpsLowPipeline::<'a>::run"
    b = ctx.need_mir(rule, fn)
    chk = [bb for bb, t in b.calls() if t["fn"].endswith("sps::check::check")]
    cvt = [bb for bb, t in b.calls() if t["fn"].endswith("SpsLowConverter::<'a>::convert")]
    ctx.check(bool(chk) and bool(cvt) and all(any(b.dominates(c, v) for c in chk) for v in cvt), rule, "SpsLowPipeline:check-first",
              "SpsLowPipeline::run converts without checking the closed root first", facts.bodies()[fn]["loc"], detail={"order": "check, convert"})
    fn = "zydeco_cli::compile::BackendProgram::lower"
    h = ctx.need_hir(rule, fn)
    env = A.ArmEnv(); env.strip = True; env.bind_params(h)
    seq = [c.split("::")[-2].replace("<'a>", "") + "::" + c.split("::")[-1] for _, c in H.calls(h["body"])
           if re.search(r"(BuiltinRootLowerer|SpsLowPipeline|LoweringPipeline).*::run$|CompilerPass>::run$", c)]
    tries = [A.sexpr(H.try_inner(n), env) for n in H.walk(h["body"]) if H.is_try(n)]
    ctx.check(len(seq) == 3 and any("BuiltinRootLowerer" in t and "map_err" in t for t in tries), rule, "BackendProgram::lower:route",
              "BackendProgram::lower runs %s and propagates %s; expected builtin-root lowering (`?`), SpsLowPipeline, LoweringPipeline"
              % (seq, [t[:60] for t in tries]), facts.bodies()[fn]["loc"], detail={"route": seq})
    fn = "zydeco_assembly::pipeline::LoweringPipeline::<'a>::run"
    h = ctx.need_hir(rule, fn)
    runs = [n for n, c in H.calls(h["body"]) if c.endswith("StackAnalyzer::<'a>::run") or c.endswith("StackAnalyzer::run") or (c.endswith("::run") and "StackAnalyzer" in c)]
    asg = [n for n in H.walk(h["body"]) if H.kind(n) == "Assign" and H.kind(H.peel(n["l"])) == "Field" and H.peel(n["l"])["name"] in ("layouts", "slots")]
    ok = len(runs) == 2 and len(asg) == 2 and all(a.get("ln", 0) > runs[1].get("ln", 0) for a in asg)
    ctx.check(ok, rule, "LoweringPipeline:analysed-twice", "LoweringPipeline::run runs the stack analysis %d time(s) and stores %d result field(s) "
              "after the last run; expected 2 and 2 (the first pass inlines, the second measures what is emitted)" % (len(runs), len(asg)),
              facts.bodies()[fn]["loc"], detail={"analyses": len(runs)})


def run(ctx):
    rule_gates(ctx)
    rule_totality(ctx)
    rule_classification(ctx)
    from .. import golden
    ctx.rule("lowering", "every arm of the two lowering passes performs the audited construction (rules/golden_lowering.json, shared with "
                         "C19): the invariants the validators test afterwards (closed root, no implicit block capture, stacks joined only "
                         "at coproduct branches) are consequences of WHERE each sub-term is lowered / translated; a change of that is "
                         "reported before a program exists that makes a validator fail")
    golden.check(ctx, "lowering", "golden_lowering.json")
    ctx.rule("variable-equations", "free-variable and bound-variable equations of both IRs, arm by arm (rules/golden_freevars.json, shared "
                                   "with C19): capture lists of closure conversion come from them, and a variable missing from one makes the "
                                   "SPSLow validator fail (`ImplicitBlockCapture`) on an accepted program")
    golden.check(ctx, "variable-equations", "golden_freevars.json")
    rule_stack_parity(ctx)
    from . import c03
    c03.rule_sealed_intro(ctx)
    ctx.assume("the validators themselves (BranchJoinValidator, SpsLowValidator, StackAnalyzer) are NOT analysed: that they establish the "
               "stated invariants is trusted; emitters are infallible by type (`Err(never) => match never {}`)")
    return {}


def _lin(sx):
    """GF(2) linear form of a word count: frozenset of monomials among {'1', 'elements', 'arity', ..}; None = not understood"""
    sx = sx.strip()
    m = re.match(r"^-?\d+$", sx)
    if m:
        return frozenset(["1"]) if int(sx) % 2 else frozenset()
    m = re.match(r"^\(\. \S+ (\w+)\)$", sx)
    if m:
        return frozenset([m.group(1)])
    m = re.match(r"^\$\S+[./](\w+)$", sx)
    if m:
        return frozenset([m.group(1)])
    if not (sx.startswith("(") and sx.endswith(")")):
        return None
    # split the list
    parts, depth, cur, prev = [], 0, "", ""
    for ch in sx[1:-1]:
        if ch in "(<":
            depth += 1
        elif ch == ")" or (ch == ">" and prev != "-"):
            depth -= 1
        prev = ch
        if ch == " " and depth == 0:
            if cur:
                parts.append(cur)
            cur = ""
        else:
            cur += ch
    if cur:
        parts.append(cur)
    head, args = parts[0], parts[1:]
    if head.startswith("(closure ") and len(args) == 1:     # a local helper closure applied on the spot: beta-reduce
        return _lin(re.sub(r"\$c\d+\.0", lambda _m: args[0], head[len("(closure "):-1]))
    if head in ("Neg", "Deref"):
        return _lin(args[0])
    if head in ("Add", "Sub"):
        a, b = _lin(args[0]), _lin(args[1])
        return None if a is None or b is None else a ^ b
    if re.search(r"::(expect|unwrap|unwrap_or|try_from|from|into)$", head) or head == "?":
        return _lin(args[0])
    return None


def rule_stack_parity(ctx):
    rule = "stack-parity-agreement"
    facts = ctx.facts
    ctx.rule(rule, "AMD64 emitter: the static table that propagates the parity of rsp through the program graph "
                   "(Emitter::instruction_flips_stack) agrees, modulo 2, with the number of words the emission of the same instruction "
                   "moves (the shift_stack_parity calls of <Instruction as Emit>::emit), for the instructions emitted inline "
                   "(PackProduct on the heap path, UnpackProduct, PopArg, PushTag, AllocContext, Clear). A disagreement makes "
                   "`static stack-parity analysis disagrees with emission` fire (an internal error while lowering an accepted program) "
                   "or, without debug assertions, mis-aligns host calls. PushArg and Intrinsic delegate to other emitters: not analysed")
    tab = next((p for p in facts.bodies() if p.endswith("Emitter::<'e>::instruction_flips_stack")), None)
    emit = next((p for p in facts.bodies() if re.search(r"^<zydeco_assembly::syntax::Instruction as zydeco_amd64::emit::Emit<'a>>::emit$", p)), None)
    if tab is None or emit is None:
        ctx.anchor_lost(rule, "instruction_flips_stack / <Instruction as Emit>::emit not found")
        return

    def top_match(h):
        return next((m for m in H.walk(h["body"]) if H.kind(m) == "Match" and not m.get("src")), None)
    ht, he = facts.hir(tab), facts.hir(emit)
    mt, me = top_match(ht), top_match(he)
    counts = None      # the table gives word counts through a helper: `helper(instruction) % 2 != 0`
    if mt is None:
        e0 = A.ArmEnv(); e0.strip = True; e0.bind_params(ht); e0.absorb(ht["body"])
        m0 = re.match(r"^\((Eq|Ne) \(Rem \((\S+) \$P0\) 2\) 0\)$", A.sexpr(ht["body"], e0))
        if m0 and m0.group(2) in facts.bodies():
            counts = m0.group(1)
            tab = m0.group(2)
            ht = facts.hir(tab)
            mt = top_match(ht)
    if mt is None or me is None:
        ctx.anchor_lost(rule, "no match over Instruction in the table / the emitter")
        return
    table = {}
    for a in mt["arms"]:
        p = A.strip_or(a["pat"])
        pats = p["pats"] if H.kind(p) == "Or" else [p]
        for q in pats:
            e = A.ArmEnv(); e.strip = True; e.bind_params(ht); e.bind_pat(q); e.absorb(ht["body"])
            sx = A.sexpr(a["body"], e)
            v = A.pat_shape(q).split("(")[0].split("{")[0]
            if counts is not None:
                l = _lin(sx)
                table[v] = None if l is None else (l if counts == "Ne" else l ^ frozenset(["1"]))
            elif sx == "True":
                table[v] = frozenset(["1"])
            elif sx == "False":
                table[v] = frozenset()
            else:
                m = re.match(r"^\((Eq|Ne) \(Rem (.+) 2\) 0\)$", sx)
                l = _lin(m.group(2)) if m else None
                table[v] = None if l is None else (l ^ frozenset(["1"]) if m.group(1) == "Eq" else l)
            table[v + ":sx"] = sx
    par = {}
    st = [he["body"]]
    while st:
        p = st.pop()
        for c in H.children(p):
            if isinstance(c, dict):
                par[id(c)] = p
                st.append(c)
    n = 0
    for a in me["arms"]:
        v = A.pat_shape(a["pat"]).split("(")[0].split("{")[0]
        e = A.ArmEnv(); e.strip = True; e.bind_params(he); e.bind_pat(A.strip_or(a["pat"])); e.absorb(a["body"])
        delegates = [c for c in H.walk(a["body"]) if H.kind(c) in ("Call", "MethodCall") and re.search(r" as zydeco_amd64::emit::Emit<'a>>::emit$", H.callee(c) or "")]
        if delegates:
            ctx.note("%s: %s is emitted by %s: not analysed" % (rule, v, (H.callee(delegates[0]) or "").split(" as ")[0]))
            continue
        total = frozenset()
        bad = None
        for c in H.walk(a["body"]):
            if not (H.kind(c) in ("Call", "MethodCall") and (H.callee(c) or "").endswith("shift_stack_parity")):
                continue
            # skip the stack-allocation path (dead: LocalUnboxing::stack_values is never populated; checked below)
            cur, dead = c, False
            while id(cur) in par:
                q = par[id(cur)]
                if H.kind(q) == "If" and any(H.kind(y) == "Field" and y.get("name") == "stack_alloc" for y in H.walk(q.get("c") or {})) \
                        and any(y is cur for y in H.walk(q.get("t") or {})):
                    dead = True
                cur = q
            if dead:
                continue
            l = _lin(A.sexpr(H.call_args(c)[1], e))
            if l is None:
                bad = A.sexpr(H.call_args(c)[1], e)[:120]
                break
            total ^= l
        n += 1
        want = table.get(v)
        if bad is not None or want is None:
            ctx.violation(rule, "%s:unclassified" % v, "the word count `%s` / the table entry `%s` of %s is not a linear form the rule "
                          "understands" % (bad, table.get(v + ":sx"), v), [facts.bodies()[emit]["loc"][0], a["ln"]])
            continue
        ctx.check(total == want, rule, "%s:parity" % v, "emission of %s moves a number of words with parity {%s} but "
                  "instruction_flips_stack says {%s} (`%s`): the static analysis and the emitter disagree on whether the instruction "
                  "flips the 16-byte alignment of rsp" % (v, " + ".join(sorted(total)) or "0", " + ".join(sorted(want)) or "0", table.get(v + ":sx")),
                  [facts.bodies()[tab]["loc"][0], mt["ln"]], detail={"instruction": v, "parity": sorted(total)})
    ctx.floor(rule, "instructions compared", n, 5)
    writers = [c["from"] for k, cs in facts.calls_to().items() if re.search(r"HashSet.*::insert$|::extend$", k) for c in cs
               if "unbox" in c["from"] and "stack_values" in str(c)]
    uses = 0
    for p, bd in facts.bodies().items():
        if not bd["loc"][0].startswith("lang/assembly/") or "::tests::" in p or "{closure" in p:
            continue
        h = facts.hir(p)
        if h is None:
            continue
        for x in H.walk(h["body"]):
            if H.kind(x) == "MethodCall" and x["name"] in ("insert", "extend") and any(H.kind(y) == "Field" and y.get("name") == "stack_values" for y in H.walk(x["recv"])):
                uses += 1
    ctx.check(uses == 0, rule, "stack-alloc:dead", "LocalUnboxing::stack_values is populated (%d site(s)): stack-allocated products are now "
              "emitted, and their PackProduct moves arity + elements + 1 words, which instruction_flips_stack (elements only) does not "
              "account for" % uses)
