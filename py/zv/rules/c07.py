"""C07 — lexical scoping and import hygiene (scope-flow tables, traversal completeness, boundary resets)."""
import re

from .. import armlib as A
from .. import golden
from .. import hirlib as H
from .. import trav

EXPLANATION = (
    "Renaming invariance is behavioural; what makes it hold is a per-former scoping rule that is literally the shape of "
    "`impl Resolve for TermId / PatId`. Decided: (1) flow-sensitive symbolic traces of every resolver arm (rules/"
    "golden_scope.json, audited by reading): which child is resolved in which scope — the inherited scope, the scope after "
    "a binder, a loop-carried scope (pattern components thread left to right, match arms each restart from the inherited "
    "scope), or the empty scope of Local::for_body() + Global::default() at source and signature boundaries; the `that` "
    "forms require an enclosing block; MobileCandidate::resolve pushes its binding site and resolves bindee and binder; "
    "BlockScope::new folds explicit `update`s over the inherited map (block names win) and reports duplicates; import wraps "
    "a fresh `source(imported)` in a SourceBoundary, a companion becomes Ann{tm, ty = source(signature)}. (2) traversal "
    "completeness (generic, not frozen): the candidate collector, the resolver, DeepClone and the TextualProgramBuilder hand "
    "every TermId/PatId child they bind to the traversal, ignore none with `_` or `..`, have no default arm, and the "
    "collector stops exactly at Block / SourceBoundary / SignatureBoundary. (3) the program builder has no per-source cache "
    "field and allocates every output node through its parser (fresh clone per import occurrence)."
)

ID = r"syntax::(TermId|PatId|CoPatId)\b"
COLLECTOR = "zydeco_surface::scoped::blocks::BlockCandidateCollector::<'a>::"
RESOLVE = "<zydeco_surface::bitter::syntax::%s as zydeco_surface::scoped::resolver::Resolve>::resolve"
CLONE = "<zydeco_surface::bitter::syntax::%s as zydeco_surface::bitter::clone::DeepClone>::deep_clone"
BUILDER = "zydeco_session::source::program::TextualProgramBuilder::<'graph>::"
STOP = {
    "Block": "a nested `begin` block is its own scope for `that` contributions",
    "SourceBoundary": "an imported source is closed: its contributions never move into the importer's block",
    "SignatureBoundary": "a companion signature is closed",
}


def run(ctx):
    facts = ctx.facts
    ctx.rule("scope-flow", "every arm of the resolver resolves each child in the audited scope (rules/golden_scope.json)")
    golden.check(ctx, "scope-flow", "golden_scope.json")
    rule = "traversal"
    ctx.rule(rule, "every TermId / PatId child bound by an arm of a scoping traversal is handed to the traversal; no `_`, `..` or "
                   "default arm; the candidate collector stops exactly at Block / SourceBoundary / SignatureBoundary")
    n = 0
    n += trav.check_traversal(ctx, rule, COLLECTOR + "term", r"BlockCandidateCollector::<'a>::(term|pattern)$", ID, stop=STOP,
                              label="collector.term")
    n += trav.check_traversal(ctx, rule, COLLECTOR + "pattern", r"BlockCandidateCollector::<'a>::(term|pattern)$", ID,
                              label="collector.pattern")
    n += trav.check_traversal(ctx, rule, RESOLVE % "TermId", r"Resolve>::resolve$|::resolve_block$", ID, label="resolve.term",
                              ignored_ok={"MobileParam": "the binder of a `that` parameter is resolved by MobileCandidate::resolve of the enclosing block",
                                          "MobileBind": "binder and bindee of a `that` definition are resolved by MobileCandidate::resolve"})
    n += trav.check_traversal(ctx, rule, RESOLVE % "PatId", r"Resolve>::resolve$", ID, label="resolve.pattern")
    n += trav.check_traversal(ctx, rule, CLONE % "TermId", r"DeepClone>::deep_clone$", ID + r"|syntax::DefId\b", label="deep_clone.term")
    n += trav.check_traversal(ctx, rule, CLONE % "PatId", r"DeepClone>::deep_clone$", ID + r"|syntax::DefId\b", label="deep_clone.pattern")
    fam = r"TextualProgramBuilder::<'graph>::(term|pattern|copattern|definition|binding|existential_parameter|import|literal|source)$"
    for f in ("term", "pattern", "copattern"):
        if BUILDER + f in facts.bodies():
            n += trav.check_traversal(ctx, rule, BUILDER + f, fam, ID + r"|syntax::DefId\b", label="builder." + f)
    ctx.floor(rule, "children checked", n, 150)
    # the collector's stop set is exactly STOP: no other arm returns an empty list without recursing on its children
    h = ctx.need_hir(rule, COLLECTOR + "term")
    m = A.find_match_on(h["body"], lambda x: True)
    for a in m["arms"]:
        pat = A.strip_or(a["pat"])
        vs = sorted(set((H.top_variant(A.strip_or(q)) or "_").split("::")[-1] for q in (pat["pats"] if H.kind(pat) == "Or" else [pat])))
        has_kid = any(re.search(ID, (b.get("ty") or "")) for b in H.walk(pat) if H.kind(b) in ("Bind", "Wild"))
        calls = [c for _, c in H.calls(a["body"]) if re.search(r"BlockCandidateCollector::<'a>::(term|pattern)$", c)]
        if not calls and not H.exits_by_panic_only(a["body"]) and not all(v in STOP for v in vs):
            # a leaf arm: must not have id-typed payload that it declines to look at
            ctx.check(not has_kid, rule, "collector.term:%s:leaf" % "|".join(vs),
                      "collector arm %s visits nothing although it has sub-terms" % vs, [facts.bodies()[COLLECTOR + "term"]["loc"][0], a["ln"]],
                      detail={"variants": vs, "leaf": True})
    rule_fresh_clone(ctx)
    rule_pattern_binders(ctx)
    ctx.assume("the theorem 'these scoping rules imply alpha-invariance of behaviour' is NOT decided; the golden scope table is my "
               "audited reading of the language's scoping rules")
    return {}


BINDERS = "<zydeco_surface::bitter::syntax::PatId as zydeco_surface::scoped::binders::Binders>::binders"


def rule_pattern_binders(ctx):
    """The names a `that` pattern contributes to its block: components bind left to right, so on a repeated name the later
    component is the one the block sees (as in the lexical resolution of the same pattern)."""
    facts = ctx.facts
    rule = "pattern-binders"
    ctx.rule(rule, "Binders::binders for a pattern visits every sub-pattern, and where it merges the binders of several components "
                   "(tuple, alias) a clash is decided for the later component: im's `union` keeps the receiver's entry, so the "
                   "receiver of every merge is the later component's map and its argument the accumulated one")
    h = ctx.need_hir(rule, BINDERS)
    if h is None:
        return
    n = trav.check_traversal(ctx, rule, BINDERS, r"Binders>::binders$", r"syntax::PatId\b", label="binders.pattern",
                             ignored_ok={"Ann": "the annotation is a term: it binds nothing"})
    ctx.floor(rule, "children checked", n, 5)
    m = A.find_match_on(h["body"], lambda x: True)
    merges = 0
    for a in m["arms"]:
        env = A.ArmEnv()
        env.strip = True
        env.bind_params(h)
        for l, p in A.pat_paths(A.strip_or(a["pat"])).items():
            env.names[l] = "$" + p
        for c in H.walk(a["body"]):
            if H.kind(c) == "MethodCall" and re.search(r"HashMap::<K, V(, S)?>::(union|union_with)$", H.callee(c) or ""):
                merges += 1
                recv, arg = A.sexpr(c["recv"], env), A.sexpr(c["args"][0], env)
                later = "Binders>::binders" in recv and "Binders>::binders" not in arg
                ctx.check(later, rule, "binders:%s:merge-bias" % A.pat_shape(a["pat"]),
                          "the components of a %s pattern are merged with `%s.union(%s)`: on a repeated name the EARLIER component "
                          "wins, but pattern components bind left to right (the lexical form binds the later one)"
                          % (A.pat_shape(a["pat"]), recv[-60:], arg[-60:]), [facts.bodies()[BINDERS]["loc"][0], c.get("ln") or a["ln"]],
                          detail={"receiver": recv, "argument": arg})
    ctx.floor(rule, "merges classified", merges, 1)


def rule_fresh_clone(ctx):
    facts = ctx.facts
    rule = "fresh-clone"
    ctx.rule(rule, "TextualProgramBuilder has exactly the fields {graph, parser} (no SourceId -> TermId cache) and every node it returns "
                   "is allocated by its parser")
    adt = facts.adts().get("zydeco_session::source::program::TextualProgramBuilder")
    if adt is None:
        ctx.anchor_lost(rule, "TextualProgramBuilder not found")
    else:
        fields = [(f["name"], f["ty"]) for f in adt["variants"][0]["fields"]]
        caches = [f for f in fields if re.search(r"(HashMap|BTreeMap|Arena|Vec<|Cache|Option<)", f[1]) and f[0] != "parser"]
        ctx.check(not caches, rule, "builder-fields", "TextualProgramBuilder has state %s besides graph/parser: a cached provider term would be "
                  "shared between import occurrences" % caches, adt["loc"], detail={"fields": fields})
    for f in ("term", "pattern", "copattern", "definition", "import", "literal"):
        fn = BUILDER + f
        if fn not in facts.bodies():
            continue
        h = ctx.need_hir(rule, fn)
        env = A.Env()
        env.strip = True
        env.bind_params(h)
        outs = _results(h["body"])
        bad = []
        for o in outs:
            s = A.sexpr(o, env)
            if re.match(r"^\(core::result::Result::Ok \(zydeco_surface::textual::syntax::Parser::(term|pat|copat|def) ", s) or \
                    re.match(r"^\(zydeco_surface::textual::syntax::Parser::(term|pat|copat|def) ", s) or \
                    re.match(r"^\(zydeco_session::source::program::TextualProgramBuilder::<'graph>::(import|literal|source|term) ", s):
                continue
            bad.append(s[:120])
        ctx.check(not bad and outs, rule, "builder.%s:allocates" % f,
                  "TextualProgramBuilder::%s can return %s: an id of the source arena instead of a freshly allocated node" % (f, bad),
                  facts.bodies()[fn]["loc"], detail={"fn": f, "results": len(outs)})


def _results(body):
    """tail and return values of a function body (through blocks, ifs, matches, `?` is a propagation not a result)."""
    out = []

    def tails(n):
        n = H.peel(n) if H.kind(n) in ("AddrOf", "Use", "Type") else n
        k = H.kind(n)
        if k == "Block" or (k is None and "stmts" in n):
            if n.get("expr") is not None:
                tails(n["expr"])
            return
        if k == "If":
            tails(n["t"])
            if n.get("e") is not None:
                tails(n["e"])
            return
        if k == "Match" and not H.is_try(n) and not n.get("src"):
            for a in n["arms"]:
                tails(a["body"])
            return
        if k in ("Ret", "Break", "Continue"):
            return
        if n.get("never"):
            return
        out.append(n)

    tails(body)
    for n in H.walk(body):
        if H.kind(n) == "Ret" and n.get("e") is not None:
            # returns generated by `?` carry from_residual: skip those
            e = H.peel(n["e"])
            if (H.callee(e) or "").endswith("from_residual"):
                continue
            tails(n["e"])
    return out
