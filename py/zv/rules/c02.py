"""C02 — interpreter behaviour equals CBPV reference semantics (transition/erasure tables, environment discipline)."""
import json
import os
import re

from .. import armlib as A
from .. import golden
from .. import hirlib as H
from ..facts import VERIF

EXPLANATION = (
    "Observational equality with a reference semantics quantifies over runs and is NOT decided. Decided: every arm of the "
    "CK machine (Eval for Computation / Value, Assign, product flattening) and of erasure (Link for VPatId / ValueId / "
    "CompuId) performs exactly the audited sequence of operations in canonical, name-independent form: which frame is "
    "popped or pushed with which payload fields, which operand is evaluated before which, which environment is installed "
    "(runtime.env := the popped Kont's / forced thunk's / applied closure's environment), which environment a closure "
    "captures (runtime.env), which field the machine steps to, and that the i-th argument of every erased constructor derives "
    "from the i-th field of the static node. The references (rules/golden_eval.json, rules/golden_link.json) were generated "
    "from the tree and audited against the CBPV CK machine by reading. Plus structural rules: every closure-like value "
    "captures runtime.env and every write of runtime.env comes from a frame/closure field or a saved outer environment; the "
    "projection-pattern and type-pattern elaborations fold their routes in the same (reversed) direction; source order of "
    "block candidates is the enumeration index of the collector's output with no reordering in between."
)

RUNTIME_ENV = "(. $P1 env)"


def rule_env_flow(ctx):
    """Generic (not golden) environment discipline over eval.rs."""
    rule = "env-flow"
    facts = ctx.facts
    ctx.rule(rule, "EnvThunk.env, EnvValueClosure.env and SemCompu::Kont.1 are always runtime.env (lexical capture); runtime.env is "
                   "assigned only from the env field of a popped Kont frame, a forced thunk, an applied closure, or a local saved "
                   "from runtime.env (restore)")
    fns = [p for p in facts.bodies() if p.startswith("<zydeco_dynamics::") and p.endswith("eval::Eval<'rt>>::step")]
    n_cap = n_asg = 0
    for fn in fns:
        h = facts.hir(fn)
        loc = facts.bodies()[fn]["loc"]
        env0 = A.Env()
        env0.bind_params(h)
        m = A.find_match_on(h["body"], lambda n: True)
        if m is None:
            continue
        for a in m["arms"]:
            env = A.ArmEnv()
            env.strip = True
            env.names = dict(env0.names)
            env.bind_pat(A.strip_or(a["pat"]))
            env.absorb(a["body"])
            arm = A.pat_shape(a["pat"])
            # saved environments: let x = runtime.env.clone()  /  let x = mem::replace(&mut runtime.env, ..)
            saved = set()
            for st in H.walk(a["body"]):
                if H.kind(st) == "Let" and st.get("init") is not None and H.kind(st["pat"]) == "Bind":
                    s = A.sexpr(st["init"], env)
                    if s == RUNTIME_ENV or s.startswith("(core::mem::replace %s " % RUNTIME_ENV):
                        saved.add(st["pat"]["local"])
            for n in H.walk(a["body"]):
                k = H.kind(n)
                if k == "Struct" and n["fields"] and "e" in n["fields"][0]:
                    d = n["path"].get("def") or ""
                    if d.endswith("syntax::EnvThunk") or d.endswith("syntax::EnvValueClosure"):
                        n_cap += 1
                        f = next((x for x in n["fields"] if x["name"] == "env"), None)
                        got = A.sexpr(f["e"], env) if f else "(missing)"
                        ctx.check(got == RUNTIME_ENV, rule, "%s:%s:capture" % (_fnlabel(fn), arm),
                                  "%s arm %s: %s captures %s instead of the current lexical environment runtime.env"
                                  % (_fnlabel(fn), arm, d.split("::")[-1], got), [loc[0], n.get("ln")],
                                  detail={"arm": arm, "captures": "runtime.env"})
                if k == "Call" and (H.callee(n) or "").endswith("SemCompu::Kont") and len(n["args"]) == 3:
                    n_cap += 1
                    got = A.sexpr(n["args"][1], env)
                    ctx.check(got == RUNTIME_ENV, rule, "%s:%s:kont-env" % (_fnlabel(fn), arm),
                              "%s arm %s pushes a continuation frame with environment %s instead of runtime.env"
                              % (_fnlabel(fn), arm, got), [loc[0], n.get("ln")], detail={"arm": arm, "frame_env": "runtime.env"})
                if k == "Assign" and A.sexpr(n["l"], env) == RUNTIME_ENV:
                    n_asg += 1
                    r = H.peel(n["r"])
                    src = A.sexpr(r, env)
                    lp = H.path_local(r)
                    ok = bool(re.search(r"/Kont\.1$|/Thunk\.0 env\)$|EnvValueClosure\.env\)?$", src)) or (lp and lp[0] in saved)
                    ctx.check(ok, rule, "%s:%s:install" % (_fnlabel(fn), arm),
                              "%s arm %s installs environment %s: not the environment of the frame / thunk / closure being resumed "
                              "and not a saved outer environment" % (_fnlabel(fn), arm, src[:120]), [loc[0], n.get("ln")],
                              detail={"arm": arm, "installs": src[:100]})
    ctx.floor(rule, "environment captures", n_cap, 4)
    ctx.floor(rule, "writes of runtime.env", n_asg, 4)


def _fnlabel(fn):
    m = re.search(r"<zydeco_dynamics::(?:eval::)?(?:syntax::)?(\w+)", fn)
    return (m.group(1) if m else fn) + "::step"


def rule_siblings(ctx):
    rule = "sibling-order"
    facts = ctx.facts
    ctx.rule(rule, "FieldProjectionResolver::value_pattern and ::type_pattern both fold their route over enumerate().rev() (innermost "
                   "step first); value_target keeps route order; Resolver::resolve_block assigns source_order = enumerate() index of "
                   "the immutable candidate list returned by the collector")
    base = "zydeco_statics::check::FieldProjectionResolver::"
    forms = {}
    for f in ("value_pattern", "type_pattern"):
        fn = base + f
        h = ctx.need_hir(rule, fn)
        env = A.Env()
        env.strip = True
        env.bind_params(h)
        fold = next((n for n in H.walk(h["body"]) if H.kind(n) == "MethodCall" and n["name"] == "fold"), None)
        recv = A.sexpr(fold["recv"], env) if fold else "(no fold)"
        forms[f] = re.sub(r"\$P\d+", "$route", re.sub(r"\(\. \$P\d+ (route|path)\)", "$route", recv))
    ok = forms["value_pattern"] == forms["type_pattern"] and "rev" in forms["value_pattern"] and "enumerate" in forms["value_pattern"]
    ctx.check(ok, rule, "projection-patterns", "value_pattern folds over %s but type_pattern over %s: the generated projection pattern "
              "nests its steps in a different order than its sibling" % (forms["value_pattern"][:150], forms["type_pattern"][:150]),
              facts.bodies()[base + "value_pattern"]["loc"], detail={"fold_over": forms["type_pattern"][:120]})
    fn = base + "value_target"
    h = ctx.need_hir(rule, fn)
    env = A.Env()
    env.strip = True
    env.bind_params(h)
    s = A.sexpr(h["body"], env)
    ctx.check("rev" not in s and "filter_map" in s, rule, "value_target", "value_target no longer keeps the route order: %s" % s[:200],
              facts.bodies()[fn]["loc"], detail={"order": "route order (outermost first)"})
    # source order
    fn = "zydeco_surface::scoped::blocks::<impl zydeco_surface::scoped::resolver::Resolver<'_>>::resolve_block"
    if fn not in facts.bodies():
        fn = next((p for p in facts.bodies() if p.endswith("::resolve_block")), None)
    if fn is None:
        ctx.anchor_lost(rule, "resolve_block not found")
        return
    h = ctx.need_hir(rule, fn)
    loc = facts.bodies()[fn]["loc"]
    let = None
    for n in H.walk(h["body"]):
        if H.kind(n) == "Let" and H.kind(n["pat"]) == "Bind" and n.get("init") is not None:
            c = H.callee(H.peel(n["init"])) or ""
            if c.endswith("BlockCandidateCollector::<'a>::collect") or c.endswith("BlockCandidateCollector::collect"):
                let = n
    if let is None:
        ctx.anchor_lost(rule, "resolve_block: candidate list binding not found")
        return
    cand = let["pat"]["local"]
    immut = not let["pat"].get("mut")
    # the enumerate() whose index is handed to MobileCandidate::resolve as source_order
    enum_ok = False
    for n in H.walk(h["body"]):
        if H.kind(n) == "MethodCall" and n["name"] == "enumerate":
            r = H.peel(n["recv"])
            if H.kind(r) == "MethodCall" and r["name"] in ("iter", "into_iter"):
                l = H.path_local(r["recv"])
                if l and l[0] == cand:
                    enum_ok = True
    mutators = []
    for n in H.walk(h["body"]):
        if H.kind(n) == "MethodCall" and (n.get("recv_ty") or "").startswith("&mut "):
            l = H.path_local(n["recv"])
            if l and l[0] == cand:
                mutators.append(n["name"])
    ctx.check(immut and enum_ok and not mutators, rule, "source-order",
              "resolve_block: source_order is not the plain enumeration index of the collector's output (immutable=%s, "
              "enumerate over candidates.iter()=%s, reordering calls=%s)" % (immut, enum_ok, mutators), loc,
              detail={"source_order": "candidates.iter().enumerate() index", "candidates_mutated_by": mutators})
    # topological_order: ready.reverse() + pop (first ready = first popped)
    fn = "zydeco_surface::scoped::arena::BindingContext::topological_order"
    h = ctx.need_hir(rule, fn)
    names = [n["name"] for n in H.walk(h["body"]) if H.kind(n) == "MethodCall"]
    ctx.check(names.count("reverse") == 1 and names.count("pop") == 2, rule, "topological-order",
              "topological_order no longer reverses the ready list once before popping (calls: %s)" % names, facts.bodies()[fn]["loc"],
              detail={"calls": names})


def _sx(s):
    """parse a canonical S-expression into nested lists"""
    toks = re.findall(r"\(|\)|[^\s()]+", s)
    def rd(i):
        if toks[i] == "(":
            out = []
            i += 1
            while toks[i] != ")":
                x, i = rd(i)
                out.append(x)
            return out, i + 1
        return toks[i], i + 1
    try:
        return rd(0)[0]
    except IndexError:
        return s


def _rev_parity(tree, var):
    """number of `rev` applications (mod 2) on the path from the whole expression down to the first occurrence of var; None if absent"""
    if isinstance(tree, str):
        return 0 if tree == var else None
    head = tree[0] if tree and isinstance(tree[0], str) else ""
    for sub in tree[1:] if isinstance(tree[0], str) else tree:
        r = _rev_parity(sub, var)
        if r is not None:
            return (r + (1 if head.endswith("::rev") else 0)) % 2
    return None


def rule_copattern_tuples(ctx):
    rule = "copattern-tuples"
    facts = ctx.facts
    ctx.rule(rule, "the checker assembles the argument tuple (combine_values_k) and the tuple pattern of every clause (combine_patterns) "
                   "of a multi-argument copattern the same way: tail = the LAST element (one reversal, next()), items = the other "
                   "elements in their ORIGINAL order (an even number of reversals): position i of the pattern meets argument i")
    base = "zydeco_statics::check::copattern::CopatternElaborator::"
    got = {}
    for f, var in (("combine_values_k", "$P2"), ("combine_patterns", "$P2")):
        fn = base + f
        h = ctx.need_hir(rule, fn)
        env = A.ArmEnv()
        env.strip = True
        env.bind_params(h)
        env.absorb(h["body"])
        cons = [n for n in H.walk(h["body"]) if H.kind(n) == "Call" and (H.callee(n) or "").endswith("zydeco_syntax::ConsN")]
        if len(cons) != 1:
            ctx.anchor_lost(rule, "%s: expected one ConsN(items, tail), found %d" % (f, len(cons)))
            continue
        # the iterator variable is advanced by next(): flow-sensitive naming is not needed for parity, the reversal is in its definition
        items = _sx(A.sexpr(cons[0]["args"][0], env))
        tail = _sx(A.sexpr(cons[0]["args"][1], env))
        got[f] = (_rev_parity(items, var), _rev_parity(tail, var))
        ok = got[f] == (0, 1)
        ctx.check(ok, rule, f, "%s builds ConsN(items, tail) with reversal parity items=%s tail=%s of its input list; expected items in "
                  "original order (0) and tail = last element (1): the i-th pattern would not meet the i-th argument" % (f, got[f][0], got[f][1]),
                  facts.bodies()[fn]["loc"], detail={"fn": f, "items_parity": got[f][0], "tail_parity": got[f][1]})


def run(ctx):
    ctx.rule("ck-machine", "every arm of Eval for Computation / Value, Assign and the product helpers performs the audited sequence "
                           "of pops, pushes, operand evaluations, environment installs, captures and steps (rules/golden_eval.json)")
    golden.check(ctx, "ck-machine", "golden_eval.json")
    ctx.rule("erasure", "every arm of Link erases exactly the audited static positions and keeps argument positions "
                        "(rules/golden_link.json)")
    golden.check(ctx, "erasure", "golden_link.json")
    ctx.rule("desugaring", "every arm of the desugarer (terms, patterns, copatterns, generic bindings, parameter and existential "
                           "telescopes) builds the audited core term from its children in the audited order: application spines nest to "
                           "the left, parameter lists and telescopes fold from the last parameter inwards, `A -> B` / `A * B` become "
                           "Pi / Sigma over an annotated hole, thunk / ret carry their prim annotation, `do` keeps binder / bindee / tail, "
                           "`define` seals its bindee, `that` placements become mobile forms (rules/golden_desugar.json)")
    golden.check(ctx, "desugaring", "golden_desugar.json")
    rule_env_flow(ctx)
    rule_siblings(ctx)
    rule_copattern_tuples(ctx)
    from . import c01
    c01.rule_erasure_arity(ctx)
    ctx.assume("the audited references are a correct CK machine for CBPV (by inspection of eval.rs / link.rs against the "
               "repository's DESIGN.md); host operations are C06; of the elaboration of copattern clauses only the argument / pattern tuple agreement is covered")
    return {}
