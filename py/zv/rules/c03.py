"""C03 — the checker decides the declared typing rules (soundness side only)."""
import re

from .. import armlib as A
from .. import hirlib as H
from .. import tys
from .. import golden
from . import c01
from . import lubarms

EXPLANATION = (
    "Completeness (every well-typed annotated program is accepted) has no structural necessary condition and is NOT "
    "decided. On the rejection side the check decides: (1) the audited equality table of Lub (every field comparison, every "
    "off-diagonal rejection, closed accepting cases of the identity formers, existential mode table, sort table of AnnId); "
    "(2) the error-discipline rule over zydeco-statics (no unrecorded error is dropped); (3) sort discipline: each "
    "try_as_<sort> helper accepts exactly its own variant and errors on all others, every let-else on a sort enum in check/ "
    "ends in an error or a listed invariant panic, and no match on a sort enum continues through a catch-all arm outside the "
    "audited list; (4) sealing: a type obtained by unrolling (unroll_k, or materialising a deferred telescope with an "
    "unrolling environment) never flows into definitional equality (Lub), so the representation of a sealed definition "
    "cannot be compared where its abstract identity is required."
)

SORT = re.compile(r"^zydeco_statics::syntax::(TermAnnId|AnnId|PatAnnId)$|^zydeco_statics::check::Switch<")
DEFAULT_GO_OK = {
    ("zydeco_statics::check::Tycker::<'a>::run_judgments_k", "Hole(_)"):
        "`matches!(root, TermAnnId::Hole(_))`: a boolean test, the hole case is an error right after",
    ("tyck_inner_k", "Ana(Type(_))"):
        "Fix: wraps the expected type in Thk when analysing, forwards any other switch unchanged to the pattern judgment, "
        "which classifies it",
}
HELPERS = {
    "try_as_kind": "Kind", "try_as_type": "Type", "try_as_value": "Value", "try_as_compu": "Compu",
}


def rule_sort_helpers(ctx):
    rule = "sort-helpers"
    facts = ctx.facts
    ctx.rule(rule, "TermAnnId / PatAnnId::try_as_<sort> accept exactly the variant they are named after (returning its own "
                   "payload) and produce the caller's error for every other variant")
    n = 0
    for path, bd in sorted(facts.bodies().items()):
        m = re.search(r"check::annotation::<impl zydeco_statics::syntax::(TermAnnId|PatAnnId)>::(try_as_\w+)$", path)
        if not m:
            continue
        enum, fn = m.group(1), m.group(2)
        want = HELPERS.get(fn)
        if want is None:
            continue
        n += 1
        h = ctx.need_hir(rule, path)
        mm = next((x for x in H.walk(h["body"]) if H.kind(x) == "Match" and not x.get("src")), None)
        if mm is None:
            ctx.anchor_lost(rule, "%s: no match" % path)
            continue
        variants = [v["name"] for v in facts.adts()["zydeco_statics::syntax::" + enum]["variants"]]
        acc, err, other = set(), set(), set()
        for a in mm["arms"]:
            p = A.strip_or(a["pat"])
            pats = p["pats"] if H.kind(p) == "Or" else [p]
            is_err = any(c.endswith("::err") or c.endswith("::err_k") for _, c in H.calls(a["body"]))
            body = H.peel(a["body"])
            is_ok = (H.callee(body) or "").endswith("Result::Ok")
            for q in pats:
                v = (H.top_variant(A.strip_or(q)) or "_").split("::")[-1]
                (err if is_err else acc if is_ok else other).add(v)
        ok = acc == {want} and err == set(variants) - {want} and not other
        ctx.check(ok, rule, "%s::%s" % (enum, fn), "%s::%s accepts %s, errors on %s (other: %s); expected to accept exactly %s"
                  % (enum, fn, sorted(acc), sorted(err), sorted(other), want), bd["loc"],
                  detail={"helper": "%s::%s" % (enum, fn), "accepts": sorted(acc), "errors_on": sorted(err)})
    ctx.floor(rule, "sort helpers", n, 6)


def rule_sort_matches(ctx):
    rule = "sort-matches"
    facts = ctx.facts
    ctx.rule(rule, "in check/: a let-else on TermAnnId / AnnId / PatAnnId / Switch ends in a type error (or an invariant panic); a "
                   "match on them never continues through a catch-all arm, except the audited cases")
    n_m = n_l = 0
    for path, bd in sorted(facts.bodies().items()):
        if not bd["loc"][0].startswith("lang/statics/src/check") or bd.get("expn"):
            continue
        h = facts.hir(path)
        if h is None:
            continue
        for m in H.walk(h["body"]):
            if H.kind(m) == "Match" and not m.get("src") and SORT.match(tys.strip_refs(m.get("scrut_ty", ""))):
                n_m += 1
                last = m["arms"][-1]
                if H.pat_is_catch_all(A.strip_or(last["pat"])):
                    is_err = any(c.endswith("::err_k") or c.endswith("::err") for _, c in H.calls(last["body"]))
                    if not is_err and not H.exits_by_panic_only(last["body"]):
                        first = A.pat_shape(m["arms"][0]["pat"])
                        why = next((r for (f, p), r in DEFAULT_GO_OK.items() if path.endswith(f) and p == first), None)
                        ctx.check(why is not None, rule, "%s:%s:default" % (c01._short(path), first),
                                  "%s: a match on a sort enum (first arm %s) lets every other sort continue through `_`"
                                  % (path, first), [bd["loc"][0], m["ln"]], detail={"fn": c01._short(path), "audited": why})
            if H.kind(m) == "Let" and m.get("els") is not None and isinstance(m.get("init"), dict) \
                    and SORT.match(tys.strip_refs(m["init"].get("ty", ""))):
                n_l += 1
                els = m["els"]
                is_err = any(c.endswith("::err_k") or c.endswith("::err") for _, c in H.calls(els)) and H.diverges(els)
                ctx.check(is_err or H.exits_by_panic_only(els), rule, "%s:%s:let-else" % (c01._short(path), A.pat_shape(m["pat"])),
                          "%s: `let %s = .. else` on a sort enum neither reports a type error nor stops" % (path, A.pat_shape(m["pat"])),
                          [bd["loc"][0], m["ln"]], detail={"fn": c01._short(path), "pattern": A.pat_shape(m["pat"])})
                # the sort of a SUB-TERM is the user's: when the value taken apart is the result of a sub-judgment (tyck_k), the else
                # branch has to be a diagnostic; a panic there is a crash on an ill-sorted program
                if not is_err and H.exits_by_panic_only(els):
                    env = A.ArmEnv()
                    env.strip = True
                    env.bind_params(h)
                    env.absorb(h["body"])
                    src = A.sexpr(m["init"], env)
                    from_judgment = re.search(r"Tyck<'a>>::tyck_k |Tyck<'a>>::tyck_inner_k ", src) is not None \
                        and "try_as_" not in src
                    ctx.check(not from_judgment, rule, "%s:%s:let-else:sub-judgment-panics" % (c01._short(path), A.pat_shape(m["pat"])),
                              "%s takes the result of a sub-judgment apart as %s with `else { unreachable!() }`: the sort of a sub-term "
                              "is decided by the program (an empty `match` in analysis mode is a computation at any expected type), so "
                              "an ill-sorted program crashes the checker instead of getting `Sort mismatch`"
                              % (path, A.pat_shape(m["pat"])), [bd["loc"][0], m["ln"]], detail={"source": src[:160]})
    ctx.note("%s: %d matches and %d let-else on sort enums in check/" % (rule, n_m, n_l))
    ctx.floor(rule, "matches on sort enums", n_m, 70)
    ctx.floor(rule, "let-else on sort enums", n_l, 12)


def rule_sealing(ctx):
    rule = "sealing"
    facts = ctx.facts
    ctx.rule(rule, "no value produced by unrolling a definition (unroll_k / unroll, or materialize_k of a deferred telescope built "
                   "with_environment, which unrolls) flows into Lub::lub / lub_k: equality never sees a revealed representation")
    n_src = 0
    for path, bd in sorted(facts.bodies().items()):
        if bd["tag"] != "zydeco_statics" or bd.get("expn"):
            continue
        h = facts.hir(path)
        if h is None:
            continue
        srcs = [n for n in H.walk(h["body"]) if _is_unroll(n)]
        if not srcs:
            continue
        par = {}
        st = [(h["body"], None)]
        while st:
            n, p = st.pop()
            if not isinstance(n, dict):
                continue
            par[id(n)] = p
            for c in H.children(n):
                st.append((c, n))
        for s in srcs:
            n_src += 1
            hits = []
            _flow(h, par, s, hits, set(), 0)
            for call in hits:
                ctx.violation(rule, "%s:%s" % (c01._short(path), (H.callee(call) or "?").split("::")[-1]),
                              "%s: an unrolled type (%s) is compared by %s: a sealed definition would be equal to its "
                              "representation" % (path, s["name"], H.callee(call)), [bd["loc"][0], call.get("ln")])
    ctx.ok(rule, "inventory", {"unroll_sources_followed": n_src, "flows_into_equality": 0})
    ctx.floor(rule, "unroll sources", n_src, 20)


def _is_unroll(n):
    if H.kind(n) != "MethodCall":
        return False
    if n["name"] in ("unroll_k", "unroll"):
        return True
    if n["name"] == "materialize_k":
        return any(H.kind(x) == "MethodCall" and x["name"] == "with_environment" for x in H.walk(n["recv"]))
    return False


def _flow(h, par, node, hits, seen, depth):
    cur = node
    while True:
        p = par.get(id(cur))
        if p is None:
            return
        k = H.kind(p)
        if k == "Call" and (H.callee(p) or "").endswith("::branch"):
            cur = p
            continue
        if k == "Match" and H.is_try(p):
            cur = p
            continue
        if k == "MethodCall" and p["recv"] is cur and p["name"] in ("subst_env_k", "subst_env", "into", "clone", "to_owned",
                                                                    "normalize_k", "as_type", "subst_absts_k", "subst_k"):
            cur = p
            continue
        if k in ("MethodCall", "Call"):
            c = H.callee(p) or ""
            if re.search(r"::lub(_k|_inner)?$", c):
                hits.append(p)
            return
        if k == "Let" and p.get("init") is cur:
            for bd in H.pat_bindings(p["pat"]):
                for u in H.walk(h["body"]):
                    if H.kind(u) == "Path" and u.get("res", {}).get("local") == bd["local"] and id(u) not in seen:
                        seen.add(id(u))
                        if depth < 6:
                            _flow(h, par, u, hits, seen, depth + 1)
            return
        if k in ("AddrOf", "Use", "Type"):
            cur = p
            continue
        if k == "Block" or (k is None and "stmts" in p):
            if p.get("expr") is cur:
                cur = p
                continue
            return
        return


SUBST_ABSTS = "zydeco_statics::normalize::<impl zydeco_statics::syntax::TypeId>::subst_absts"
# former -> (payload path of the binder, payload paths that are in the binder's scope); everything else is outside its scope
BINDER_SCOPE = {
    "Abs": ("TypeAbstraction.binder", ["TypeAbstraction.body"]),
    "Forall": ("Forall.0", ["Forall.1"]),
    "VForall": ("ValueForall.0", ["ValueForall.1"]),
    "Exists": ("Exists.binder", ["Exists.body"]),
    "PackPi": ("PackPi.witnesses", ["PackPi.codomain"]),
    "VPackPi": ("ValuePackPi.witnesses", ["ValuePackPi.codomain"]),
}


def _third_args(sx, prefix):
    """the balanced S-expression (or atom) following each occurrence of prefix"""
    out = []
    i = sx.find(prefix)
    while i >= 0:
        j = i + len(prefix)
        if j < len(sx) and sx[j] == "(":
            d, k = 0, j
            while k < len(sx):
                d += sx[k] == "("
                d -= sx[k] == ")"
                k += 1
                if d == 0:
                    break
            out.append(sx[j:k])
        else:
            k = j
            while k < len(sx) and sx[k] not in " )":
                k += 1
            out.append(sx[j:k])
        i = sx.find(prefix, k)
    return out


def rule_binder_shadowing(ctx):
    """capture-avoidance of the abstract-type substitution: a binder that rebinds the witness shadows it"""
    rule = "binder-shadowing"
    facts = ctx.facts
    ctx.rule(rule, "TypeId::subst_absts (instantiation of forall / type functions / packages): in the arm of every type former that "
                   "binds abstract witnesses (Abs, Forall, VForall, Exists, PackPi, VPackPi -- computed from the payload types), the "
                   "recursive call on each component in the binder's scope receives the assignments filtered by that binder, never the "
                   "unfiltered list: unfolding one type function twice yields nested binders with ONE witness id, and an unfiltered "
                   "substitution rewrites the inner bound variable (ill-typed applications accepted, well-typed ones rejected)")
    adts = facts.adts()
    ty = adts.get("zydeco_statics::syntax::Type")
    if ty is None:
        ctx.anchor_lost(rule, "Type not found")
        return
    binders = []
    for v in ty["variants"]:
        for f in v["fields"]:
            t = (f.get("ty") or "").replace("alloc::boxed::Box<", "").rstrip(">")
            payload = adts.get(t)
            flds = [(g.get("ty") or "") for vv in (payload or {}).get("variants", []) for g in vv["fields"]]
            if any(re.search(r"syntax::(TypeBinder|PackTelescope)$", x) for x in flds):
                binders.append(v["name"])
    ctx.floor(rule, "type formers binding abstract witnesses", len(binders), 6)
    t = golden.extract_armexpr(facts, SUBST_ABSTS, r"syntax::Type$")
    if t is None:
        ctx.anchor_lost(rule, SUBST_ABSTS + " not found")
        return
    ctx.fn(SUBST_ABSTS)
    loc = facts.bodies()[SUBST_ABSTS]["loc"]
    arms = {}
    for key, v in t.items():
        for name in re.findall(r"(\w+)\(", key):
            arms[name] = v
    for V in binders:
        if V not in BINDER_SCOPE:
            ctx.violation(rule, "%s:untabled" % V, "type former %s binds abstract witnesses but has no row in BINDER_SCOPE: its scope "
                          "has not been audited" % V, loc)
            continue
        bpath, scoped = BINDER_SCOPE[V]
        arm = arms.get(V)
        if arm is None:
            ctx.violation(rule, "%s:no-arm" % V, "subst_absts has no explicit arm for the binding former %s" % V, loc)
            continue
        sx = arm["events"][0]
        for comp in scoped:
            recv = "$%s.0/%s" % (V, comp)
            calls = _third_args(sx, "subst_absts %s $P1 " % recv)
            ok = bool(calls) and all(c != "$P2" and ("$%s.0/%s" % (V, bpath)) in c for c in calls)
            ctx.check(ok, rule, "%s:%s" % (V, comp.split(".")[-1]),
                      "subst_absts arm %s substitutes in `%s` (in the scope of the binder) with %s: the assignment for a witness this "
                      "binder rebinds is not removed, so an inner bound variable is rewritten by an outer instantiation"
                      % (V, comp, sorted(set(calls)) or "no recursive call"), [loc[0], arm["ln"]],
                      detail={"former": V, "component": comp, "filtered_by": bpath})


def _term_and_pattern_judgments(ctx, rule):
    facts = ctx.facts
    for suffix, tyname in (("bitter::syntax::TermId> as zydeco_statics::check::Tyck<'a>>::tyck_inner_k", "Term"),
                           ("bitter::syntax::PatId> as zydeco_statics::check::Tyck<'a>>::tyck_inner_k", "Pattern")):
        fn = next((p for p in facts.bodies() if p.endswith(suffix)), None)
        if fn is None:
            ctx.anchor_lost(rule, "%s not found" % suffix)
            continue
        h = ctx.need_hir(rule, fn)
        ms = [m for m in H.walk(h["body"]) if H.kind(m) == "Match" and not m.get("src")
              and re.search(r"bitter::syntax::%s\b" % tyname, H.strip_refs(m["scrut"].get("ty") or ""))]
        if not ms:
            ctx.anchor_lost(rule, "%s: dispatch not found" % fn)
            continue
        yield tyname, fn, h, max(ms, key=lambda x: len(x["arms"]))


def rule_leaf_pattern_kind(ctx):
    """a pattern that stands for a value is checked against a VALUE type"""
    rule = "leaf-pattern-kind"
    ctx.rule(rule, "the leaf formers of the pattern judgment that accept a value at a type given by the program (variable, wildcard) "
                   "compare the kind of that type with VType (Lub::lub_k(VType, type_kind(ty))): otherwise `fn (_ : Ret Int64) => ..` "
                   "synthesises an arrow whose domain is a computation type")
    n = 0
    for tyname, fn, h, m in _term_and_pattern_judgments(ctx, rule):
        if tyname != "Pattern":
            continue
        loc = ctx.facts.bodies()[fn]["loc"]
        for a in m["arms"]:
            v = A.pat_shape(a["pat"])
            if not re.match(r"^(Var|Hole)\b", v):
                continue
            n += 1
            ok = False
            for c in H.walk(a["body"]):
                if H.kind(c) in ("Call", "MethodCall") and re.search(r"Lub(>|)::lub_k$", H.callee(c) or ""):
                    args = " ".join(A.sexpr(x, None) for x in H.call_args(c))
                    env = A.ArmEnv()
                    env.strip = True
                    env.absorb(a["body"])
                    args2 = " ".join(A.sexpr(x, env) for x in H.call_args(c))
                    if "syntax::VType" in args2 and "type_kind" in args2:
                        ok = True
            ctx.check(ok, rule, "pattern:%s:value-kind" % v.split("(")[0],
                      "the %s pattern does not compare the kind of the type it is checked against with VType: a computation type is "
                      "accepted as the type of a bound / ignored VALUE" % v.split("(")[0], [loc[0], a["ln"]],
                      detail={"former": v, "check": "lub_k(VType, type_kind(ty))"})
    ctx.floor(rule, "leaf pattern formers", n, 2)


def rule_opened_skolems(ctx):
    """the witnesses a pattern opens travel with its result up to the binder that closes their scope"""
    rule = "opened-skolems"
    ctx.rule(rule, "in the pattern judgment, an arm that checks sub-patterns builds its result from a sub-result (`with_annotation`) or "
                   "passes the opened witnesses explicitly (`PatternCheck::with_opened`); `PatternCheck::new`, which starts with NO "
                   "opened witness, occurs only in arms without sub-patterns. Otherwise a package opened below that former loses its "
                   "skolems, close_scope_k / package_telescope_k see nothing to check, and the witness escapes")
    n = 0
    for tyname, fn, h, m in _term_and_pattern_judgments(ctx, rule):
        if tyname != "Pattern":
            continue
        loc = ctx.facts.bodies()[fn]["loc"]
        for a in m["arms"]:
            subs = [c for c in H.walk(a["body"]) if H.kind(c) in ("Call", "MethodCall")
                    and (H.callee(c) or "").endswith("PatId> as zydeco_statics::check::Tyck<'a>>::tyck_k")]
            fresh = [c for c in H.walk(a["body"]) if H.kind(c) in ("Call", "MethodCall") and (H.callee(c) or "").endswith("PatternCheck::new")]
            if not subs:
                continue
            n += 1
            ctx.check(not fresh, rule, "pattern:%s:result" % A.pat_shape(a["pat"]).split("(")[0],
                      "the %s pattern checks sub-patterns and builds a result with PatternCheck::new (no opened witnesses): the existential "
                      "witnesses opened by its sub-patterns are forgotten, so they can escape their scope"
                      % A.pat_shape(a["pat"]).split("(")[0], [loc[0], (fresh[0].get("ln") if fresh else a["ln"])],
                      detail={"former": A.pat_shape(a["pat"]), "sub_judgments": len(subs)})
    ctx.floor(rule, "pattern formers with sub-patterns", n, 5)


def rule_sealed_intro(ctx):
    """looking through a seal to CHECK an introduction form must not change the type that is returned"""
    rule = "sealed-intro"
    ctx.rule(rule, "in the term judgment, an analysis arm that looks through a seal of its expected type to check the components of an "
                   "introduction form (reveal_or_refine_*_k on the expected type: tuples) returns the expected type itself, never a type "
                   "rebuilt from the component types: `def y : P = (1, 2)` with a sealed `def P = Int64 * Int64` would otherwise give `y` "
                   "the representation type, usable outside P's definition")
    n = 0
    for tyname, fn, h, m in _term_and_pattern_judgments(ctx, rule):
        if tyname != "Term":
            continue
        loc = ctx.facts.bodies()[fn]["loc"]
        for a in m["arms"]:
            for sm in H.walk(a["body"]):
                if not (H.kind(sm) == "Match" and not sm.get("src") and "check::Switch<" in (sm.get("scrut_ty") or "")):
                    continue
                for ia in sm["arms"]:
                    binds = [b for b in H.pat_bindings(ia["pat"]) if "syntax::TypeId" in (b.get("ty") or "")]
                    if not binds:
                        continue
                    reveals = [c for c in H.walk(ia["body"]) if H.kind(c) in ("Call", "MethodCall")
                               and re.search(r"::reveal_or_refine_\w*product\w*_k$", H.callee(c) or "")]
                    if not reveals:
                        continue
                    exp = binds[0]["local"]
                    # the product branch of the match on the revealed type
                    for pm in H.walk(ia["body"]):
                        if not (H.kind(pm) == "Match" and not pm.get("src") and any(r is y for r in reveals for y in H.walk(pm["scrut"]))):
                            continue
                        for pa in pm["arms"]:
                            if not A.pat_shape(pa["pat"]).startswith("Prod"):
                                continue
                            n += 1
                            outs = [c for c in H.walk(pa["body"]) if H.kind(c) in ("Call", "Struct") and
                                    re.search(r"TermAnnId::Value$", (H.callee(c) or "") if H.kind(c) == "Call" else "")]
                            env = A.ArmEnv()
                            env.strip = True
                            env.names[exp] = "$EXPECTED"
                            env.absorb(pa["body"])
                            tys_ = [A.sexpr(H.call_args(c)[1], env) for c in outs if len(H.call_args(c)) == 2]
                            # the node itself records the representation (a product of the component types): the back ends lay a
                            # tuple out by the annotation of its node (Lowerer::product_arity accepts Unit / Prod only) (F60)
                            allocs = [c for c in H.walk(pa["body"]) if H.kind(c) in ("Call", "MethodCall") and (H.callee(c) or "").endswith("::alloc")
                                      and len(H.call_args(c)) >= 3 and "ConsN" in A.sexpr(H.call_args(c)[1], env)]
                            anns = [A.sexpr(H.call_args(c)[2], env) for c in allocs]
                            ctx.check(bool(anns) and all(t != "$EXPECTED" and "syntax::Prod" in t for t in anns), rule,
                                      "term:%s:node-representation" % A.pat_shape(a["pat"]),
                                      "the %s judgment allocates the tuple node with the annotation %s: the lowering reads the layout of a "
                                      "tuple from its node's annotation and panics (`VCons must have Unit or product type`) when that is a "
                                      "sealed type such as `def Wrap = Int64 * Int64`; the node must record the product of the component "
                                      "types" % (A.pat_shape(a["pat"]), [t[:80] for t in anns]), [loc[0], pa["ln"]],
                                      detail={"former": A.pat_shape(a["pat"]), "node annotation": "rebuilt Prod spine"})
                            ctx.check(bool(tys_) and all(t == "$EXPECTED" for t in tys_), rule, "term:%s:returns-expected" % A.pat_shape(a["pat"]),
                                      "the %s judgment, checked against a (possibly sealed) product type, returns %s instead of the type it "
                                      "was checked against: a sealed product is given away as its representation"
                                      % (A.pat_shape(a["pat"]), [t[:100] for t in tys_]), [loc[0], pa["ln"]],
                                      detail={"former": A.pat_shape(a["pat"]), "returns": "expected"})
    ctx.floor(rule, "introduction arms that look through a seal", n, 1)


def rule_type_traversals(ctx):
    """substitution, hole resolution, final normalisation and the support collector reach every component of every type former"""
    from .. import trav
    rule = "type-traversals"
    ctx.rule(rule, "the structural passes over types -- subst_env (definitions), subst_absts (instantiation), resolve_holes (inferred "
                   "solutions), filled_norm_id (final normal forms) and TypeSupportCollector::visit (which witnesses / holes a type "
                   "mentions: the escape check of existentials) -- hand every TypeId component bound by the arm of a former to the "
                   "pass: a component that is skipped keeps a variable that should have been replaced, or hides a witness from the "
                   "escape check")
    NZ = "zydeco_statics::normalize::"

    def disp(h, env):
        ms = [m for m in H.walk(h["body"]) if H.kind(m) == "Match" and not m.get("src")
              and re.search(r"syntax::Type$", H.strip_refs(m["scrut"].get("ty") or ""))]
        return max(ms, key=lambda m: len(m["arms"])) if ms else None
    n = 0
    for fn, fam, extra in (
            (NZ + "<impl zydeco_statics::syntax::TypeId>::subst_env", r"::subst_env$", {}),
            (NZ + "<impl zydeco_statics::syntax::TypeId>::subst_absts", r"::subst_absts$", {}),
            (NZ + "<impl zydeco_statics::syntax::TypeId>::resolve_holes", r"HoleResolver::resolve$|::resolve_holes$", {}),
            (NZ + "<impl zydeco_statics::syntax::TypeId>::filled_norm_id", r"::filled_norm_id$", {}),
            (NZ + "TypeSupportCollector::visit", r"TypeSupportCollector::visit$", {"rest_ok": {"ManifestKind": "binder and definition are a kind pattern and a kind: no type component"}})):
        if fn not in ctx.facts.bodies():
            ctx.anchor_lost(rule, fn + " not found")
            continue
        n += trav.check_traversal(ctx, rule, fn, fam, r"statics::syntax::(TypeId|ExistsMode)\b", label=fn.split("::")[-1], dispatch=disp,
                                  allow_default=True, **extra)
    ctx.floor(rule, "type components handed to their pass", n, 90)


def rule_shape_assumptions(ctx):
    """the term judgment may destructure a type without a diagnostic only where it has just forced that shape"""
    rule = "shape-assumptions"
    facts = ctx.facts
    ctx.rule(rule, "in the term and pattern judgments, a `let <former>(..) = type_filled_k(T) else { unreachable!() }` (a type taken "
                   "apart with no diagnostic) is allowed only where T is the result of Lub::lub_k against, or of analysing a sub-term "
                   "against (`Action::ana*`), a type the same arm built with that head (thk_hole / ret_hole / cs::Thk / cs::Ret): a "
                   "type that comes from synthesis or from a user annotation can have any shape, so the site would crash or, worse, "
                   "accept the argument of an unrelated type application")
    n = 0
    for suffix, tyname in (("bitter::syntax::TermId> as zydeco_statics::check::Tyck<'a>>::tyck_inner_k", "Term"),
                           ("bitter::syntax::PatId> as zydeco_statics::check::Tyck<'a>>::tyck_inner_k", "Pattern")):
        fn = next((p for p in facts.bodies() if p.endswith(suffix)), None)
        if fn is None:
            ctx.anchor_lost(rule, "%s not found" % suffix)
            continue
        h = ctx.need_hir(rule, fn)
        loc = facts.bodies()[fn]["loc"]
        ms = [m for m in H.walk(h["body"]) if H.kind(m) == "Match" and not m.get("src")
              and re.search(r"bitter::syntax::%s\b" % tyname, H.strip_refs(m["scrut"].get("ty") or ""))]
        if not ms:
            ctx.anchor_lost(rule, "%s: dispatch not found" % fn)
            continue
        m = max(ms, key=lambda x: len(x["arms"]))
        for a in m["arms"]:
            shape_calls = [c for _, c in H.calls(a["body"]) if re.search(r"::(thk_hole|ret_hole|thk_arg|ret_arg)$", c)
                           or re.search(r"construct::syntax::(Thk|Ret)<.*Construct<.*>>::build$", c)]
            for x in H.walk(a["body"]):
                if not (H.kind(x) == "Let" and x.get("els") is not None and isinstance(x.get("init"), dict)
                        and re.search(r"zydeco_statics::syntax::Type$", tys.strip_refs(x["init"].get("ty", "")))
                        and H.exits_by_panic_only(x["els"])):
                    continue
                n += 1
                env = A.ArmEnv()
                env.strip = True
                env.bind_params(h)
                env.bind_pat(A.strip_or(a["pat"]))
                env.absorb(a["body"])
                sx = A.sexpr(x["init"], env)
                forced = re.search(r"Lub(>|)::lub_k ", sx) or re.search(r"Tyck<'a>>::tyck_k .*\(zydeco_statics::check::\w*Action(::<\w+>)?::(ana|ana_prepared) ", sx)
                inst = "%s:%s:%s" % (tyname, A.pat_shape(a["pat"]), A.pat_shape(x["pat"]))
                ctx.check(bool(forced) and bool(shape_calls), rule, inst,
                          "%s arm %s takes a type apart as %s with `else { unreachable!() }`, but that type is %s: it is not the result "
                          "of a lub / analysis against a shape built in this arm (%s), so a program can reach the panic or have an "
                          "unrelated type application accepted" % (tyname, A.pat_shape(a["pat"]), A.pat_shape(x["pat"]), sx[:200],
                                                                   [c.split("::")[-1] for c in shape_calls] or "none built"),
                          [loc[0], x["ln"]], detail={"arm": A.pat_shape(a["pat"]), "forced_by": "lub_k" if "lub_k" in sx else "ana"})
    ctx.floor(rule, "panic-only type destructurings in the judgments", n, 4)


def run(ctx):
    lubarms.check_lub(ctx, "equality")
    c01.rule_err(ctx)
    rule_sort_helpers(ctx)
    rule_sort_matches(ctx)
    rule_sealing(ctx)
    c01.rule_judgments(ctx)
    c01.rule_expected_type(ctx)
    c01.rule_branch_join(ctx)
    c01.rule_declaration_lookup(ctx)
    rule_binder_shadowing(ctx)
    rule_shape_assumptions(ctx)
    rule_leaf_pattern_kind(ctx)
    rule_opened_skolems(ctx)
    rule_sealed_intro(ctx)
    rule_seal_opening(ctx)
    rule_type_traversals(ctx)
    ctx.rule("normalisation", "type-level beta-normalisation performs the audited steps: an application is unfolded into its whole "
                              "left-associated spine, the head AND every argument of the spine are normalised, abstractions consume "
                              "their arguments by substitution (fused when the whole head chain is abstractions), a stuck head keeps "
                              "the application, a projection of a labelled type reduces; every other former is its own normal form "
                              "(rules/golden_normalize.json)")
    golden.check(ctx, "normalisation", "golden_normalize.json")
    ctx.assume("completeness, the exact diagnostic kind, inference and expected-type preparation are NOT decided")
    return {}


def _seal_opening_sites(facts):
    """(key -> count, key -> loc): calls that open a sealed definition (unroll / unroll_k / reveal_*) in the judgments of check/"""
    from . import c01
    seen, locs = {}, {}
    for fn, bd in sorted(facts.bodies().items()):
        f0 = bd["loc"][0]
        if not f0.startswith("lang/statics/src/check/") or "::tests::" in fn or "{closure" in fn or f0.endswith(("error.rs", "lub.rs")):
            continue
        h = facts.hir(fn)
        if not h:
            continue
        owner = c01._short_owner(fn)
        par = c01._parents(h["body"])

        def arm_of(x):
            out, cur = [], x
            while id(cur) in par:
                p = par[id(cur)]
                if H.kind(p) == "Match" and not p.get("src"):
                    for a in p["arms"]:
                        if a is cur or a["body"] is cur or a.get("guard") is cur:
                            out.append(re.sub(r"[({].*", "", A.pat_shape(a["pat"]).split("|")[0]))
                cur = p
            return "/".join(reversed(out))[:70]
        for c in H.walk(h["body"]):
            if H.kind(c) not in ("Call", "MethodCall"):
                continue
            cal = H.callee(c) or ""
            m = re.search(r"::(unroll|unroll_k|unroll_opening|reveal_k|reveal_or_refine_\w+)$", cal)
            if not m:
                continue
            key = "%s:%s:%s" % (owner, arm_of(c), m.group(1))
            seen[key] = seen.get(key, 0) + 1
            locs.setdefault(key, [f0, c.get("ln")])
    return seen, locs


def rule_seal_opening(ctx):
    import json
    import os
    rule = "seal-opening"
    facts = ctx.facts
    ctx.rule(rule, "a `def`-sealed type is opaque outside its definition: the judgments of check/ look through a seal (unroll / unroll_k / "
                   "reveal_*) only at the inventoried places — function, enclosing former arms, callee "
                   "(rules/seal_opening_sites.json: the tree's declared behaviour; e.g. tuples, packages, constructors, comatch and "
                   "copattern clauses open the expected type, `fn` at a computation type does NOT). A NEW opening site is reported: it "
                   "makes a former usable through a seal that hid it (`def Step : CType = Int64 -> Ret Int64`, `{ fn x => ret x } : Thk "
                   "Step` accepted)")
    path = os.path.join(os.path.dirname(os.path.dirname(os.path.dirname(os.path.dirname(os.path.abspath(__file__))))), "rules", "seal_opening_sites.json")
    try:
        table = json.load(open(path))
    except OSError:
        ctx.anchor_lost(rule, "rules/seal_opening_sites.json missing")
        return
    seen, locs = _seal_opening_sites(facts)
    for key, cnt in sorted(seen.items()):
        want = table.get(key)
        if want is None or cnt > want:
            ctx.violation(rule, key + (":extra" if want else ""), "the checker opens a sealed definition at a place that is not in the inventory "
                          "(%s, %d site(s), %d inventoried): the former of that arm becomes usable through a `def` seal"
                          % (key, cnt, want or 0), locs[key])
        else:
            ctx.ok(rule, key, {"sites": cnt})
    ctx.floor(rule, "seal-opening sites classified", sum(seen.values()), 20)
    # copattern clauses open the expected type for DESTRUCTORS (a sealed codata type is only named by its seal); the function formers
    # are taken from the type as written (F69)
    fn = "zydeco_statics::check::copattern::CopatternElaborator::elaborate_k"
    h = facts.hir(fn)
    if h is None:
        ctx.anchor_lost(rule, fn + " not found")
    else:
        env = A.ArmEnv(); env.strip = True; env.bind_params(h); env.absorb(h["body"])
        written = [A.sexpr(c, env) for c in H.walk(h["body"]) if H.kind(c) in ("Call", "MethodCall") and re.search(r"::normalize(_k)?$", H.callee(c) or "")]
        as_written = any("unroll" not in w and re.search(r"\(\. \$P0 expected\)", w) for w in written)
        rejects = any(H.kind(x) == "Struct" and (x["path"].get("def") or "").endswith("TyckError::TypeExpected") for x in H.walk(h["body"]))
        ctx.check(as_written and rejects, rule, "copattern:function-formers-as-written", "the copattern elaborator chooses Arrow / Forall / PackPi from "
                  "the UNROLLED expected type only (written view: %s, TypeExpected: %s): `{ comatch | x => ret x end } : Thk F` with `def F : CType "
                  "= Int64 -> Ret Int64` is accepted although the seal hides the arrow (`{ fn x => ret x }` is rejected)" % (as_written, rejects),
                  facts.bodies()[fn]["loc"], detail={"function formers": "taken from the normalized, not unrolled, expected type"})
