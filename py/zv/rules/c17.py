"""C17 — concurrent analyses on snapshots (sharing, atomicity, lock order/scope, cancellation table)."""
import re

from .. import armlib as A
from .. import hirlib as H
from .. import mirlib as M
from .. import tys

EXPLANATION = (
    "Interleavings are not explored. Decided from types, MIR and HIR: (1) inventory of process-wide state (statics, "
    "thread_locals): every interior-mutable static is in the audited table; (2) the key-space counter is touched by a "
    "single atomic read-modify-write (fetch_update with checked_add, no separate load/store) and KeySpaceId / "
    "IdAllocator cannot be forged or duplicated (private fields, no Clone/Copy, constructed only by the listed "
    "functions); (3) session state shared with snapshots is Arc-shared, and a slot that is set and taken in two "
    "critical sections is reported; (4) in cajun, every async fn acquires {session, projects} in that order, holds no "
    "guard across spawn_blocking, reads the revision before taking the snapshot and re-checks it under the session "
    "lock before publishing; (5) AnalysisTask::run maps exactly Cancelled::{Local, PendingWrite} to Cancelled and "
    "resumes every other payload."
)

STATIC_TABLE = {
    "zydeco_utils::arena::KeySpaceId::fresh::NEXT_KEY_SPACE_ID":
        "process-wide id-space counter; touched only by KeySpaceId::fresh through one fetch_update (rule key-space)",
}
WRITE_ONCE = ("std::sync::once_lock::OnceLock", "std::sync::lazy_lock::LazyLock", "core::cell::once::OnceCell")
MUTABLE = re.compile(r"(atomic::Atomic|Mutex|RwLock|RefCell|core::cell::Cell|UnsafeCell|DashMap|OnceLock|LazyLock|OnceCell)")

KEYSPACE = "zydeco_utils::arena::KeySpaceId"
KEYSPACE_MAKERS = ("zydeco_utils::arena::KeySpaceId::fresh", "zydeco_utils::arena::KeySpaceId::derive",
                   "zydeco_utils::arena::CompactKeySpaceId::expand")
SESSION = "zydeco_session::source::query::CompilerSession"


def run(ctx):
    facts = ctx.facts
    # ---- (1) statics inventory -----------------------------------------------------------------------------
    rule = "global-state"
    ctx.rule(rule, "every `static` / thread_local with interior mutability in the workspace is in the audited table "
                   "(write-once cells of derive macros excepted)")
    n = 0
    for s in facts.statics():
        n += 1
        t = s["ty"]
        generated = bool(s.get("expn")) and s["def"] not in STATIC_TABLE
        inst = s["def"]
        if s["mut"]:
            ctx.violation(rule, inst, "`static mut` %s" % inst, s["loc"])
            continue
        if not MUTABLE.search(t):
            ctx.ok(rule, inst, {"static": inst, "type": t[:80], "class": "immutable"})
            continue
        if tys.head(t) in WRITE_ONCE:
            ctx.ok(rule, inst, {"static": inst, "type": t[:80], "class": "write-once"})
            continue
        if generated or "salsa" in t or "salsa" in inst:
            ctx.ok(rule, inst, {"static": inst, "class": "macro-generated (salsa/clap) registration cell"})
            continue
        ctx.check(inst in STATIC_TABLE, rule, inst,
                  "process-wide mutable state `%s: %s` is not in the audited table: concurrent analyses would share it"
                  % (inst, t), s["loc"], detail={"static": inst, "type": t, "audited": STATIC_TABLE.get(inst)})
    ctx.floor(rule, "statics inspected", n, 4)
    # ---- (2) key-space counter and allocator identity ---------------------------------------------------------
    rule = "key-space"
    ctx.rule(rule, "NEXT_KEY_SPACE_ID is referenced only by KeySpaceId::fresh, which performs one fetch_update whose "
                   "closure is a checked_add(1); KeySpaceId and IdAllocator have private fields, are built only by the "
                   "listed constructors, and IdAllocator is neither Clone nor Copy")
    fresh = "zydeco_utils::arena::KeySpaceId::fresh"
    b = ctx.need_mir(rule, fresh)
    atomic_calls = [t["fn"] for _, t in b.calls() if "core::sync::atomic::" in t["fn"]]
    ctx.check(atomic_calls and all(c.endswith("::fetch_update") for c in atomic_calls), rule, "fresh:rmw",
              "KeySpaceId::fresh touches the counter with %s (a separate load/store pair can issue one id twice)"
              % atomic_calls, facts.bodies()[fresh]["loc"], detail={"atomic_ops": atomic_calls})
    clo = facts.mir(fresh + "::{closure#0}")
    ok = False
    if clo is not None:
        cb = M.Body(fresh + "::{closure#0}", clo)
        ok = any(t["fn"].endswith("::checked_add") for _, t in cb.calls())
    ctx.check(ok, rule, "fresh:checked_add", "the fetch_update closure is not a checked_add (wrap-around would reuse ids)",
              facts.bodies()[fresh]["loc"], detail={"closure": "checked_add"})
    # references to the static
    refs = set()
    for tag in facts.tags():
        if not tag.startswith("zydeco_utils"):
            continue
        for path in [bd["def"] for bd in facts.index(tag)["bodies"]]:
            m = facts.mir(path)
            if m is None:
                continue
            txt = None
            for blk in m["blocks"]:
                for st in blk["s"]:
                    for o in st["rv"].get("ops", []):
                        k = M.op_const(o)
                        if k and k.get("static", "").endswith("NEXT_KEY_SPACE_ID"):
                            refs.add(path)
                t = blk["t"]
                for o in t.get("args", []) if t["k"] == "call" else []:
                    k = M.op_const(o)
                    if k and k.get("static", "").endswith("NEXT_KEY_SPACE_ID"):
                        refs.add(path)
    ctx.check(refs and refs <= {fresh}, rule, "counter-users",
              "NEXT_KEY_SPACE_ID is referenced by %s" % sorted(refs), None, detail={"referenced_by": sorted(refs)})
    # who may construct KeySpaceId
    makers = set()
    for tag in facts.tags():
        for a in facts.index(tag).get("aggs", []):
            if a.get("adt") == KEYSPACE and not (a.get("expn") and a["expn"][0] in ("Clone", "Debug")):
                makers.add(a["fn"].split("::{closure")[0])
    extra = sorted(makers - set(KEYSPACE_MAKERS))
    ctx.check(not extra and makers, rule, "keyspace-constructors",
              "KeySpaceId is also constructed in %s (an arbitrary id space can collide with a fresh one)" % extra, None,
              detail={"constructed_in": sorted(makers)})
    for adt_path in (KEYSPACE, "zydeco_utils::arena::IdAllocator"):
        adt = facts.adts().get(adt_path)
        if adt is None:
            ctx.anchor_lost(rule, "%s not found" % adt_path)
            continue
        pubf = [f["name"] for f in adt["variants"][0]["fields"] if f["pub"]]
        ctx.check(not pubf, rule, "%s:private-fields" % adt_path.rsplit("::", 1)[-1],
                  "%s has public fields %s: it can be forged outside its module" % (adt_path, pubf), adt["loc"],
                  detail={"type": adt_path, "public_fields": pubf})
    clone_impls = [i for i in facts.impls() if i["trait"] in ("core::clone::Clone", "core::marker::Copy")
                   and tys.head(i["self"]) == "zydeco_utils::arena::IdAllocator"]
    ctx.check(not clone_impls, rule, "IdAllocator:not-clone",
              "IdAllocator implements Clone/Copy: two copies issue the same ids", clone_impls[0]["loc"] if clone_impls else None,
              detail={"clone_or_copy_impls": 0})
    alloc = next((p for p in facts.bodies() if p.startswith("zydeco_utils::arena::IdAllocator::<") and p.endswith("::alloc")), None)
    if alloc is None:
        ctx.anchor_lost(rule, "IdAllocator::alloc not found")
    else:
        params = facts.bodies()[alloc].get("params", [])
        ctx.check(bool(params) and params[0].startswith("&mut "), rule, "IdAllocator:alloc-exclusive",
                  "IdAllocator::alloc does not take &mut self (%s)" % params, facts.bodies()[alloc]["loc"],
                  detail={"receiver": params[:1]})
    # ---- (3) session sharing and the pending slot ---------------------------------------------------------------
    rule = "session-sharing"
    ctx.rule(rule, "state of the session that is mutated through &self is Arc-shared with snapshots; a slot that is "
                   "written and consumed in two separate critical sections is reported")
    adt = facts.adts().get(SESSION)
    if adt is None:
        ctx.anchor_lost(rule, "CompilerSession not found")
    else:
        for f in adt["variants"][0]["fields"]:
            t = f["ty"]
            if tys.head(t) == "salsa::storage::Storage":
                continue
            if MUTABLE.search(t):
                ctx.check(tys.head(t) == "alloc::sync::Arc", rule, "CompilerSession.%s" % f["name"],
                          "`%s: %s` is deep-cloned into each snapshot while the salsa storage is shared" % (f["name"], t),
                          adt["loc"], detail={"field": f["name"], "type": t[:100]})
    cr = "zydeco_session::source::query::CompilerSession::check_resolved"
    if cr in facts.bodies():
        b = ctx.need_mir(rule, cr)
        locks = [bb for bb, t in b.calls() if t["fn"].endswith("Mutex::<T>::lock")]
        interns = [bb for bb, t in b.calls() if t["fn"].endswith("query::intern_pending")]
        # the guard taken in check_resolved is a temporary dropped before intern_pending runs its own lock()
        if locks and interns:
            ctx.violation(rule, "pending-slot:set-then-take",
                          "check_resolved stores the pending parts under one lock and intern_pending takes them under "
                          "another: two snapshot threads can exchange programs", facts.bodies()[cr]["loc"])
    # ---- (4) cajun lock discipline -----------------------------------------------------------------------------------
    rule = "lock-order"
    ctx.rule(rule, "cajun async fns acquire `session` before `projects` whenever both are held, never hold a guard "
                   "across spawn_blocking, read the document revision before taking the snapshot, and commit only after "
                   "re-checking the revision under the session lock")
    n_fns = 0
    for path, bd in sorted(facts.bodies().items()):
        if not (path.startswith("cajun::Cajun::") or path.startswith("<cajun::Cajun as ")) or "{closure" in path:
            continue
        h = facts.hir(path)
        if h is None:
            continue
        acq = _acquisitions(h["body"])
        if not acq:
            continue
        n_fns += 1
        ctx.fn(path)
        _check_lock_fn(ctx, rule, path, h["body"], acq, bd)
    ctx.floor(rule, "cajun functions acquiring session/projects", n_fns, 5)
    _check_refresh(ctx, rule)
    _check_commit(ctx, rule)
    # ---- (5) cancellation table ----------------------------------------------------------------------------------------
    rule = "cancellation"
    ctx.rule(rule, "AnalysisTask::run: Ok -> Completed, Err(Cancelled::Local | Cancelled::PendingWrite) -> Cancelled, any "
                   "other payload is resumed; Cancelled::catch is the only unwind catcher on the analysis path")
    run_fn = next((p for p in facts.bodies() if p.startswith("cajun::AnalysisTask::<") and p.endswith("::run")), None)
    if run_fn is None:
        ctx.anchor_lost(rule, "AnalysisTask::run not found")
    else:
        h = ctx.need_hir(rule, run_fn)
        m = next((n for n in H.walk(h["body"]) if H.kind(n) == "Match" and not n.get("src")), None)
        ok = False
        detail = {}
        if m is not None and (H.callee(H.peel(m["scrut"])) or "").endswith("Cancelled::catch"):
            table = {}
            for a in m["arms"]:
                vs = tuple(sorted(v.split("::")[-1] for v in H.pat_variants(a["pat"])))
                body = H.peel(a["body"])
                c = H.callee(body) or H.path_def(body) or ""
                table[vs] = c.split("::")[-1]
            detail = {"arms": {",".join(k): v for k, v in table.items()}}
            ok = (table.get(("Ok",)) == "Completed"
                  and table.get(("Err", "Local", "PendingWrite")) == "Cancelled"
                  and table.get(("Err",)) == "resume_unwind")
        ctx.check(ok, rule, "AnalysisTask::run", "cancellation table differs from {Ok->Completed, Err(Local|PendingWrite)->"
                  "Cancelled, other->resume_unwind}: %s" % detail, facts.bodies()[run_fn]["loc"], detail=detail)
    ctx.assume("tokio Mutex/RwLock guards are released at end of scope; salsa cancels readers on write (Cancelled)")
    ctx.assume("schedules are NOT explored: freedom from data races is Rust's type system, atomicity of the listed "
               "critical sections is argued from lock scope")
    rule_revision_source(ctx)
    rule_publication(ctx)
    rule_registry_atomic(ctx)
    rule_guard_across_write(ctx)
    rule_snapshot_shares(ctx)
    return {}


LOCK_FIELDS = {"session": ("lock",), "projects": ("read", "write")}


def rule_registry_atomic(ctx):
    """the registry of source inputs, shared by the owner and every snapshot, is only ever extended atomically"""
    rule = "registry-atomic"
    facts = ctx.facts
    ctx.rule(rule, "CompilerSession::files (Arc<DashMap>, shared with every snapshot) gains an entry only through the entry API "
                   "(`entry(k)` then `VacantEntry::insert`): no `DashMap::insert` / `remove` / `alter` / `retain` / `clear`, because a "
                   "look-up followed by a separate insert lets two registrations of one file race; the loser's SourceInput is "
                   "replaced while memoized queries still depend on it, and that root is analysed against text nobody edits")
    ct = facts.calls_to()
    n = 0
    for k, cs in sorted(ct.items()):
        if not k.startswith("dashmap::"):
            continue
        op = k.rsplit("::", 1)[-1]
        for c in cs:
            fr = c["from"].split("::{closure")[0]
            if not ("zydeco_session" in fr or fr.startswith("cajun")) or "::tests::" in fr:
                continue
            n += 1
            whole_map = k.startswith("dashmap::DashMap::<")
            bad = whole_map and op in ("insert", "remove", "remove_if", "alter", "alter_all", "retain", "clear", "get_mut", "iter_mut")
            ctx.check(not bad, rule, "%s:%s" % (M.short_fn(fr) if hasattr(M, "short_fn") else fr.split("::")[-1], op),
                      "%s calls DashMap::%s on the shared registry of source inputs: registrations must go through `entry(..)` so that "
                      "concurrent registrations of one file agree on ONE SourceInput" % (fr, op), c.get("loc"),
                      detail={"operation": k.split("dashmap::")[-1][:60]})
    ctx.floor(rule, "DashMap operations in the session / server", n, 5)


def rule_revision_source(ctx):
    """Revisions are compared across close/reopen of the same path (commit_analysis), so they must never repeat."""
    from .. import armlib as A
    rule = "revision-source"
    facts = ctx.facts
    ctx.rule(rule, "DocumentRevision values are built only in SessionState::set_document from the session-wide counter "
                   "next_document_revision, which is only ever advanced (checked_add(1) in set_document, a literal in Default): a "
                   "revision is never reused for a path that was closed and reopened")
    sites = []
    for p, bd in sorted(facts.bodies().items()):
        if bd["tag"] not in ("cajun",) or bd.get("expn"):
            continue
        h = facts.hir(p)
        if h is None:
            continue
        env = A.ArmEnv(); env.strip = True; env.bind_params(h)
        for n in H.walk(h["body"]):
            if H.kind(n) == "Call" and (H.callee(n) or "").endswith("DocumentRevision") and (n.get("ty") or "").endswith("DocumentRevision"):
                sites.append((p.split("::{closure")[0], A.sexpr(n["args"][0], env), n.get("ln")))
            if H.kind(n) == "Struct" and (n["path"].get("def") or "").endswith("DocumentRevision"):
                sites.append((p.split("::{closure")[0], "struct", n.get("ln")))
    consts = [p for p in facts.bodies() if p.startswith("cajun::") and "DocumentRevision" in p and facts.bodies()[p].get("kind") in ("const", "assoc_const", "AssocConst", "Const")]
    ok = bool(sites) and all(f.endswith("SessionState::set_document") and v == "(. $P0 next_document_revision)" for f, v, _ in sites) and not consts
    ctx.check(ok, rule, "DocumentRevision:producers", "DocumentRevision is built at %s (constants: %s); expected only DocumentRevision("
              "self.next_document_revision) in SessionState::set_document: a per-document or restarted counter lets an analysis of the "
              "closed document commit under the reopened document's revision" % ([(f.split("::")[-1], v) for f, v, _ in sites], consts),
              None, detail={"producers": [(f.split("::")[-1], v) for f, v, _ in sites]})
    writes = []
    for p, bd in sorted(facts.bodies().items()):
        if bd["tag"] != "cajun":
            continue
        h = facts.hir(p)
        if h is None:
            continue
        env = A.ArmEnv(); env.strip = True; env.bind_params(h)
        for n in H.walk(h["body"]):
            if H.kind(n) in ("Assign", "AssignOp") and H.kind(H.peel(n["l"])) == "Field" and H.peel(n["l"])["name"] == "next_document_revision":
                writes.append((p.split("::")[-1], A.sexpr(n["r"], env)))
    ok = len(writes) == 1 and writes[0][0] == "set_document" and \
        re.match(r"^\(core::option::Option::<T>::expect \(core::num::<impl u64>::checked_add \(\. \$P0 next_document_revision\) 1\) ", writes[0][1]) is not None
    ctx.check(ok, rule, "counter:advance-only", "next_document_revision is written by %s; expected one checked_add(1) in set_document" % writes,
              None, detail={"writes": writes})


def rule_publication(ctx):
    """What the server tells the client about an analysis that did not complete, and under which version."""
    from .. import armlib as A
    rule = "publication"
    facts = ctx.facts
    ctx.rule(rule, "analyze_and_publish publishes nothing for a Superseded (cancelled / overtaken) analysis; the revision an edit handler "
                   "analyses and commits under is the one its own set_document installed (handed down), not one re-read later in a "
                   "separate critical section")
    fn = "cajun::Cajun::analyze_and_publish" if "cajun::Cajun::analyze_and_publish" in facts.bodies() else None
    if fn is None:
        ctx.anchor_lost(rule, "analyze_and_publish not found")
        return
    h = ctx.need_hir(rule, fn)
    loc = facts.bodies()[fn]["loc"]
    m = None
    for x in H.walk(h["body"]):
        if H.kind(x) == "Match" and not x.get("src") and any(v.endswith("RefreshOutcome::Superseded") for a in x["arms"] for v in H.pat_variants(a["pat"])) \
                and len(x["arms"]) >= 3:
            m = x
    if m is None:
        ctx.anchor_lost(rule, "analyze_and_publish: match on the refresh outcome not found")
        return
    sup = next(a for a in m["arms"] if any(v.endswith("RefreshOutcome::Superseded") for v in H.pat_variants(a["pat"])))
    body = H.peel(sup["body"])
    is_none = H.kind(body) == "Path" and (body.get("res", {}).get("def") or "").endswith("Option::None")
    silent = H.diverges(sup["body"]) or H.kind(body) == "Ret" or is_none
    publishes = any(c.endswith("::publish_diagnostics") for _, c in H.calls(h["body"]))
    if not silent and publishes:
        ctx.violation(rule, "superseded:published-as-empty", "analyze_and_publish maps a Superseded analysis to an empty diagnostics list and "
                      "publishes it: any overlay install cancels every running analysis on the shared storage, so opening an unrelated "
                      "document clears the errors of this one and nothing re-analyses it", [loc[0], sup.get("ln")])
    else:
        ctx.ok(rule, "superseded:silent", {"superseded": "nothing published"})
    # the revision analysed: read in refresh_with_progress under its own lock acquisition
    fn2 = "cajun::Cajun::refresh_with_progress"
    h2 = ctx.need_hir(rule, fn2)
    rereads = [n for n, c in H.calls(h2["body"]) if c.endswith("SessionState::revision")] if fn2 in facts.bodies() else []
    setdoc = "cajun::Cajun::set_document"
    fn2b = "cajun::Cajun::refresh_revision"
    returns_rev = fn2b in facts.bodies() and setdoc in facts.bodies() and "DocumentRevision" in (facts.bodies()[setdoc].get("ret") or "")
    if rereads and not returns_rev:
        ctx.violation(rule, "revision:re-read-after-install", "did_open / did_change install the text in one critical section (set_document) and "
                      "refresh_with_progress reads the revision to analyse in another: an edit arriving in between makes the handler of "
                      "version N analyse, commit and publish the text of version N+1 labelled `version: N`", [facts.bodies()[fn2]["loc"][0], rereads[0].get("ln")])
    else:
        ctx.ok(rule, "revision:handed-down", {"revision": "returned by set_document"})


def _acquisitions(body):
    out = []
    idx = {}
    for i, n in enumerate(H.walk(body)):
        idx[id(n)] = i
        if H.kind(n) == "MethodCall" and H.kind(H.peel(n["recv"])) == "Field":
            f = H.peel(n["recv"])
            if f["name"] in LOCK_FIELDS and n["name"] in LOCK_FIELDS[f["name"]] and "tokio::sync" in (n.get("fn") or ""):
                out.append((i, f["name"], n["name"], n))
    return out


def _live_ranges(body, acq):
    """For each acquisition: (start, end) pre-order index range during which its guard is live: to the end of the
    enclosing block when bound by `let`, else to the end of the enclosing statement."""
    order = list(H.walk(body))
    idx = {id(n): i for i, n in enumerate(order)}
    last = {}
    parent = {}
    stack = [(body, None)]
    while stack:
        n, p = stack.pop()
        if not isinstance(n, dict):
            continue
        parent[id(n)] = p
        for c in H.children(n):
            stack.append((c, n))
    for n in reversed(order):
        l = last.get(id(n), idx[id(n)])
        last[id(n)] = l
        p = parent[id(n)]
        if p is not None:
            last[id(p)] = max(last.get(id(p), 0), l)
    ranges = []
    for i, field, meth, node in acq:
        p = parent[id(node)]
        cur = node
        end = last[id(node)]
        while p is not None:
            k = H.kind(p)
            if k == "Let" and p.get("init") is not None and _contains(p["init"], node):
                blk = parent[id(p)]
                # a guard consumed by a method chain (`.lock().await.source(path)`) is a temporary
                init = H.peel(p["init"])
                bound_is_guard = "Guard" in (p["pat"].get("ty") or "")
                end = last[id(blk)] if (blk is not None and bound_is_guard) else last[id(p)]
                break
            if k in ("Semi", "Expr"):
                end = last[id(p)]
                break
            if (k == "Block" or (k is None and "stmts" in p)) and p.get("expr") is cur:
                end = last[id(p)]
            cur = p
            p = parent[id(p)]
        ranges.append((i, end, field, meth, node))
    return ranges, idx


def _contains(tree, node):
    for n in H.walk(tree):
        if n is node:
            return True
    return False


def _check_lock_fn(ctx, rule, path, body, acq, bd):
    ranges, idx = _live_ranges(body, acq)
    # order: while a `projects` guard is live no `session` lock may be acquired
    bad = []
    for (s1, e1, f1, m1, n1) in ranges:
        for (s2, e2, f2, m2, n2) in ranges:
            if n1 is n2:
                continue
            if s1 < s2 <= e1 and f1 == "projects" and f2 == "session":
                bad.append("acquires `session` (line %s) while holding `projects` (line %s)" % (n2.get("ln"), n1.get("ln")))
            if s1 < s2 <= e1 and f1 == f2 and not (m1 == "read" and m2 == "read"):
                bad.append("re-acquires `%s` (line %s) while already holding it (line %s): self-deadlock"
                           % (f1, n2.get("ln"), n1.get("ln")))
    # no guard live across spawn_blocking
    for i, n in enumerate(H.walk(body)):
        if H.kind(n) == "Call" and (H.callee(n) or "").endswith("spawn_blocking"):
            for (s1, e1, f1, m1, n1) in ranges:
                if s1 < i <= e1:
                    bad.append("holds the `%s` guard across spawn_blocking" % f1)
    name = path.rsplit("::", 1)[-1] if not path.startswith("<") else path.split(">::")[-1]
    ctx.check(not bad, rule, "%s" % name, "%s: %s" % (path, "; ".join(sorted(set(bad)))), bd["loc"],
              detail={"fn": path, "acquisitions": ["%s.%s" % (f, m) for _, _, f, m, _ in ranges]})


def _check_refresh(ctx, rule):
    """The snapshot analysed must hold the text of the revision the result is committed under."""
    fn = "cajun::Cajun::refresh_revision"
    if fn not in ctx.facts.bodies():
        ctx.anchor_lost(rule, "refresh_revision not found")
        return
    h = ctx.need_hir(rule, fn)
    loc = ctx.facts.bodies()[fn]["loc"]
    # the block that takes the snapshot: `{ let session = lock; if session.revision(&path) != revision { return Superseded }; snapshot() }`
    blk = None
    for n in H.walk(h["body"]):
        if H.kind(n) == "Block" and n.get("expr") is not None and (H.callee(H.peel(n["expr"])) or "").endswith("CompilerSession::snapshot"):
            blk = n
    if blk is None:
        ctx.anchor_lost(rule, "refresh_revision: snapshot block not found")
        return
    locks = [x for x in H.walk(blk) if H.kind(x) == "MethodCall" and x["name"] == "lock"]
    tests = []
    for st in blk.get("stmts", []):
        for x in H.walk(st):
            if H.kind(x) == "If":
                c = H.peel(x["c"])
                sides = [(H.callee(H.peel(y)) or "") for y in (c.get("a"), c.get("b")) if isinstance(y, dict)] if H.kind(c) == "Binary" else []
                rets = [r for r in H.walk(x["t"]) if H.kind(r) == "Ret"]
                if H.kind(c) == "Binary" and c["op"] == "Ne" and any(s2.endswith("SessionState::revision") for s2 in sides) \
                        and any("RefreshOutcome::Superseded" in str(r.get("e")) for r in rets):
                    tests.append(x)
    ctx.check(len(locks) == 1 and len(tests) == 1, rule, "refresh:snapshot-of-the-revision",
              "refresh_revision does not take the snapshot in the critical section in which it tests that the document is still at the "
              "revision to be analysed (locks %d, revision tests returning Superseded %d): the snapshot could hold newer text than the "
              "revision the result is committed and published under" % (len(locks), len(tests)), loc,
              detail={"critical_section": ["lock", "revision == revision to analyse", "snapshot"]})
    order = []
    for n in H.walk(h["body"]):
        c = H.callee(n) if H.kind(n) in ("Call", "MethodCall") else None
        if c and c.endswith("CompilerSession::snapshot"):
            order.append("snapshot")
        if c and c.endswith("spawn_blocking"):
            order.append("spawn_blocking")
    ctx.check(order[:2] == ["snapshot", "spawn_blocking"], rule, "refresh:snapshot-before-analysis", "refresh_revision: %s" % order, loc,
              detail={"order": order})
    # the revision analysed is the installed one when the caller installed text
    env_src = [x for x in H.walk(h["body"]) if H.kind(x) == "Match" and not x.get("src") and H.path_local(x["scrut"]) is not None
               and any(v.endswith("Option::Some") for a in x["arms"] for v in H.pat_variants(a["pat"]))]
    ctx.check(bool(env_src), rule, "refresh:installed-revision", "refresh_revision no longer prefers the revision installed by the calling "
              "edit handler over a re-read", loc, detail={"revision": "installed.or(current)"})
    for hfn in ("did_open", "did_change"):
        p = next((x for x in ctx.facts.bodies() if x.endswith("LanguageServer>::%s" % hfn) and "{closure" not in x), None)
        if p is None:
            ctx.anchor_lost(rule, "%s not found" % hfn)
            continue
        hh = ctx.need_hir(rule, p)
        from .. import armlib as A
        env = A.ArmEnv(); env.strip = True; env.bind_params(hh); env.absorb(hh["body"])
        ok = False
        for n in H.walk(hh["body"]):
            if H.kind(n) == "MethodCall" and n["name"] == "analyze_and_publish":
                arg = A.sexpr(n["args"][2], env)
                ok = "cajun::Cajun::set_document" in arg
        ctx.check(ok, rule, "%s:hands-down-revision" % hfn, "%s does not pass the revision returned by its own set_document to "
                  "analyze_and_publish" % hfn, ctx.facts.bodies()[p]["loc"], detail={"handler": hfn})


def _check_commit(ctx, rule):
    fn = "cajun::Cajun::commit_analysis"
    h = ctx.need_hir(rule, fn)
    acq = _acquisitions(h["body"])
    names = [(f, m) for _, f, m, _ in acq]
    order_ok = names[:2] == [("session", "lock"), ("projects", "write")]
    # the revision test sits between the two acquisitions and returns Superseded
    test_ok = False
    s_i = acq[0][0] if acq else -1
    p_i = acq[1][0] if len(acq) > 1 else 10 ** 9
    for i, n in enumerate(H.walk(h["body"])):
        if H.kind(n) == "If" and s_i < i < p_i:
            c = H.peel(n["c"])
            if H.kind(c) == "Binary" and c["op"] == "Ne":
                sides = [H.callee(H.peel(c["a"])) or "", H.callee(H.peel(c["b"])) or ""]
                if any(s.endswith("SessionState::revision") for s in sides):
                    rets = [x for x in H.walk(n["t"]) if H.kind(x) == "Ret"]
                    if rets and (H.path_def(rets[0].get("e")) or "").endswith("RefreshOutcome::Superseded"):
                        test_ok = True
    ctx.check(order_ok and test_ok, rule, "commit:recheck-under-lock",
              "commit_analysis does not re-check the revision under the session lock before writing `projects` "
              "(order_ok=%s, recheck=%s): a stale analysis could be published" % (order_ok, test_ok),
              ctx.facts.bodies()[fn]["loc"], detail={"acquisitions": names, "revision_recheck": test_ok})


_GUARD_TY = re.compile(r"dashmap::mapref::(one::Ref|one::RefMut|one::MappedRef|entry::Entry|entry::OccupiedEntry|entry::VacantEntry|multiple::)|"
                       r"std::sync::(mutex::)?MutexGuard|std::sync::(rwlock::)?RwLock(Read|Write)Guard|parking_lot::\w+Guard|lock_api::")


def _fn_label(fn):
    parts = [p for p in re.sub(r"<[^<>]* as [^<>]*>", "", M.short_fn(fn)).split("::") if p]
    return "::".join(parts[-2:]) if parts and parts[-1].startswith("{") else (parts[-1] if parts else fn)


def rule_guard_across_write(ctx):
    """no lock guard of the shared registry is held across a salsa input write, which blocks until every snapshot is gone"""
    rule = "guard-across-write"
    facts = ctx.facts
    ctx.rule(rule, "a salsa input write (`Setter::to`) blocks until every snapshot of the storage has been dropped, and an analysis running "
                   "on a snapshot takes the shard lock of the shared `files` registry before it reaches a cancellation point. Therefore no "
                   "guard of that registry (dashmap Ref / RefMut / Entry) — nor any other lock guard — may be live at a `Setter::to` call: "
                   "forward may-analysis over MIR (a guard is held from the call that returns it until it is dropped or moved away). A "
                   "guard kept \"to pin the entry\" deadlocks the owner against the snapshot it waits for")
    n = 0
    # writers: the setter itself and every function that reaches it (a caller holding a guard around `set_overlay(..)` is the same defect)
    ct = facts.calls_to()
    writers = {k for k in ct if k.endswith("salsa::input::setter::Setter>::to")}
    todo = list(writers)
    while todo:
        for c in ct.get(todo.pop(), []):
            if c["from"] not in writers:
                writers.add(c["from"])
                todo.append(c["from"])
    for fn, bd in sorted(facts.bodies().items()):
        if fn not in writers or "::tests::" in fn:
            continue
        m = facts.mir(fn)
        if m is None:
            continue
        b = M.Body(fn, m)
        writes = [bb for bb in range(b.n) if b.term(bb)["k"] == "call" and (b.term(bb).get("fn") or "") in writers]
        if not writes:
            continue
        n += len(writes)
        guards = {i for i, l in enumerate(m["locals"]) if _GUARD_TY.search(l.get("ty") or "")}
        held_at = {0: frozenset()}
        work = [0]
        while work:
            bb = work.pop()
            state = set(held_at[bb])
            for s in b.stmts(bb):
                d, rv = s.get("d"), s.get("rv")
                if d is None or rv is None:
                    continue
                dl = M.place_local(d)
                for op in rv.get("ops", []):
                    # moving a guard, or the payload of a guard enum out of a match on it, hands the lock to the destination
                    if op[0] == "m" and M.place_local(op[1]) in state and all(str(pr).startswith(("as:", "f")) for pr in M.place_proj(op[1])):
                        state.discard(M.place_local(op[1]))
                        if dl in guards:
                            state.add(dl)
            t = b.term(bb)
            out = set(state)
            if t["k"] == "drop" and M.place_local(t["p"]) in out and not M.place_proj(t["p"]):
                out.discard(M.place_local(t["p"]))
            if t["k"] == "call":
                for a in t.get("args", []):
                    if a[0] == "m" and M.place_local(a[1]) in out and not M.place_proj(a[1]):
                        out.discard(M.place_local(a[1]))        # moved into the callee
            for s2 in b.succs(bb):
                o2 = set(out)
                if t["k"] == "call" and s2 == t.get("t") and t.get("dest") is not None and M.place_local(t["dest"]) in guards:
                    o2.add(M.place_local(t["dest"]))
                new = frozenset(o2) | held_at.get(s2, frozenset())
                if s2 not in held_at or new != held_at[s2]:
                    held_at[s2] = new
                    work.append(s2)
        for bb in writes:
            held = sorted(held_at.get(bb, frozenset()))
            ctx.check(not held, rule, "%s:write@%d" % (_fn_label(fn), writes.index(bb) + 1), "%s calls a salsa input setter "
                      "while holding %s: the write blocks until every snapshot is dropped, and a snapshot analysis that needs the same "
                      "registry shard blocks on the guard first — neither can proceed" % (fn, [(b.local_name(g) or "_%d" % g, (b.local_ty(g) or "")[:60]) for g in held]),
                      [bd["loc"][0], b.term(bb).get("ln")], detail={"fn": _fn_label(fn), "callee": M.short_fn(b.term(bb).get("fn") or "")[-60:]})
    ctx.floor(rule, "salsa input writes (direct, or through a function that reaches one) inspected", n, 15)


def rule_snapshot_shares(ctx):
    rule = "snapshot-shares-registry"
    facts = ctx.facts
    ctx.rule(rule, "a snapshot shares the `files` registry with its session (F5): every construction of a CompilerSession from another one "
                   "takes `files` from a clone of the other's Arc (or derives Clone); a fresh `Arc::new(DashMap::clone(..))` gives the snapshot "
                   "a private copy: a file it registers is unknown to the owner, which then creates a SECOND input for the path, and every "
                   "later analysis reads the input nobody edits")
    n = 0
    for fn, bd in sorted(facts.bodies().items()):
        if not bd["loc"][0].startswith("lang/session/") or "::tests::" in fn or "{closure" in fn:
            continue
        h = facts.hir(fn)
        if h is None:
            continue
        for x in H.walk(h["body"]):
            if H.kind(x) != "Struct" or not str((x.get("path") or {}).get("def") or x.get("ty") or "").endswith("CompilerSession"):
                continue
            fld = next((f_ for f_ in x.get("fields", []) if f_["name"] == "files"), None)
            if fld is None:
                continue
            takes_self = any(p_.get("name") == "self" or "CompilerSession" in (p_.get("ty") or "") for p_ in (h.get("params") or []))
            if not takes_self:
                continue    # a constructor: a new registry is right
            n += 1
            env = A.ArmEnv(); env.bind_params(h); env.absorb(h["body"])
            sx = A.sexpr(fld["e"], env)
            # `self.files` moved, or a clone OF THE ARC (function or method form, with or without the borrow)
            shared = sx == "(. $P0 files)" or re.match(
                r"^\((<alloc::sync::Arc<[^()]*> as core::clone::Clone>::clone|alloc::sync::Arc::<[^()]*>::clone|\.clone) "
                r"(\(& )?\(\. \$P0 files\)\)?\)$", sx) is not None
            ctx.check(shared, rule, "%s:files" % fn.split("::")[-1], "%s builds a CompilerSession whose `files` is %s: not the session's own "
                      "registry" % (fn, sx[:120]), [bd["loc"][0], x.get("ln")])
    derives = any(k.endswith("CompilerSession as core::clone::Clone>::clone") for k in facts.bodies())
    ctx.check(n > 0 or derives, rule, "snapshot:clone", "CompilerSession is neither Clone nor rebuilt field-wise: the snapshot construction was not found")
