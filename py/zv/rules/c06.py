"""C06 — every host operation honours its declared type and contract (cross-table agreement + structural rules)."""
import re

from .. import armlib as A
from .. import hirlib as H
from .. import mirlib as M
from .. import symeval as S
from . import matcher
from . import roles as R

EXPLANATION = (
    "The role tables are evaluated statically (symbolic evaluation of the table functions over typed HIR) for all 126 "
    "roles and cross-checked: arity(role) = number of arrows of the ABI classifier for_role(role) = length of the slice "
    "pattern accepted by the interpreter function that BuiltinRuntime::invoke dispatches to, position by position the "
    "classifier atom agrees with the pattern (String/Int64/Char/Reader/Writer/Thunk, Bytes through HostBytes::borrow), a "
    "`pure` role returns ret(<value of the declared atom>), every continuation parameter is applied to exactly as many "
    "arguments as its classifier has arrows (so none/some, error/success, eof/line cannot be swapped), Branch::select gets "
    "the earlier position first; host_name(role) is the name of the dispatched function and the stack-IR table agrees on "
    "name, arity and call mode. Plus: scalar-only indexing in Utf8String, an exact panic inventory of the role functions, "
    "handle-table discipline (ids only ever += 1, insert only in open_*, remove only in close_*, misses -> closed()), every "
    "io::Result of an io_*/fs_* role reaches the error continuation, and the classifier matcher has no accepting default."
)

IMPLS = "zydeco_dynamics::impls::"
PATTERN_KIND = {
    "Literal(String(_))": "String", "Literal(Integer(Int64(_)))": "Integer(Int64)", "Literal(Char(_))": "Char",
    "Thunk(_)": "thunk", "Thunk(..)": "thunk", "Thunk()": "thunk", "Host(Reader(_))": "Reader", "Host(Writer(_))": "Writer", "_": "any",
}
LEGACY_EXPECT = {"write_str", "write_int", "write_line", "read_line", "read_line_as_int_branch", "read_till_eof"}


# ----------------------------------------------------------------------------------------------------------------------
# continuation application analysis
# ----------------------------------------------------------------------------------------------------------------------
class ContAnalysis:
    """How many arguments is a continuation value applied to? (over impls.rs helper functions, with summaries)."""

    def __init__(self, facts):
        self.facts = facts
        self.summaries = {}
        self._busy = set()

    def parents(self, body):
        par = {}
        stack = [(body, None)]
        while stack:
            n, p = stack.pop()
            if not isinstance(n, dict):
                continue
            par[id(n)] = p
            for c in H.children(n):
                stack.append((c, n))
        return par

    def uses(self, body, local):
        return [n for n in H.walk(body) if H.kind(n) == "Path" and n.get("res", {}).get("local") == local]

    def summary(self, fn, idx):
        """('applies', set) : fn consumes parameter idx applying it to k arguments (for each k in set);
           ('returns', set): fn returns the continuation computation with k arguments applied."""
        key = (fn, idx)
        if key in self.summaries:
            return self.summaries[key]
        if key in self._busy:
            return ("unknown", set())
        h = self.facts.hir(fn)
        if h is None or idx >= len(h["params"]):
            return ("unknown", set())
        binds = H.pat_bindings(h["params"][idx])
        if len(binds) != 1:
            return ("unknown", set())
        ptys = self.facts.bodies().get(fn, {}).get("params", [])
        # a parameter that already is a computation starts with zero additional arguments applied
        start = 0 if idx < len(ptys) and ptys[idx].endswith("syntax::Computation") else None
        self._busy.add(key)
        try:
            res = self.trace_local(h["body"], binds[0]["local"], start)
        finally:
            self._busy.discard(key)
        # a helper returns ZCompute (continuation applied k times) when its return type is a bare Computation
        ret = self.facts.bodies().get(fn, {}).get("ret", "")
        kind = "returns" if ret.endswith("syntax::Computation") else "applies"
        out = (kind, res)
        self.summaries[key] = out
        return out

    def trace_local(self, body, local, start=None):
        par = self.parents(body)
        out = set()
        for u in self.uses(body, local):
            out |= self.trace(body, par, u, start)
        return out

    def trace(self, body, par, node, k):
        """Climb from `node` (value: the raw continuation when k is None, else the computation with k args applied)."""
        cur = node
        while True:
            p = par.get(id(cur))
            if p is None:
                return {k if k is not None else "raw"}
            kind = H.kind(p)
            if kind == "MethodCall":
                if p["recv"] is cur and p["name"] in ("clone", "into", "to_owned", "as_ref", "borrow"):
                    cur = p
                    continue
                if p["name"] == "fold" and p["args"] and p["args"][0] is cur:
                    # the initial accumulator flows to the closure's first parameter and to the result
                    out = self.trace(body, par, p, k)
                    clo = H.peel(p["args"][1]) if len(p["args"]) > 1 else None
                    if H.kind(clo) == "Closure" and clo["params"]:
                        for b in H.pat_bindings(clo["params"][0]):
                            for u in self.uses(body, b["local"]):
                                out |= self.trace(body, par, u, k)
                    return out
                # passed as an argument / receiver of something else
                fn = p.get("fn") or ""
                args = [p["recv"]] + p["args"]
                i = [j for j, a in enumerate(args) if a is cur][0]
                r = self.through_call(fn, i, k)
                if r is None:
                    return {"?%s" % fn.split("::")[-1]}
                mode, ks = r
                if mode == "applies":
                    return set(ks)
                out = set()
                for kk in ks:
                    out |= self.trace(body, par, p, kk)
                return out
            if kind == "Call":
                if p["f"] is cur:
                    return {"called"}
                c = H.callee(p) or ""
                i = [j for j, a in enumerate(p["args"]) if a is cur][0]
                last = c.split("::")[-1]
                if last == "mk_rc" or c.endswith("Rc::<T>::new") or c.endswith("Box::<T>::new"):
                    cur = p
                    continue
                if c.endswith("syntax::Force") or c.endswith("::Force"):
                    k = 0
                    cur = p
                    continue
                if c == IMPLS + "app" or c.endswith("syntax::App") or c.endswith("::App"):
                    if i == 0 and k is not None:
                        k = k + 1
                        cur = p
                        continue
                    return {"arg-of-app"}
                if c.endswith("Result::Ok") or c.endswith("Option::Some"):
                    cur = p
                    continue
                if (c.endswith("syntax::Thunk") or c.endswith("Value::Thunk") or c.endswith("::Thunk")) and k is not None:
                    # the (partially applied) computation is suspended again: terminal, arity k
                    return {k}
                r = self.through_call(c, i, k)
                if r is None:
                    return {"?%s" % last}
                mode, ks = r
                if mode == "applies":
                    return set(ks)
                out = set()
                for kk in ks:
                    out |= self.trace(body, par, p, kk)
                return out
            if kind in ("AddrOf", "Use", "Type", "Unary", "Cast"):
                cur = p
                continue
            if kind == "Let" and p.get("init") is not None and H.peel(p["init"]) is H.peel(cur) or (kind == "Let" and p.get("init") is cur):
                binds = H.pat_bindings(p["pat"])
                out = set()
                for b in binds:
                    for u in self.uses(body, b["local"]):
                        if u is not node:
                            out |= self.trace(body, par, u, k)
                return out or {"unused"}
            if kind == "Block" or (kind is None and "stmts" in p):
                if p.get("expr") is cur:
                    cur = p
                    continue
                return {"dropped"}
            if kind is None and "pat" in p and "body" in p:   # match arm
                cur = p
                continue
            if kind in ("Match", "If"):
                if p.get("scrut") is cur or p.get("c") is cur:
                    return {"scrutinised"}
                cur = p
                continue
            if kind in ("Ret",):
                return {k if k is not None else "raw"}
            if kind == "Closure":
                # value of a closure body: result of the call the closure is passed to (fold etc.)
                call = par.get(id(p))
                if call is not None and H.kind(call) == "MethodCall" and call["name"] == "fold":
                    cur = call
                    continue
                return {k if k is not None else "raw"}
            if kind == "Struct":
                if (p["path"].get("def") or "").endswith("::Force"):
                    k = 0
                    cur = p
                    continue
                return {"stored"}
            if kind in ("Semi", "Expr"):
                return {"dropped"}
            return {"?%s" % kind}

    def through_call(self, fn, i, k):
        """Continuation (raw, k None) or partially applied computation passed to a workspace helper."""
        if fn not in self.facts.bodies():
            return None
        mode, ks = self.summary(fn, i)
        if mode == "unknown":
            return None
        if k is None:
            return mode, ks
        # an already-applied computation handed to a helper (e.g. `app`-like wrappers): add
        return mode, {(kk + k) if isinstance(kk, int) else kk for kk in ks}


# ----------------------------------------------------------------------------------------------------------------------
def accepting_arm(facts, fn, depth=0):
    """-> (hir of the function holding the match, match node, slice arm, env of param names) or None"""
    h = facts.hir(fn)
    if h is None:
        return None
    env = A.Env()
    env.bind_params(h)
    for n in H.walk(h["body"]):
        if H.kind(n) == "Match" and not n.get("src"):
            s = A.sexpr(n["scrut"], env)
            if s in ("$P0",) or s.endswith("as_slice $P0)"):
                arms = [a for a in n["arms"] if H.kind(A.strip_or(a["pat"])) == "Slice"]
                return fn, h, n, arms
    if depth == 0:
        for n, c in H.calls(h["body"]):
            if c in facts.bodies() and H.kind(n) == "Call" and n["args"] and A.sexpr(n["args"][0], env) == "$P0":
                r = accepting_arm(facts, c, 1)
                if r:
                    return r + (n,)
    return None


def rule_tables(ctx, roles):
    rule = "role-tables"
    ctx.rule(rule, "for every role: arity(role) = #arrows(for_role(role)); stack-IR Builtin(name, arity, mode) has "
                   "name = host_name(role), the same arity and mode Returning iff the classifier returns a value; "
                   "NON_NUMERIC lists every non-numeric role once; source names round-trip")
    info = {}
    for name, role in roles.all_roles():
        try:
            ar = int(S.show(roles.call(R.ARITY, role)))
            params, result, forall = roles.classifier(role)
            try:
                host = S.show(roles.call(R.HOST_NAME, role))
            except S.Unknown:
                host = "<?>"   # numeric roles: format!(..) is not evaluated; see the structural check below
            sir = roles.call(R.STACKIR, role)
        except S.Unknown as e:
            ctx.anchor_lost(rule, "cannot evaluate the role tables for %s: %s" % (name, e))
            continue
        info[name] = {"arity": ar, "params": params, "result": result, "forall": forall, "host": host}
        ctx.check(len(params) == ar, rule, "%s:arity" % name,
                  "role %s: arity() = %d but its ABI classifier %s takes %d arguments"
                  % (name, ar, " -> ".join([R.show_shape(p) for p in params] + [R.show_comp(result)]), len(params)),
                  ctx.facts.bodies()[R.ARITY]["loc"], detail={"role": name, "arity": ar,
                                                              "classifier": [R.show_shape(p) for p in params] + [R.show_comp(result)]})
        sname, sar, smode = S.show(sir[2][0]), S.show(sir[2][1]), S.show(sir[2][2])
        want_mode = "Function(Returning)" if result[0] == "Return" else "Function(Control)"
        ctx.check((sname == host or "<?>" in (sname, host)) and sar == str(ar) and smode == want_mode, rule, "%s:stackir" % name,
                  "role %s: stack IR declares %s/%s %s, expected %s/%d %s" % (name, sname, sar, smode, host, ar, want_mode),
                  ctx.facts.bodies()[R.STACKIR]["loc"], detail={"role": name, "stackir": [sname, sar, smode]})
        ctx.check((result[0] == "Bound") == forall, rule, "%s:result-binder" % name,
                  "role %s: result %s does not agree with the forall binder (%s)" % (name, R.show_comp(result), forall),
                  ctx.facts.bodies()[R.FOR_ROLE]["loc"], detail={"role": name})
    # structural: the stack-IR entry takes its name and arity from the role tables themselves
    h = ctx.need_hir(rule, R.STACKIR)
    env = A.Env()
    env.bind_params(h)
    news = [A.sexpr(n, env) for n, c in H.calls(h["body"]) if c.endswith("builtin::Builtin::new")]
    ok = len(news) == 1 and news[0].startswith("(zydeco_stackir::builtin::Builtin::new (%s $P0) (%s $P0) " % (R.HOST_NAME, R.ARITY))
    ctx.check(ok, rule, "stackir:name-and-arity", "Builtin::for_known_role builds %s, expected Builtin::new(role.host_name(), role.arity(), ..)"
              % news, ctx.facts.bodies()[R.STACKIR]["loc"], detail={"is": "Builtin::new(role.host_name(), role.arity(), Function(mode))"})
    # NON_NUMERIC
    try:
        nn = roles.ev.ev(ctx.facts.hir(R.ROLE + "::NON_NUMERIC")["body"], {})
        listed = [S.show(x) for x in nn[1]]
    except Exception as e:
        listed = None
        ctx.anchor_lost(rule, "cannot evaluate NON_NUMERIC: %s" % e)
    if listed is not None:
        ctx.check(sorted(listed) == sorted(roles.non_numeric) and len(set(listed)) == len(listed), rule, "NON_NUMERIC",
                  "NON_NUMERIC %s differs from the non-numeric variants %s"
                  % (sorted(set(listed) ^ set(roles.non_numeric)), "of BuiltinValueRole"), None,
                  detail={"listed": len(listed), "variants": len(roles.non_numeric)})
    # source names: from_source_name's literal arms agree with non_numeric_source_name
    h = ctx.need_hir(rule, R.FROM_SOURCE)
    table = {}
    for m in H.walk(h["body"]):
        if H.kind(m) == "Match" and not m.get("src"):
            for a in m["arms"]:
                p = A.strip_or(a["pat"])
                if H.kind(p) == "Lit" and "str" in p["lit"]:
                    b = H.peel(a["body"])
                    v = None
                    if H.kind(b) == "Call" and b["args"]:
                        v = H.path_def(b["args"][0])
                    table[p["lit"]["str"]] = (v or "?").split("::")[-1]
    for n in roles.non_numeric:
        try:
            sn = S.show(roles.call(R.SOURCE_NAME, S.ctor(R.ROLE + "::" + n)))
        except S.Unknown as e:
            ctx.anchor_lost(rule, "source_name(%s): %s" % (n, e))
            continue
        ctx.check(table.get(sn) == n, rule, "%s:source-name" % n,
                  "source_name(%s) = %r but from_source_name(%r) = %s" % (n, sn, sn, table.get(sn)), ctx.facts.bodies()[R.FROM_SOURCE]["loc"],
                  detail={"role": n, "source_name": sn})
    ctx.floor(rule, "roles evaluated", len(info), 120)
    return info


def rule_dispatch(ctx, roles, info):
    rule = "dispatch"
    ctx.rule(rule, "BuiltinRuntime::invoke dispatches role X to the function named host_name(X) with (args, input, output, "
                   "argv, host) in order; the function's accepting slice pattern agrees with the classifier position by "
                   "position; pure roles return the declared atom; every continuation is applied to as many arguments as "
                   "its classifier has arrows; Branch::select receives the earlier slice position first")
    h = ctx.need_hir(rule, R.INVOKE)
    loc = ctx.facts.bodies()[R.INVOKE]["loc"]
    env = A.Env()
    env.bind_params(h)
    m = A.find_match_on(h["body"], lambda n: A.scrut_is_param(n, h, 0))
    if m is None:
        ctx.anchor_lost(rule, "invoke: dispatch match not found")
        return
    arms = A.arms_by_variant(m)
    ca = ContAnalysis(ctx.facts)
    n_fn = 0
    for X in roles.non_numeric:
        a = arms.get(X)
        if a is None:
            ctx.violation(rule, "%s:arm" % X, "invoke has no arm for role %s" % X, loc)
            continue
        call = H.peel(a["body"])
        callee = H.callee(call) or ""
        got_args = [A.sexpr(x, env) for x in call.get("args", [])] if H.kind(call) == "Call" else None
        want = info.get(X, {}).get("host")
        ctx.check(callee.startswith(IMPLS) and callee.split("::")[-1] == want and got_args == ["$P1", "$P2", "$P3", "$P4", "$P5"],
                  rule, "%s:callee" % X,
                  "role %s is dispatched to %s(%s); host_name says `%s` with (args, input, output, argv, host)"
                  % (X, callee, got_args, want), [loc[0], a["ln"]], detail={"role": X, "function": callee.split("::")[-1]})
        if not callee.startswith(IMPLS) or X not in info:
            continue
        n_fn += 1
        check_role_fn(ctx, rule, X, callee, info[X], ca)
    # numeric dispatch
    for fam, ops, targets in (("Integer", roles.int_ops, {"arith": "integer_arithmetic", "branch": "integer_branch", "ToString": "integer_to_string"}),
                              ("Float", roles.float_ops, {"arith": "float_arithmetic", "branch": "float_branch", "ToString": "float_to_string"})):
        a = arms.get(fam)
        if a is None:
            ctx.violation(rule, "%s:arm" % fam, "invoke has no arm for %s roles" % fam, loc)
            continue
        e2 = A.Env()
        e2.names = dict(env.names)
        e2.bind_pat(A.strip_or(a["pat"]))
        inner = A.find_match_on(a["body"], lambda n: True)
        ops_arms = A.arms_by_variant(inner) if inner else {}
        for op in ops:
            oa = ops_arms.get(op)
            cls = "ToString" if op == "ToString" else ("branch" if op in ("Eq", "Lt", "Gt") else "arith")
            want_fn = IMPLS + targets[cls]
            got = A.sexpr(oa["body"], e2) if oa else "(missing)"
            ty, opv = "$%s.0" % fam, "$%s.1" % fam
            want = "(%s %s %s $P1)" % (want_fn, ty, opv) if cls != "ToString" else "(%s %s $P1)" % (want_fn, ty)
            ctx.check(got == want, rule, "%s:%s" % (fam, op), "%s operation %s is dispatched as %s, expected %s" % (fam, op, got, want),
                      [loc[0], (oa or a)["ln"]], detail={"family": fam, "op": op, "function": targets[cls]})
    ctx.floor(rule, "non-numeric role functions checked", n_fn, 36)


def check_role_fn(ctx, rule, X, fn, inf, ca):
    facts = ctx.facts
    r = accepting_arm(facts, fn)
    if r is None:
        ctx.anchor_lost(rule, "%s: no match on the argument slice found in %s" % (X, fn))
        return
    holder, h, m, arms = r[0], r[1], r[2], r[3]
    outer_call = r[4] if len(r) > 4 else None
    loc = facts.bodies()[holder]["loc"]
    ctx.fn(fn)
    if len(arms) != 1:
        ctx.violation(rule, "%s:arms" % X, "%s accepts %d slice shapes, expected exactly one" % (holder, len(arms)), loc)
        return
    arm = arms[0]
    pat = A.strip_or(arm["pat"])
    elems = pat.get("before", []) + pat.get("after", [])
    has_rest = pat.get("mid") is not None
    kinds = [PATTERN_KIND.get(A.pat_shape(e), "other:" + A.pat_shape(e)) for e in elems]
    params = inf["params"]
    ctx.check(len(elems) == inf["arity"] and not has_rest, rule, "%s:pattern-length" % X,
              "%s accepts %d arguments%s but arity(%s) = %d" % (holder, len(elems), " (plus a rest pattern)" if has_rest else "", X, inf["arity"]),
              [loc[0], arm["ln"]], detail={"role": X, "pattern": A.pat_shape(pat), "arity": inf["arity"]})
    if len(elems) != len(params):
        return
    env = A.Env()
    env.bind_params(h)
    env.bind_pat(pat)
    bind_of = []
    for e in elems:
        bs = H.pat_bindings(e)
        bind_of.append(bs[0] if bs else None)
    # position-wise agreement
    for i, (k, p) in enumerate(zip(kinds, params)):
        want = p[1] if p[0] == "atom" else "thunk"
        ok = (k == want) or (want == "thunk" and k == "any") or (want == "Bytes" and k == "any")
        if ok and want == "Bytes":
            # the binding must be unpacked through HostBytes::borrow
            b = bind_of[i]
            uses = [n for n, c in H.calls(arm["body"]) if c == IMPLS + "HostBytes::borrow" and b is not None
                    and (H.path_local(n["args"][0]) or [None])[0] == b["local"]]
            ok = bool(uses)
        ctx.check(ok, rule, "%s:position%d" % (X, i),
                  "%s: argument %d is declared %s by the classifier but matched as %s" % (holder, i, R.show_shape(p), k),
                  [loc[0], arm["ln"]], detail={"role": X, "position": i, "declared": R.show_shape(p), "pattern": k})
    # continuation applications
    par = ca.parents(arm["body"])
    for i, p in enumerate(params):
        if p[0] != "thunk" or bind_of[i] is None:
            continue
        want = len(p[1])
        got = set()
        for u in ca.uses(arm["body"], bind_of[i]["local"]):
            got |= ca.trace(arm["body"], par, u, None)
        if X == "ArgList":
            # when_item receives (String, Thk R): applied inside the fold helper
            pass
        ctx.check(got == {want}, rule, "%s:continuation%d" % (X, i),
                  "%s: continuation at position %d (%s) is applied to %s argument(s), its classifier has %d arrow(s)"
                  % (holder, i, R.show_shape(p), sorted(map(str, got)) or "no", want), [loc[0], arm["ln"]],
                  detail={"role": X, "position": i, "continuation": R.show_shape(p), "applied_arity": want})
    # Branch::select order
    for n, c in H.calls(arm["body"]):
        if c == IMPLS + "Branch::select":
            ls = [H.path_local(x) for x in n["args"][1:3]]
            pos = []
            for l in ls:
                pos.append(next((j for j, b in enumerate(bind_of) if b is not None and l and b["local"] == l[0]), None))
            ctx.check(None not in pos and pos[0] < pos[1], rule, "%s:branch-order" % X,
                      "%s passes slice positions %s to Branch::select(cond, when_true, when_false)" % (holder, pos),
                      [loc[0], n["ln"]], detail={"role": X, "when_true_position": pos[0], "when_false_position": pos[1]})
            cond = A.sexpr(n["args"][0], env)
            if X == "StrEq":
                ctx.check(cond == "(Eq $S0/Literal.0/String.0 $S1/Literal.0/String.0)", rule, "StrEq:condition",
                          "str_eq branches on %s, expected equality of its two string arguments" % cond, [loc[0], n["ln"]],
                          detail={"condition": cond})
    # pure roles return the declared atom
    if inf["result"][0] == "Return":
        atom = inf["result"][1][1]
        rets = [n for n, c in H.calls(arm["body"]) if c == IMPLS + "ret"]
        ok = len(rets) >= 1
        kinds_found = []
        for rcall in rets:
            s = A.sexpr(rcall["args"][0], env)
            kinds_found.append(_value_kind(s))
        ctx.check(ok and all(k == atom for k in kinds_found), rule, "%s:result" % X,
                  "%s returns %s but the classifier declares Ret(%s)" % (holder, kinds_found, atom), [loc[0], arm["ln"]],
                  detail={"role": X, "declared": atom, "returned": kinds_found})
    else:
        # effectful / branching roles never `ret`
        rets = [n for n, c in H.calls(arm["body"]) if c == IMPLS + "ret"]
        ctx.check(not rets, rule, "%s:no-ret" % X, "%s returns a value but its classifier continues with %s"
                  % (holder, R.show_comp(inf["result"])), [loc[0], arm["ln"]], detail={"role": X})


def _value_kind(s):
    if "zydeco_syntax::Literal::Integer" in s:
        return "Integer(Int64)" if "From<i64>" in s or "as core::convert::Into" in s or "i64" in s else "Integer(?)"
    if "zydeco_syntax::Literal::String" in s:
        return "String"
    if "zydeco_syntax::Literal::Char" in s:
        return "Char"
    if "HostBytes::value" in s:
        return "Bytes"
    if "HostValue::Reader" in s:
        return "Reader"
    if "HostValue::Writer" in s:
        return "Writer"
    return "?" + s[:40]


def rule_scalar(ctx):
    rule = "scalar-index"
    ctx.rule(rule, "Utf8String::{scalar_len, scalar, split_at_scalar} observe the text only through chars()/char_indices() "
                   "(split_at only at an offset produced by char_indices or the end sentinel); the string roles call exactly "
                   "these (StrByteLength is the only byte observer)")
    U = "zydeco_syntax::text::Utf8String::"
    forbidden = re.compile(r"(impl str>::(len|as_bytes|bytes|get|get_unchecked|is_char_boundary|as_ptr|split_at_checked|floor_char_boundary)$|"
                           r"Utf8String::(as_bytes|byte_len)$|impl \[T\]>::(get|len)$|is_ascii|u8 as|from_utf8)")
    spec = {
        "scalar_len": {"need": ["core::str::<impl str>::chars"], "allow_byte_len": False},
        "scalar": {"need": ["core::str::<impl str>::chars"], "allow_byte_len": False},
        "split_at_scalar": {"need": ["core::str::<impl str>::char_indices", "core::str::<impl str>::split_at"], "allow_byte_len": True},
    }
    cf = ctx.facts.calls_from()
    for name, sp in spec.items():
        fn = U + name
        ctx.need_body(rule, fn)
        calls = []
        for path in [fn] + [p for p in ctx.facts.bodies() if p.startswith(fn + "::{closure")]:
            calls += [c["to"] for c in cf.get(path, [])]
        bad = [c for c in calls if forbidden.search(c) and not (sp["allow_byte_len"] and c.endswith("Utf8String::byte_len"))]
        missing = [n for n in sp["need"] if n not in calls]
        ctx.check(not bad and not missing, rule, name,
                  "Utf8String::%s %s%s: positions would be counted in bytes, not Unicode scalar values"
                  % (name, ("calls " + ", ".join(sorted(set(bad)))) if bad else "", (" does not call " + ", ".join(missing)) if missing else ""),
                  ctx.facts.bodies()[fn]["loc"], detail={"fn": fn, "observers": sorted(set(c for c in calls if "str" in c))[:6]})
    # split_at argument provenance: the offset is the `nth(index)?` of the char_indices chain
    h = ctx.need_hir(rule, U + "split_at_scalar")
    env = A.Env()
    env.bind_params(h)
    env.bind_lets(h["body"])
    sp_call = next((n for n, c in H.calls(h["body"]) if c == "core::str::<impl str>::split_at"), None)
    s = A.sexpr(sp_call, env) if sp_call else ""
    ok = "char_indices" in s and "nth" in s and s.count("$P1") == 1
    ctx.check(ok, rule, "split_at_scalar:offset", "split_at is not applied to the byte offset selected by char_indices().nth(index): %s" % s[:200],
              ctx.facts.bodies()[U + "split_at_scalar"]["loc"], detail={"offset": "char_indices().map(byte).chain(once(byte_len())).nth(index)?"})
    need = {"str_scalar_length": U + "scalar_len", "str_get_branch": U + "scalar", "str_split_at_branch": U + "split_at_scalar",
            "str_byte_length": U + "byte_len"}
    for f, callee in need.items():
        fn = IMPLS + f
        ctx.need_body(rule, fn)
        calls = []
        for path in [fn] + [p for p in ctx.facts.bodies() if p.startswith(fn + "::{closure")]:
            calls += [c["to"] for c in cf.get(path, [])]
        others = [c for c in calls if c.startswith(U) and c != callee and not c.endswith("as_str")]
        raw = [c for c in calls if re.search(r"impl str>::(len|as_bytes|bytes|get|chars|char_indices|split_at)$", c)]
        ctx.check(callee in calls and not others and not raw, rule, "%s:uses" % f,
                  "%s must measure text through %s only (calls: %s)" % (f, callee.split("::")[-1], sorted(set(others + raw)) or "missing"),
                  ctx.facts.bodies()[fn]["loc"], detail={"fn": f, "uses": callee.split("::")[-1]})


def rule_panics(ctx):
    rule = "panic-inventory"
    ctx.rule(rule, "in zydeco_dynamics::impls the only panics are: the shape-default arm `_ => unreachable!` of a match on "
                   "the argument shape (excluded by C01), wrapping_div/rem (the defined arithmetic trap) and the six legacy "
                   "`expect(\"legacy standard-.. failed\")` sites; no other unwrap/expect/index/arithmetic-overflow site")
    facts = ctx.facts
    n_sites = 0
    for path, bd in sorted(facts.bodies().items()):
        if not path.startswith(IMPLS) or bd["loc"][0] != "lang/dynamics/src/impls.rs":
            continue
        m = facts.mir(path)
        if m is None:
            continue
        owner = path.split("::{closure")[0].replace(IMPLS, "")
        b = M.Body(path, m)
        for bb in range(b.n):
            t = b.term(bb)
            if t["k"] == "assert":
                n_sites += 1
                ctx.violation(rule, "%s:assert:%s" % (owner, t["msg"]), "%s can panic on %s" % (path, t["msg"]), [bd["loc"][0], t.get("ln")])
            if t["k"] != "call":
                continue
            fn = t["fn"]
            ex = t.get("expn") or []
            if fn.startswith("core::panicking::") or fn.startswith("std::rt::begin_panic"):
                n_sites += 1
                if "unreachable" in ex:
                    ctx.ok(rule, "%s:shape-default" % owner)
                else:
                    ctx.violation(rule, "%s:%s" % (owner, (ex or ["panic"])[0]), "%s contains an explicit %s!" % (path, (ex or ["panic"])[0]),
                                  [bd["loc"][0], t.get("ln")])
            elif re.search(r"(Option|Result)::<.*>::(unwrap|expect)$", fn):
                n_sites += 1
                kind = fn.rsplit("::", 1)[-1]
                ok = kind == "expect" and owner.split("::")[0] in LEGACY_EXPECT
                ctx.check(ok, rule, "%s:%s" % (owner, kind),
                          "%s calls %s: a host operation must take its none/error continuation instead of panicking" % (path, kind),
                          [bd["loc"][0], t.get("ln")], detail={"fn": owner, "site": "legacy expect on stdin/stdout failure"})
            elif fn.endswith("::index") and "ops::index::Index" in (t.get("decl") or fn):
                n_sites += 1
                ctx.violation(rule, "%s:index" % owner, "%s indexes with a panicking Index impl (%s)" % (path, fn), [bd["loc"][0], t.get("ln")])
    # the unreachable! sites really are shape defaults: HIR — body of a wildcard arm / let-else of a match on the args
    for path, bd in sorted(facts.bodies().items()):
        if not path.startswith(IMPLS) or "{closure" in path or bd["loc"][0] != "lang/dynamics/src/impls.rs":
            continue
        h = facts.hir(path)
        if h is None:
            continue
        allowed = set()
        for n in H.walk(h["body"]):
            if H.kind(n) == "Match" and not n.get("src"):
                penv = A.Env()
                penv.bind_params(h)
                sc = A.sexpr(n["scrut"], penv)
                on_params = bool(re.match(r"^[\$P0-9 ()a-zA-Z_:<>,.\[\]&']*$", sc)) and "$P" in sc and "$" not in sc.replace("$P", "")
                for a in n["arms"]:
                    if (H.pat_is_catch_all(A.strip_or(a["pat"])) or on_params) and H.exits_by_panic_only(a["body"]):
                        allowed |= {id(x) for x in H.walk(a["body"])}
            if H.kind(n) == "Let" and n.get("els") is not None and H.exits_by_panic_only(n["els"]):
                allowed |= {id(x) for x in H.walk(n["els"])}
        for n in H.walk(h["body"]):
            if "unreachable" in (n.get("expn") or []) and H.kind(n) == "Call" and (H.callee(n) or "").startswith("core::panicking"):
                owner = path.replace(IMPLS, "")
                ctx.check(id(n) in allowed, rule, "%s:unreachable-position" % owner,
                          "%s: unreachable! outside the shape-default arm" % path, [bd["loc"][0], n.get("ln")])
    ctx.floor(rule, "panic sites classified", n_sites, 40)


def rule_handles(ctx):
    rule = "handles"
    ctx.rule(rule, "HostRuntime: next_reader/next_writer are only ever `+= 1` (no id reuse); readers/writers are inserted only "
                   "by open_*, removed only by close_*, looked up only by reader()/writer() whose miss is HostIoError::closed(); "
                   "every io::Result in an io_*/fs_* role function reaches HostContinuation::io_error")
    facts = ctx.facts
    HR = "zydeco_dynamics::host::HostRuntime::"
    n_fn = 0
    writers = {"next_reader": [], "next_writer": [], "readers": [], "writers": []}
    for path, bd in sorted(facts.bodies().items()):
        if not path.startswith(HR):
            continue
        h = facts.hir(path)
        if h is None:
            continue
        n_fn += 1
        short = path.replace(HR, "")
        for n in H.walk(h["body"]):
            k = H.kind(n)
            if k in ("Assign", "AssignOp"):
                l = H.peel(n["l"])
                if H.kind(l) == "Field" and l["name"] in ("next_reader", "next_writer"):
                    ok = k == "AssignOp" and n.get("op") == "AddAssign" and H.kind(H.peel(n["r"])) == "Lit" and H.peel(n["r"])["lit"].get("int") == "1"
                    ctx.check(ok, rule, "%s:%s" % (short, l["name"]),
                              "%s writes %s other than by `+= 1`: a closed handle's id can be issued again" % (path, l["name"]),
                              [bd["loc"][0], n.get("ln")], detail={"fn": short, "write": "+= 1"})
            if k == "MethodCall":
                r = H.peel(n["recv"])
                if H.kind(r) == "Field" and r["name"] in ("readers", "writers"):
                    writers[r["name"]].append((short, n["name"], n.get("ln")))
    allowed = {"insert": {"open_reader", "open_writer"}, "remove": {"close_reader", "close_writer"},
               "get_mut": {"reader", "writer"}, "get": {"reader", "writer"}, "contains_key": {"reader", "writer", "close_reader", "close_writer"}}
    for tbl in ("readers", "writers"):
        for short, meth, ln in writers[tbl]:
            base = short.split("::")[0]
            ok = base in allowed.get(meth, set()) or base == "new"
            ctx.check(ok, rule, "%s:%s.%s" % (base, tbl, meth), "HostRuntime::%s calls %s.%s: the handle table is touched outside "
                      "open/close/lookup" % (short, tbl, meth), ["lang/dynamics/src/host.rs", ln], detail={"fn": short, "op": "%s.%s" % (tbl, meth)})
    for acc in ("reader", "writer"):
        fn = HR + acc
        h = ctx.need_hir(rule, fn)
        cs = [c for _, c in H.calls(h["body"])]
        ctx.check(any(c.endswith("HostIoError::closed") or "HostIoError::closed" in c for c in cs) or
                  any("HostIoError::closed" in json_s for json_s in [A.sexpr(h["body"], None)]), rule, "%s:miss" % acc,
                  "HostRuntime::%s does not answer a missing handle with HostIoError::closed()" % acc, facts.bodies()[fn]["loc"],
                  detail={"fn": acc, "miss": "HostIoError::closed()"})
    ctx.floor(rule, "HostRuntime methods inspected", n_fn, 8)
    # io::Result of role functions reaches the error continuation
    for path, bd in sorted(facts.bodies().items()):
        short = path.replace(IMPLS, "")
        if not path.startswith(IMPLS) or "{closure" in path or not (short.startswith("io_") or short == "FileIo::open"):
            continue
        h = facts.hir(path)
        found = False
        for n in H.walk(h["body"]):
            if H.kind(n) == "Match" and not n.get("src") and n.get("scrut_ty", "").startswith("core::result::Result<") and "std::io::error::Error" in n["scrut_ty"]:
                found = True
                arms = A.arms_by_variant(n)
                ea = arms.get("Err")
                ok = False
                if ea is not None:
                    b = H.peel(ea["body"])
                    # `return io_error(..)` or `io_error(..)`
                    if H.kind(b) == "Ret":
                        b = H.peel(b["e"])
                    if H.kind(b) == "Block" and b.get("stmts"):
                        inner = [x for x, c in H.calls(b) if c == IMPLS + "HostContinuation::io_error"]
                        b = inner[0] if inner else b
                    ok = (H.callee(b) or "") == IMPLS + "HostContinuation::io_error"
                ctx.check(ok, rule, "%s:io-error" % short, "%s does not route an io::Error into HostContinuation::io_error" % path,
                          [bd["loc"][0], n.get("ln")], detail={"fn": short, "Err": "HostContinuation::io_error(when_error, error)"})
        if short.startswith("io_") and not found:
            ctx.violation(rule, "%s:io-error" % short, "%s has no match on its io::Result" % path, bd["loc"])
    # io_error: kind from HostIoErrorKind::from_error, message from the error, two arguments in that order
    fn = IMPLS + "HostContinuation::io_error"
    h = ctx.need_hir(rule, fn)
    env = A.Env()
    env.bind_params(h)
    env.bind_lets(h["body"])
    s = A.sexpr(h["body"], env)
    ok = s.startswith("(core::result::Result::Ok (zydeco_dynamics::impls::HostContinuation::two $P0 ") and \
        s.index("HostIoErrorKind::from_error") < s.index("to_string")
    ctx.check(ok, rule, "io_error:shape", "HostContinuation::io_error is %s" % s[:300], ctx.facts.bodies()[fn]["loc"],
              detail={"is": "two(continuation, kind(error) as Int64, message(error))"})


_INT = {"i8": (-2**7, 2**7 - 1), "i16": (-2**15, 2**15 - 1), "i32": (-2**31, 2**31 - 1), "i64": (-2**63, 2**63 - 1),
        "i128": (-2**127, 2**127 - 1), "isize": (-2**63, 2**63 - 1), "u8": (0, 2**8 - 1), "u16": (0, 2**16 - 1),
        "u32": (0, 2**32 - 1), "u64": (0, 2**64 - 1), "u128": (0, 2**128 - 1), "usize": (0, 2**64 - 1), "char": (0, 0x10FFFF)}
_MANTISSA = {"f32": 24, "f64": 53}
# lengths of in-memory buffers are at most isize::MAX: `len() as i64` is exact
_LENGTHS = r"::(len|scalar_len|byte_len|count|capacity)$"
# lossy casts that are the operation's stated behaviour: one named site each
CAST_INVENTORY = {
    "exit:i64->i32": "process/exit hands its Int64 to std::process::exit(i32); the operating system keeps the low byte of any status, "
                     "so no Int64 -> status mapping is value-preserving (findings/candidates/C06/README.md)",
}


def _cast_exact(frm, to, operand):
    if frm == to:
        return True
    if frm in _INT and to in _INT:
        (a, b), (c, d) = _INT[frm], _INT[to]
        if c <= a and b <= d and to != "char":
            return True
        if frm == "usize" and to in ("i64", "u64", "isize") and H.kind(operand) in ("MethodCall", "Call") and \
                re.search(_LENGTHS, H.callee(operand) or ""):
            return True
        return False
    if frm in _INT and to in _MANTISSA:
        a, b = _INT[frm]
        return max(-a, b) <= 2 ** _MANTISSA[to]
    if frm == "f32" and to == "f64":
        return True
    if frm in _MANTISSA or to in _MANTISSA or frm in ("bool",):
        return frm == "bool" and to in _INT
    # a fieldless enum to its discriminant
    return to in ("i64", "i128", "u64", "isize", "usize", "i32", "u32") and "::" in frm


def rule_casts(ctx):
    rule = "exact-casts"
    ctx.rule(rule, "every `as` cast in the host operations (zydeco_dynamics::impls, ::host, ::builtin) and in Utf8String is "
                   "value-preserving on the whole source type (widening, char -> u32, buffer length -> i64, enum -> discriminant): "
                   "an argument is never truncated or wrapped before it is validated; lossy casts are one inventoried site each")
    facts = ctx.facts
    n = 0
    seen = set()
    for path, bd in sorted(facts.bodies().items()):
        if not (path.startswith("zydeco_dynamics::impls::") or path.startswith("zydeco_dynamics::host::") or
                path.startswith("zydeco_dynamics::builtin::") or path.startswith("zydeco_syntax::text::")):
            continue
        if "::tests::" in path or "{closure" in path:
            continue
        h = facts.hir(path)
        if not h:
            continue
        owner = re.sub(r"^zydeco_(dynamics|syntax)::(impls|host|builtin|text)::", "", path)
        for c in H.walk(h["body"]):
            if H.kind(c) != "Cast":
                continue
            n += 1
            frm, to = c.get("from") or "?", c.get("ty") or "?"
            key = "%s:%s->%s" % (owner, frm.split("::")[-1], to)
            if _cast_exact(frm, to, H.peel(c["e"])):
                ctx.check(True, rule, key, "", None, detail={"exact": True})
                continue
            if key in CAST_INVENTORY:
                seen.add(key)
                ctx.check(True, rule, key, "", None, detail={"declared": CAST_INVENTORY[key]})
                continue
            ctx.violation(rule, key, "%s casts `%s as %s`: values outside the target range are silently wrapped, so an "
                          "out-of-range argument is taken for a valid one instead of selecting the none / error continuation "
                          "(use try_from)" % (path, frm, to), [bd["loc"][0], c.get("ln")])
    for k in sorted(set(CAST_INVENTORY) - seen):
        ctx.check(True, rule, k + ":gone", "", None, detail={"note": "inventoried lossy cast no longer present"})
    ctx.floor(rule, "casts classified", n, 6)


def run(ctx):
    try:
        roles = R.Roles(ctx, "role-tables")
    except KeyError:
        return {}
    info = rule_tables(ctx, roles)
    rule_dispatch(ctx, roles, info)
    rule_scalar(ctx)
    rule_panics(ctx)
    rule_casts(ctx)
    rule_handles(ctx)
    rule_host_io(ctx)
    matcher.check_matcher(ctx, "classifier-matcher")
    ctx.assume("behaviour of std on concrete strings/files (chars(), from_utf8, File::open ..) is the specification")
    ctx.assume("lib/std/builtin/**.zy declares each role at the type of its classifier (validated at link time by "
               "BuiltinSignatureValidator, see classifier-matcher); runtime/stub.rs is outside the cargo workspace")
    return {}


def rule_host_io(ctx):
    rule = "host-io"
    facts = ctx.facts
    ctx.rule(rule, "two contracts of the file / reader roles that are visible in the shape of the host code: (a) `create_writer` is "
                   "\"create or truncate\", `append_writer` appends: HostRuntime::open_writer opens with write, create, truncate(!append), "
                   "append(append) — without the truncation a shorter text written over an existing file keeps the old tail; (b) the "
                   "line readers (io_read_line) choose the end-of-input continuation from the NUMBER OF BYTES read_until returned (0 = "
                   "end of input), not from the emptiness of the line after the terminator was stripped: an empty line is a line")
    fn = next((k for k in facts.bodies() if k.endswith("HostRuntime::open_writer")), None)
    if fn is None:
        ctx.anchor_lost(rule, "HostRuntime::open_writer not found")
    else:
        h = facts.hir(fn)
        env = A.ArmEnv(); env.strip = True; env.bind_params(h); env.absorb(h["body"])
        opts = {}
        for c in H.walk(h["body"]):
            if H.kind(c) in ("Call", "MethodCall") and "OpenOptions" in (H.callee(c) or ""):
                name = (H.callee(c) or "").split("::")[-1]
                opts.setdefault(name, []).append([A.sexpr(a, env) for a in H.call_args(c)[1:]])
        # truncation on the non-append path: `truncate(!append)`, or `truncate(true)` in the branch where append is false
        par = {}
        st = [h["body"]]
        while st:
            q = st.pop()
            for c in H.children(q):
                if isinstance(c, dict):
                    par[id(c)] = q
                    st.append(c)
        trunc = False
        for c in H.walk(h["body"]):
            if not (H.kind(c) in ("Call", "MethodCall") and (H.callee(c) or "").endswith("OpenOptions::truncate")):
                continue
            arg = A.sexpr(H.call_args(c)[1], env)
            if arg == "(Not $P2)":
                trunc = True
            elif arg == "True":
                cur = c
                while id(cur) in par:
                    q = par[id(cur)]
                    if H.kind(q) == "If":
                        cond = A.sexpr(q.get("c") or {}, env)
                        in_then = any(y is cur for y in H.walk(q.get("t") or {}))
                        if (cond == "$P2" and not in_then) or (cond == "(Not $P2)" and in_then):
                            trunc = True
                    cur = q
        writes = "write" in opts or "append" in opts
        ok = trunc and writes and any(a == ["True"] for a in opts.get("create", []))
        ctx.check(ok, rule, "open_writer:options", "HostRuntime::open_writer(path, append) opens with %s; expected write(true), create(true), "
                  "truncate(!append), append(append): `create_writer` on an existing, longer file must not keep its old tail"
                  % {k: v for k, v in sorted(opts.items()) if k not in ("new", "open")}, facts.bodies()[fn]["loc"],
                  detail={"options": {k: v for k, v in sorted(opts.items()) if k not in ("new", "open")}})
    n = 0
    for fn, bd in sorted(facts.bodies().items()):
        if not fn.startswith("zydeco_dynamics::impls::") or "{closure" in fn:
            continue
        h = facts.hir(fn)
        if h is None or not any(H.kind(c) in ("Call", "MethodCall") and (H.callee(c) or "").endswith("::read_until") for c in H.walk(h["body"])):
            continue
        short = fn.split("::")[-1]
        for m in H.walk(h["body"]):
            if H.kind(m) != "Match" or m.get("src"):
                continue
            shapes = [A.pat_shape(a["pat"]) for a in m["arms"]]
            if not any(s.startswith("Ok(") for s in shapes) or not any(H.kind(c) in ("Call", "MethodCall") and (H.callee(c) or "").endswith("::read_until")
                                                                          for c in H.walk(m["scrut"])):
                continue
            n += 1
            env = A.ArmEnv(); env.strip = True; env.bind_params(h)
            eof = [a for a in m["arms"] if any(H.kind(c) in ("Call", "MethodCall") and (H.callee(c) or "").endswith("HostContinuation::force")
                                              for c in H.walk(a["body"]))]
            by_count = bool(eof) and all(re.match(r"^Ok\(\(lit:0,", A.pat_shape(a["pat"])) and not a.get("guard") for a in eof)
            ctx.check(by_count, rule, "%s:eof-by-count" % short, "%s selects the end-of-input continuation on %s: end of input is `read_until` "
                      "returning 0 bytes (`Ok((0, _))`); testing the stripped line for emptiness turns an empty line into end of input"
                      % (short, [A.pat_shape(a["pat"]) + (" if .." if a.get("guard") else "") for a in eof]),
                      [bd["loc"][0], m.get("ln")], detail={"eof arm": [A.pat_shape(a["pat"]) for a in eof]})
    ctx.floor(rule, "line readers built on read_until", n, 1)
