"""C11 — a source is parsed in full or rejected."""
import re
from .. import hirlib as H
from . import streamend

EXPLANATION = (
    "Static path rule on MIR: <Lexer as Iterator>::next (and the retaining LexicalTokens::next) may "
    "return None only on the None edge of the underlying logos SpannedIter::next(); plus HIR rules: "
    "every call of a generated LALRPOP `*Parser::parse` in non-test code passes `Lexer::new(s)` built "
    "from the same `s` it passes as input text, and Lexer::new lexes its whole argument starting at "
    "comment depth 0. LALRPOP accepting only at end of stream is trusted (generator property)."
)

LEXER_NEXT = "<zydeco_surface::textual::lexer::Lexer<'source> as core::iter::traits::iterator::Iterator>::next"
LEXER_NEW = "zydeco_surface::textual::lexer::Lexer::<'source>::new"
TOKENS_NEXT = "<zydeco_surface::textual::lexer::LexicalTokens<'_> as core::iter::traits::iterator::Iterator>::next"
TOKENS_NEW = "zydeco_surface::textual::lexer::LexicalTokens::<'source>::new"


def same_place(a, b):
    a, b = H.peel(a), H.peel(b)
    la, lb = H.path_local(a), H.path_local(b)
    if la and lb:
        return la[0] == lb[0]
    # field of same local e.g. self.source
    if H.kind(a) == "Field" and H.kind(b) == "Field" and a["name"] == b["name"]:
        return same_place(a["e"], b["e"])
    # `x.as_str()` / `&*x` style views of the same local
    for x, y in ((a, b), (b, a)):
        if H.kind(x) == "MethodCall" and x["name"] in ("as_str", "as_ref", "deref", "borrow") and not x["args"]:
            return same_place(x["recv"], y)
    return False


def find_local_init(body, local_id):
    for n in H.walk(body):
        if H.kind(n) == "Let" and n.get("init") is not None:
            p = n["pat"]
            if H.kind(p) == "Bind" and p["local"] == local_id:
                return n["init"]
    return None


def check_front_doors(ctx, rule="front-door"):
    ctx.rule(rule, "every non-test caller of a generated `*Parser::parse` lexes the same text it parses, "
                   "with the streaming Lexer and nothing wrapped around it")
    sites = 0
    for c in ctx.facts.calls():
        to = c["to"]
        if "::textual::parser::" not in to or not to.endswith("Parser::parse"):
            continue
        caller = c["from"]
        if caller.startswith("zydeco_surface::textual::parser::"):
            continue
        sites += 1
        ctx.fn(caller)
        owner = caller.split("::{closure")[0]
        h = ctx.facts.hir(owner)
        if h is None:
            ctx.anchor_lost(rule, "no HIR for parser caller %s" % owner)
            continue
        found = False
        for n, callee in H.calls(h["body"]):
            if callee != to or H.kind(n) != "MethodCall":
                continue
            found = True
            inst = "%s" % owner
            args = n["args"]
            if len(args) < 4:
                ctx.violation(rule, inst, "parse call with unexpected arity", c["loc"])
                continue
            text, lexer = args[0], H.peel(args[-1])
            tokty = (n.get("gargs") or [None, None])[-1] or ""
            if not tokty.startswith("zydeco_surface::textual::lexer::Lexer<"):
                ctx.violation(rule, inst, "token iterator handed to the parser is `%s`, not the streaming Lexer "
                                          "(tokens could be dropped before the grammar sees them)" % tokty, c["loc"])
                continue
            lp = H.path_local(lexer)
            if lp:
                init = find_local_init(h["body"], lp[0])
                lexer = H.peel(init) if init is not None else lexer
            if H.callee(lexer) != LEXER_NEW:
                ctx.violation(rule, inst, "cannot establish that the lexer argument is Lexer::new(<input text>)", c["loc"])
                continue
            ctx.check(same_place(lexer["args"][0], text), rule, inst,
                      "Lexer::new is applied to a different string than the text given to the parser", c["loc"],
                      detail={"caller": owner, "parse": to.rsplit("::", 2)[-2], "lexer_arg_is_input_text": True})
        if not found:
            ctx.anchor_lost(rule, "call %s -> %s not found in HIR" % (owner, to))
    ctx.floor(rule, "parser front doors", sites, 4)


def check_lexer_new(ctx, fn_path, rule="lexer-new"):
    ctx.rule(rule, "the lexer constructor lexes its whole argument (`Tok::lexer(source).spanned()`), with "
                   "comment depth initialised to the literal 0")
    h = ctx.need_hir(rule, fn_path)
    params = [p for p in h["params"] if H.kind(p) == "Bind"]
    if not params:
        ctx.anchor_lost(rule, "%s: parameter not a plain binding" % fn_path)
        return
    src = params[0]["local"]
    body = H.peel(h["body"])
    st = None
    for n in H.walk(body):
        if H.kind(n) == "Struct":
            st = n
            break
    if st is None:
        ctx.anchor_lost(rule, "%s: no struct literal" % fn_path)
        return
    fields = {f["name"]: H.peel(f["e"]) for f in st["fields"]}
    inner = fields.get("inner")
    ok = False
    if inner is not None and H.kind(inner) == "MethodCall" and inner["name"] == "spanned":
        lx = H.peel(inner["recv"])
        c = H.callee(lx) or ""
        gargs = " ".join((lx.get("f", {}) or {}).get("gargs") or lx.get("gargs") or [])
        if c.endswith("::lexer") and ("lexer::Tok" in c or "lexer::Tok" in gargs):
            a = H.path_local(lx["args"][0]) if H.kind(lx) == "Call" else H.path_local(H.call_args(lx)[0])
            ok = bool(a) and a[0] == src
    ctx.check(ok, rule, fn_path + ":inner", "`inner` is not `Tok::lexer(<the constructor's argument>).spanned()`: "
              "part of the text may never be lexed", ctx.facts.bodies()[fn_path]["loc"],
              detail={"fn": fn_path, "inner": "Tok::lexer(param).spanned()"})
    depth = fields.get("comment_depth")
    ok = depth is not None and H.kind(depth) == "Lit" and depth["lit"].get("int") == "0"
    ctx.check(ok, rule, fn_path + ":comment_depth", "initial comment depth is not the literal 0",
              ctx.facts.bodies()[fn_path]["loc"], detail={"fn": fn_path, "comment_depth": 0})
    if "source_len" in fields:
        sl = fields["source_len"]
        ok = H.kind(sl) == "MethodCall" and sl["name"] == "len" and (H.path_local(sl["recv"]) or [None])[0] == src
        ctx.check(ok, rule, fn_path + ":source_len", "source_len is not <argument>.len()",
                  ctx.facts.bodies()[fn_path]["loc"], detail={"fn": fn_path, "source_len": "param.len()"})


def check_eof_in_comment(ctx, rule="eof-in-comment"):
    """F20: with a positive comment depth at the end of input the parser's lexer must hand the grammar a token."""
    from .. import mirlib as M
    ctx.rule(rule, "<Lexer as Iterator>::next returns None only where `self.comment_depth > 0` is false: every write of a None result "
                   "is dominated by the false edge of a `comment_depth > 0` test taken after the underlying lexer was exhausted (the end "
                   "of input inside a block comment is reported, not accepted)")
    b = ctx.need_mir(rule, LEXER_NEXT)
    loc = ctx.facts.bodies()[LEXER_NEXT]["loc"]
    # blocks that test comment_depth > 0: `_t = Gt(<copy of self.comment_depth>, 0)`; switch _t
    tests = []
    for bb in range(b.n):
        t = b.term(bb)
        if t["k"] != "switch":
            continue
        dp = M.op_place(t["discr"])
        if dp is None:
            continue
        for st in b.stmts(bb):
            rv = st["rv"]
            if st["d"] == M.place_local(dp) and rv["k"] == "bin" and rv.get("op") == "Gt" and M.op_const(rv["ops"][1]) is not None \
                    and M.op_const(rv["ops"][1]).get("bits") == "0":
                src = M.op_place(rv["ops"][0])
                depth = False
                if src is not None:
                    for d in b.defs_of(M.place_local(src)):
                        if d[0] == "stmt" and d[3]["rv"]["k"] == "use":
                            pl = M.op_place(d[3]["rv"]["ops"][0])
                            if pl is not None and any("comment_depth" in str(x) for x in M.place_proj(pl)):
                                depth = True
                    if any("comment_depth" in str(x) for x in M.place_proj(src)):
                        depth = True
                if depth:
                    tg = {int(v): x for v, x in t["targets"]}
                    if 0 in tg:
                        tests.append((bb, tg[0]))     # false edge
    nones = [bb for bb, k, s in b.assignments() if s["d"] == 0 and not (s["rv"]["k"] == "agg" and s["rv"].get("variant") == "Some")]
    ok = bool(nones) and all(any(b.dominates(f, n) for _, f in tests) for n in nones)
    ctx.check(ok, rule, "Lexer:none-needs-depth-0", "the parser's lexer can end the token stream while inside a block comment: a comment the "
              "author closed in a way the lexer does not see (`/- a -- b -/`, `/- note-/`) silently swallows the rest of the file", loc,
              detail={"none_sites": len(nones), "depth_tests": len(tests)})


def check_skip_rules(ctx, rule="skip-rules"):
    """The token definition may skip only white space; anything else it skips never reaches the grammar (nor fmt)."""
    import os
    import re
    from .. import facts as F
    ctx.rule(rule, "the logos definition of Tok (attributes read from lexer.rs) skips white space only: every `skip` pattern / "
                   "`logos::skip` callback matches nothing but blanks, tabs, newlines, form feeds")
    path = os.path.join(F.REPO, "lang/surface/src/textual/lexer.rs")
    with open(path) as fh:
        text = fh.read()
    m = re.search(r"#\[derive\([^\]]*\bLogos\b[^\]]*\)\](.*?)\n\}", text, re.S)
    if not m:
        ctx.anchor_lost(rule, "derive(Logos) enum not found in lexer.rs")
        return
    decl = m.group(1)
    skips = re.findall(r"#\[logos\(\s*skip\s*\(?\s*r#*\"(.*?)\"#*", decl) + re.findall(r"#\[logos\(\s*skip\s*\(?\s*\"(.*?)\"", decl)
    cb = re.findall(r"#\[(?:regex|token)\(\s*r?#*\"(.*?)\"#*\s*,[^\]]*\bskip\b", decl)
    n = 0
    for pat in skips + cb:
        n += 1
        ws_only = re.fullmatch(r"(\[( |\\t|\\n|\\f|\\r)+\][+*]?|\\s[+*]?| +)", pat) is not None
        ctx.check(ws_only, rule, "skip:%s" % pat, "the token definition skips `%s`: text matching it is dropped before the parser, the "
                  "formatter and every tool see it" % pat, ["lang/surface/src/textual/lexer.rs", text[:text.find(pat)].count("\n") + 1],
                  detail={"pattern": pat, "white_space_only": ws_only})
    ctx.floor(rule, "skip patterns", n, 1)


def check_depth_discipline(ctx, rule="comment-depth"):
    """the block-comment depth is a function of the CommentOpen / CommentClose TOKENS only"""
    from .. import armlib as A
    ctx.rule(rule, "in both lexers' next(), `comment_depth` is written only as `+= 1` in the arm of a CommentOpen token, `-= 1` in the arm "
                   "of a CommentClose token, and `= 0` in the end-of-input arm: the depth never changes in the middle of another "
                   "token's text (a line-comment or string token that contains `-/`), because the rest of that token would then be "
                   "outside every comment and yet never reach the grammar")
    facts = ctx.facts
    n = 0
    for fn, label in ((LEXER_NEXT, "Lexer"), (TOKENS_NEXT, "LexicalTokens")):
        h = ctx.need_hir(rule, fn)
        if h is None:
            continue
        loc = facts.bodies()[fn]["loc"]
        par = {}
        stack = [h["body"]]
        while stack:
            p = stack.pop()
            for c in H.children(p):
                if isinstance(c, dict):
                    par[id(c)] = p
                    stack.append(c)

        def arm_of(x):
            """pattern shapes of the match arms enclosing x (innermost first)"""
            out = []
            cur = x
            while id(cur) in par:
                p = par[id(cur)]
                if H.kind(p) == "Match" and not p.get("src"):
                    for a in p["arms"]:
                        if a is cur or a["body"] is cur or a.get("guard") is cur:
                            out.append(A.pat_shape(a["pat"]))
                if H.kind(p) == "If" and (p.get("t") is cur):
                    c = " ".join(A.pat_shape(a["pat"]) for m in H.walk(p["c"]) if H.kind(m) == "Match" for a in m["arms"]) + A.sexpr(p["c"], None)
                    if "CommentOpen" in c:
                        out.append("if-CommentOpen")
                cur = p
            return out
        for x in H.walk(h["body"]):
            if H.kind(x) not in ("Assign", "AssignOp"):
                continue
            l = H.peel(x["l"])
            if not (H.kind(l) == "Field" and l.get("name") == "comment_depth"):
                continue
            n += 1
            arms = " ".join(arm_of(x))
            rhs = A.sexpr(x["r"], None)
            if H.kind(x) == "AssignOp":
                op = (x.get("op") or "").replace("Assign", "")
                ok = (op == "Add" and rhs == "1" and "CommentOpen" in arms) or (op == "Sub" and rhs == "1" and "CommentClose" in arms)
                what = "%s= %s" % ({"Add": "+", "Sub": "-"}.get(op, op), rhs)
            else:
                ok = (rhs == "0" and "None" in arms) or (rhs == "1" and "if-CommentOpen" in arms)  # the first opener: 0 -> 1
                what = "= %s" % rhs[:80]
            ctx.check(ok, rule, "%s:write:%s" % (label, what if ok else "other"),
                      "%s::next writes `comment_depth %s` in the arm(s) [%s]: the depth must change only by one per CommentOpen / "
                      "CommentClose token (or be reset at end of input); a change computed from the text of another token leaves the "
                      "rest of that token unlexed" % (label, what, arms[:120]), [loc[0], x.get("ln")], detail={"write": what, "arm": arms[:80]})
    ctx.floor(rule, "writes of comment_depth", n, 4)
    # and nobody else writes it
    for fn, bd in sorted(facts.bodies().items()):
        if fn in (LEXER_NEXT, TOKENS_NEXT) or "zydeco_surface::textual::lexer" not in fn or "{closure" in fn:
            continue
        h = facts.hir(fn)
        if not h:
            continue
        for x in H.walk(h["body"]):
            if H.kind(x) in ("Assign", "AssignOp") and H.kind(H.peel(x["l"])) == "Field" and H.peel(x["l"]).get("name") == "comment_depth":
                ctx.violation(rule, "%s:writes-depth" % fn.split("::")[-1], "%s writes comment_depth outside next()" % fn, [bd["loc"][0], x.get("ln")])


def run(ctx):
    ctx.rule("stream-end", "the token stream ends (next() = None) only on the None edge of the underlying "
                           "lexer's next(): MIR reachability from each inner.next() call with its None edge cut")
    n = streamend.check_stream_end(ctx, "stream-end", LEXER_NEXT, streamend.spanned_iter_next, "Lexer")
    n += streamend.check_stream_end(ctx, "stream-end", TOKENS_NEXT, streamend.spanned_iter_next, "LexicalTokens")
    ctx.floor("stream-end", "underlying next() calls", n, 2)
    check_lexer_new(ctx, LEXER_NEW)
    check_lexer_new(ctx, TOKENS_NEW)
    check_front_doors(ctx)
    check_eof_in_comment(ctx)
    check_skip_rules(ctx)
    check_depth_discipline(ctx)
    check_source_readers(ctx)
    ctx.assume("LALRPOP-generated parsers accept only when the start symbol is followed by end of the token stream")
    ctx.assume("logos yields every byte of the input that no skip pattern matches either as a token or as an Err item")
    return {}


# how the tools obtain the text of a source file: the whole file as UTF-8, or an error. Every other way of reading or decoding
# bytes in the session / CLI / language-server crates is inventoried (what it reads is not a source file).
READER_OK = {
    ("zydeco_cli::native::BuildOptions::prepare", "read_dir"): "lists the runtime directory",
    ("zydeco_cli::native::NativeTool::run", "from_utf8_lossy"): "the output of an external tool (nasm / cc), for an error message",
    ("zydeco_tui::diagnostics::DiagnosticText::plain", "from_utf8_lossy"): "rendered diagnostic bytes",
    ("zydeco_tui::engine::ReplEngine::run_dynamics", "from_utf8_lossy"): "captured program output",
}


def check_source_readers(ctx, rule="source-readers"):
    facts = ctx.facts
    ctx.rule(rule, "the tools (session, CLI, language server, TUI) obtain the text of a source file only with std::fs::read_to_string: the "
                   "whole file, or an error (a file that is not valid UTF-8 is rejected). Reading bytes and decoding them by hand "
                   "(fs::read, File::open, read_to_end, from_utf8, from_utf8_lossy, Utf8Error::valid_up_to) can hand the parser a PREFIX "
                   "or a lossy copy of the file, which it then accepts in full: every such call is inventoried")
    pat = re.compile(r"std::fs::(read|read_dir|read_link)$|std::fs::File::open$|std::fs::OpenOptions::open$|io::Read>::read_to_(string|end)$|"
                     r"from_utf8(_lossy|_unchecked)?$|Utf8Error::valid_up_to$|FromUtf8Error::utf8_error$|std::io::read_to_string$")
    n_ok = 0
    readers = 0
    for c in facts.calls():
        fr = c["from"].split("::{closure")[0]
        if "::tests::" in fr or c["loc"][0].endswith("tests.rs"):
            continue
        if not c["loc"][0].startswith(("lang/session/", "cli/", "editor/", "tui/")):
            continue
        if c["to"].endswith("std::fs::read_to_string"):
            readers += 1
            continue
        if not pat.search(c["to"]):
            continue
        api = c["to"].split("::")[-1]
        if (fr, api) in READER_OK:
            n_ok += 1
            ctx.ok(rule, "%s:%s" % (fr.split("::")[-1], api), {"audited": READER_OK[(fr, api)]})
            continue
        ctx.violation(rule, "%s:%s" % (fr.split("::")[-1], api), "%s reads or decodes bytes with %s: a source file must reach the parser whole "
                      "(std::fs::read_to_string) or be rejected; a hand-made decoder that stops at the first invalid byte makes the "
                      "parser accept a prefix of the file" % (fr, c["to"]), c["loc"])
    ctx.floor(rule, "read_to_string sites in the tools", readers, 3)
