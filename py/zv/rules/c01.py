"""C01 — accepted programs never go wrong: soundness gates, error discipline, equality tables, hole inventory."""
import re

from .. import armlib as A
from .. import hirlib as H
from .. import mirlib as M
from .. import tys
from . import lubarms
from . import matcher

EXPLANATION = (
    "Soundness of the checker is not decidable by static analysis; decided are structural necessary conditions: (1) "
    "acceptance gates by MIR dominance and who-may-construct: Checked/CheckedSource, ExecutableProgram and DynamicsProgram "
    "are built only in the listed functions and only on the success edges of their validators; normalize_and_validate_k "
    "returns Ok only with an empty error list, which is append-only; hole closing and coverage validation are on the path; "
    "(2) error discipline over all of zydeco-statics: no result of the unrecorded error type is dropped, bound to `_`, or "
    "`.ok()`-ed outside the audited probe helpers; (3) definitional equality performs every audited field comparison, "
    "rejects every off-diagonal pair and keeps the guards of its accepting leaf cases; (4) the Builtin classifier matcher "
    "compares every decisive case; (5) erasure (Link) handles every variant explicitly; (6) Value::Hole / Computation::Hole "
    "are constructed only where listed (F7: typed holes are accepted by design and get stuck, recorded as a known finding)."
)

ST = "zydeco_statics::"
TYCKER = "zydeco_statics::check::Tycker::<'a>::"
PURE = re.compile(r"^core::result::Result<.*, alloc::boxed::Box<zydeco_statics::check::error::TyckErrorEntry>>$")
# helper functions that legitimately probe with .ok(): shape destructors returning Option
OK_PROBES = re.compile(r"^zydeco_statics::destruct::<impl zydeco_statics::syntax::(TypeId|KindId|TPatId)>::(try_)?destruct_\w+$")
SPECULATIVE = {
    "zydeco_statics::normalize::<impl zydeco_statics::syntax::FillId>::fill":
        "speculative fill: on failure the solution is restored and the error is returned (result bound, tested with is_err, then returned)",
    "zydeco_statics::elaborate::monadic::PackPiWitnessLayout::new": "maps the Ok value of a layout query; the Result itself is returned",
}


HOLE_EXEMPT = {
    "zydeco_statics::destruct::<impl zydeco_statics::syntax::VPatId>::reify": {
        "reason": "reify turns a pattern into the value of its variables; it is applied only by the monadic elaboration to patterns "
                  "it generated itself (variables, generated package binders), never to a user wildcard that is later evaluated",
        "callers": ["elaborate::monadic"],
    },
}


def who_constructs(facts, adt, variant=None):
    out = {}
    for t in facts.tags():
        for a in facts.index(t).get("aggs", []):
            if a.get("adt") == adt and (variant is None or a.get("variant") == variant):
                if a.get("expn") and a["expn"][0] in ("Clone", "Debug"):
                    continue
                out.setdefault(a["fn"].split("::{closure")[0], a)
    return out


def rule_gates(ctx):
    rule = "gate"
    facts = ctx.facts
    ctx.rule(rule, "who-may-construct + MIR dominance: CheckedSource only in Tycker::check_source_outcome / query::check_source "
                   "on the Ok edge of the validators; ExecutableProgram only in CompilerSession::executable_program after the "
                   "Checked / Compu / PackPi tests; DynamicsProgram only after BuiltinPackagePlan::for_executable(..)?")
    # ---- CheckedSource -----------------------------------------------------------------------------------
    CS = "zydeco_statics::check::CheckedSource"
    sites = who_constructs(facts, CS)
    allowed = {TYCKER + "check_source_outcome": ["run_source_k"],
               "<zydeco_statics::query::_::check_source_Configuration_ as salsa::function::Configuration>::execute::inner_":
                   ["normalize_and_validate_k", "run_judgments_k"]}
    extra = sorted(set(sites) - set(allowed))
    ctx.check(not extra and sites, rule, "CheckedSource:constructors",
              "CheckedSource (the accepted outcome) is also constructed in %s" % extra, None, detail={"constructed_in": sorted(sites)})
    for fn, validators in allowed.items():
        if fn not in facts.bodies():
            ctx.anchor_lost(rule, "%s not found" % fn)
            continue
        b = ctx.need_mir(rule, fn)
        agg_bbs = [bb for bb, k, s in b.assignments() if s["rv"]["k"] == "agg" and s["rv"].get("adt") == CS]
        if not agg_bbs:
            ctx.anchor_lost(rule, "%s no longer constructs CheckedSource" % fn)
            continue
        for v in validators:
            calls = [bb for bb, t in b.calls() if t["fn"].endswith("::" + v)]
            if not calls:
                ctx.violation(rule, "%s:%s" % (_short(fn), v), "%s accepts without calling %s" % (fn, v), facts.bodies()[fn]["loc"])
                continue
            for abb in agg_bbs:
                ok = False
                for cb in calls:
                    sb = b.success_blocks(cb)
                    if sb is not None and b.dominates(sb[0], abb):
                        ok = True
                    elif sb is None and b.dominates(cb, abb) and M.dominated_by_variant(b, abb, "Option", "Some"):
                        ok = True   # `.ok()` + match Some(root)
                ctx.check(ok, rule, "%s:%s" % (_short(fn), v),
                          "%s builds CheckedSource on a path that is not the success edge of %s" % (fn, v), facts.bodies()[fn]["loc"],
                          detail={"fn": _short(fn), "dominated_by": "Ok edge of %s" % v})
    # ---- the finish phase ----------------------------------------------------------------------------------
    fn = TYCKER + "run_source_k"
    h = ctx.need_hir(rule, fn)
    calls = [c.split("::")[-1] for _, c in H.calls(h["body"])]
    tries = [A.sexpr(H.try_inner(n), _penv(h)) for n in H.walk(h["body"]) if H.is_try(n)]
    ok = "run_judgments_k" in calls and any("finish_check_k" in t for t in tries) and len(tries) >= 2
    ctx.check(ok, rule, "run_source_k", "run_source_k must propagate (`?`) both the judgments and finish_check_k (tries: %s)" % tries,
              facts.bodies()[fn]["loc"], detail={"propagates": tries})
    fn = TYCKER + "finish_check_k"
    h = ctx.need_hir(rule, fn)
    calls = [c.split("::")[-1] for _, c in H.calls(h["body"])]
    ctx.check(calls[:2] == ["resolve_holes_and_collect", "normalize_and_validate_k"], rule, "finish_check_k",
              "finish_check_k is %s, expected resolve_holes_and_collect then normalize_and_validate_k" % calls,
              facts.bodies()[fn]["loc"], detail={"calls": calls})
    fn = TYCKER + "run_judgments_k"
    h = ctx.need_hir(rule, fn)
    tries = [A.sexpr(H.try_inner(n), _penv(h)) for n in H.walk(h["body"]) if H.is_try(n)]
    ctx.check(any("InferenceRegion::close_k" in t for t in tries) and any("tyck_k" in t for t in tries), rule, "run_judgments_k",
              "run_judgments_k must `?` both the root judgment and InferenceRegion::close_k (unsolved holes): %s" % tries,
              facts.bodies()[fn]["loc"], detail={"propagates": [t[:80] for t in tries]})
    # normalize_and_validate_k: Ok only when errors is empty; coverage validation feeds errors
    fn = TYCKER + "normalize_and_validate_k"
    b = ctx.need_mir(rule, fn)
    h = ctx.need_hir(rule, fn)
    empties = [(bb, t) for bb, t in b.calls() if t["fn"].endswith("Vec::<T, A>::is_empty") or t["fn"].endswith("::is_empty")]
    ok_ret = [bb for bb, k, s in b.assignments() if s["d"] == 0 and s["rv"]["k"] == "agg" and s["rv"].get("variant") == "Ok"]
    good = False
    for bb, t in empties:
        sw = b.switch_on_bool_call(bb)
        if sw is None:
            continue
        true_bb, false_bb = sw
        # a final test whose true edge (errors empty) dominates every Ok return
        if ok_ret and all(b.dominates(true_bb, r) for r in ok_ret) and not any(b.dominates(false_bb, r) for r in ok_ret):
            good = True
    ctx.check(good, rule, "normalize_and_validate_k:errors-empty",
              "normalize_and_validate_k can return Ok(()) on a path where `errors.is_empty()` was not just observed true",
              facts.bodies()[fn]["loc"], detail={"ok_returns": len(ok_ret), "dominated_by": "true edge of errors.is_empty()"})
    s = A.sexpr(h["body"], _penv(h))
    cov = [n for n, c in H.calls(h["body"]) if c.endswith("CoverageChecker::<'a>::validate") or c.endswith("CoverageChecker::validate")]
    ext = [n for n, c in H.calls(h["body"]) if c.endswith("::extend") and "errors" in A.sexpr(n, _penv(h))[:200]]
    ctx.check(bool(cov) and bool(ext), rule, "normalize_and_validate_k:coverage",
              "coverage validation is not run / its errors are not appended to the error list", facts.bodies()[fn]["loc"],
              detail={"coverage_validate_calls": len(cov), "errors_extend": len(ext)})
    # errors is append-only
    bad = []
    n_uses = 0
    for path, bd in facts.bodies().items():
        if bd["tag"] != "zydeco_statics" or bd.get("expn"):
            continue
        hh = facts.hir(path)
        if hh is None:
            continue
        for n in H.walk(hh["body"]):
            k = H.kind(n)
            if k == "MethodCall":
                r = H.peel(n["recv"])
                if H.kind(r) == "Field" and r["name"] == "errors" and "Tycker" in r.get("base_ty", ""):
                    n_uses += 1
                    if n["name"] not in ("push", "extend", "is_empty", "iter", "len", "as_slice", "first", "last", "clone"):
                        bad.append((path, n["name"], n.get("ln")))
            if k in ("Assign", "AssignOp"):
                l = H.peel(n["l"])
                if H.kind(l) == "Field" and l["name"] == "errors" and "Tycker" in l.get("base_ty", ""):
                    bad.append((path, "assignment", n.get("ln")))
            if k == "Call" and (H.callee(n) or "").startswith("core::mem::"):
                for a in n["args"]:
                    aa = H.peel(a)
                    if H.kind(aa) == "Field" and aa["name"] == "errors":
                        bad.append((path, H.callee(n), n.get("ln")))
    for path, what, ln in bad:
        ctx.violation(rule, "errors-append-only:%s:%s" % (_short(path), what),
                      "%s modifies Tycker::errors with `%s`: a recorded error can disappear before the acceptance test" % (path, what),
                      [facts.bodies()[path]["loc"][0], ln])
    ctx.ok(rule, "errors-append-only", {"uses_of_Tycker.errors": n_uses, "non_append_writers": len(bad)})
    ctx.floor(rule, "uses of Tycker::errors", n_uses, 5)
    # ---- ExecutableProgram ---------------------------------------------------------------------------------------
    EP = "zydeco_session::source::query::ExecutableProgram"
    sites = who_constructs(facts, EP)
    fn = "zydeco_session::source::query::CompilerSession::executable_program"
    ctx.check(set(sites) == {fn}, rule, "ExecutableProgram:constructors", "ExecutableProgram is constructed in %s" % sorted(sites), None,
              detail={"constructed_in": sorted(sites)})
    if fn in facts.bodies():
        b = ctx.need_mir(rule, fn)
        aggs = [bb for bb, k, s in b.assignments() if s["rv"]["k"] == "agg" and s["rv"].get("adt") == EP]
        for abb in aggs:
            for adt, var in (("SourceCheckOutcome", "Checked"), ("TermAnnId", "Compu"), ("Type", "PackPi"), ("Fillable", "Done")):
                ok = M.dominated_by_variant(b, abb, adt, var)
                ctx.check(ok, rule, "ExecutableProgram:%s::%s" % (adt, var),
                          "executable_program builds an ExecutableProgram without having matched %s::%s" % (adt, var),
                          facts.bodies()[fn]["loc"], detail={"dominated_by": "%s::%s" % (adt, var)})
    # ---- host operations are materialised only from a validated package plan ------------------------------------
    BP = "zydeco_statics::builtin::BuiltinPackagePlan"
    sites = who_constructs(facts, BP)
    want = {"zydeco_statics::builtin::BuiltinPackagePlan::for_computation": "validate",
            "zydeco_statics::builtin::BuiltinPackagePlan::for_value": "validate_value"}
    ctx.check(set(sites) == set(want), rule, "BuiltinPackagePlan:constructors",
              "BuiltinPackagePlan is constructed in %s, expected only %s" % (sorted(sites), sorted(want)), None,
              detail={"constructed_in": sorted(sites)})
    for fn, v in want.items():
        if fn not in facts.bodies():
            ctx.anchor_lost(rule, "%s not found" % fn)
            continue
        b = ctx.need_mir(rule, fn)
        aggs = [bb for bb, k, st in b.assignments() if st["rv"]["k"] == "agg" and st["rv"].get("adt") == BP]
        vals = [bb for bb, t in b.calls() if t["fn"].endswith("BuiltinSignatureValidator::<'a>::" + v)]
        ok = bool(vals) and bool(aggs)
        for a in aggs:
            ok = ok and any(b.success_blocks(c) is not None and b.dominates(b.success_blocks(c)[0], a) for c in vals)
        ctx.check(ok, rule, "BuiltinPackagePlan:%s" % fn.rsplit("::", 1)[-1],
                  "%s builds a package plan that is not dominated by the success edge of BuiltinSignatureValidator::%s: a host "
                  "role attached to a wrong type would be linked" % (fn, v), facts.bodies()[fn]["loc"],
                  detail={"fn": fn.rsplit("::", 1)[-1], "dominated_by": "Ok edge of BuiltinSignatureValidator::%s" % v})
    ops = who_constructs(facts, "zydeco_statics::builtin::BuiltinPackageValue", "Operation")
    ctx.check(all("BuiltinPackagePlanner" in f for f in ops) and ops, rule, "BuiltinPackageValue::Operation:constructors",
              "BuiltinPackageValue::Operation is constructed in %s (only the planner may turn a recorded role into an operation)" % sorted(ops),
              None, detail={"constructed_in": sorted(ops)})
    pv = [c["from"] for c in facts.calls() if c["to"].endswith("BuiltinRuntime::package_value")]
    ctx.check(pv and all("BuiltinPackageLinker" in f for f in pv), rule, "package_value:callers",
              "BuiltinRuntime::package_value (Prim materialisation) is called from %s" % sorted(set(pv)), None,
              detail={"callers": sorted(set(pv))})
    fe = "zydeco_statics::builtin::BuiltinPackagePlan::for_executable"
    if fe not in facts.bodies():
        ctx.anchor_lost(rule, "for_executable not found")
    else:
        h = ctx.need_hir(rule, fe)
        tries = [A.sexpr(H.try_inner(n), _penv(h)) for n in H.walk(h["body"]) if H.is_try(n)]
        ctx.check(any("for_computation" in t for t in tries) and any("validate_executable" in t for t in tries), rule, "for_executable",
                  "for_executable must `?` both for_computation (signature validation) and validate_executable: %s" % [t[:70] for t in tries],
                  facts.bodies()[fe]["loc"], detail={"propagates": [t[:80] for t in tries]})
    bl = "zydeco_dynamics::link::BuiltinRootLinker::run"
    if bl in facts.bodies():
        h = ctx.need_hir(rule, bl)
        tries = [A.sexpr(H.try_inner(n), _penv(h)) for n in H.walk(h["body"]) if H.is_try(n)]
        ctx.check(any("for_executable" in t for t in tries), rule, "BuiltinRootLinker::run",
                  "the executable linker does not `?` BuiltinPackagePlan::for_executable", facts.bodies()[bl]["loc"],
                  detail={"propagates": [t[:80] for t in tries]})


def _penv(h):
    e = A.Env()
    e.bind_params(h)
    return e


def _short(p):
    p = re.sub(r"<zydeco_statics::query::_::(\w+)_Configuration_ as salsa::function::Configuration>::execute::inner_", r"query::\1", p)
    return p.replace("zydeco_statics::", "").replace("zydeco_", "")


def rule_err(ctx):
    rule = "err-discipline"
    facts = ctx.facts
    ctx.rule(rule, "every value of type Result<_, Box<TyckErrorEntry>> (an error that is NOT yet recorded) in zydeco-statics is "
                   "propagated (`?`), returned, matched, handed to err_p_to_k / a combinator, or bound and then used; never "
                   "dropped, bound to `_`, or `.ok()`-ed outside the audited probe helpers")
    n = 0
    kinds = {}
    for path, bd in sorted(facts.bodies().items()):
        if bd["tag"] != "zydeco_statics" or bd.get("expn"):
            continue
        h = facts.hir(path)
        if h is None:
            continue
        par = {}
        stack = [(h["body"], None)]
        while stack:
            x, p = stack.pop()
            if not isinstance(x, dict):
                continue
            par[id(x)] = p
            for c in H.children(x):
                stack.append((c, x))
        owner = path.split("::{closure")[0]
        for x in H.walk(h["body"]):
            if H.kind(x) not in ("Call", "MethodCall") or not PURE.match(x.get("ty") or ""):
                continue
            c = H.callee(x) or ""
            if c.endswith("Result::Err") or c.endswith("Result::Ok") or c.endswith("::from_residual"):
                continue
            n += 1
            p = par.get(id(x))
            k = H.kind(p)
            verdict = None
            if k in ("Semi",):
                verdict = "result dropped (statement)"
            elif k == "Let" and p.get("init") is x:
                pk = H.kind(p["pat"])
                if pk == "Wild":
                    verdict = "result bound to `_`"
                elif pk == "Bind":
                    uses = [u for u in H.walk(h["body"]) if H.kind(u) == "Path" and u.get("res", {}).get("local") == p["pat"]["local"]]
                    if not uses:
                        verdict = "result bound to `%s` and never used" % p["pat"]["name"]
            elif k == "MethodCall" and p["recv"] is x and p["name"] in ("ok", "is_ok", "is_err", "unwrap_or", "unwrap_or_default",
                                                                        "unwrap_or_else", "err", "iter", "into_iter"):
                if OK_PROBES.match(owner) and p["name"] == "ok":
                    kinds["probe .ok()"] = kinds.get("probe .ok()", 0) + 1
                elif owner in SPECULATIVE:
                    kinds["speculative"] = kinds.get("speculative", 0) + 1
                else:
                    verdict = "error discarded with .%s()" % p["name"]
            elif k == "Call" and (H.callee(p) or "").startswith("core::mem::drop"):
                verdict = "result dropped (drop)"
            if verdict:
                ctx.violation(rule, "%s:%s:%s" % (_short(owner), c.split("::")[-1], verdict.split(" (")[0]),
                              "%s: %s of `%s`: a failed check (kind / escape / arity / equality) is silently ignored"
                              % (owner, verdict, c), [bd["loc"][0], x.get("ln")])
            else:
                kk = "?" if (k == "Call" and (H.callee(p) or "").endswith("::branch")) else (k or "tail")
                kinds[kk] = kinds.get(kk, 0) + 1
    ctx.ok(rule, "inventory", {"call_sites_returning_unrecorded_error": n, "consumers": kinds})
    ctx.floor(rule, "call sites returning the unrecorded error type", n, 650)


def rule_link(ctx):
    rule = "erasure-explicit"
    facts = ctx.facts
    ctx.rule(rule, "Link for VPatId / ValueId / CompuId handles every statics variant in an explicit arm (no `_` default): a new "
                   "typed former cannot be erased by accident")
    for ty, adt in (("VPatId", "ValuePattern"), ("ValueId", "Value"), ("CompuId", "Computation")):
        fn = "<zydeco_statics::syntax::%s as zydeco_dynamics::link::Link>::link" % ty
        h = ctx.need_hir(rule, fn)
        variants = [v["name"] for v in facts.adts()["zydeco_statics::syntax::" + adt]["variants"]]
        m = None
        for x in H.walk(h["body"]):
            if H.kind(x) == "Match" and not x.get("src") and tys.strip_refs(x.get("scrut_ty", "")).startswith("zydeco_statics::syntax::" + adt):
                m = x
                break
        if m is None:
            ctx.anchor_lost(rule, "%s: dispatch match not found" % fn)
            continue
        arms = A.arms_by_variant(m)
        missing = [v for v in variants if v not in arms]
        ctx.check(not missing and "_" not in arms, rule, ty, "Link for %s: variants %s have no explicit arm (default arm: %s)"
                  % (ty, missing, "_" in arms), facts.bodies()[fn]["loc"], detail={"variants": len(variants), "explicit_arms": len(arms)})


def rule_holes(ctx):
    rule = "typed-hole"
    facts = ctx.facts
    ctx.rule(rule, "who-may-construct Value::Hole / Computation::Hole in zydeco-statics: a checked arena may contain a hole node "
                   "only where listed; the interpreter panics on them (`Hole in value`)")
    for adt, name in (("zydeco_statics::syntax::Value", "Value::Hole"), ("zydeco_statics::syntax::Computation", "Computation::Hole")):
        sites = who_constructs(facts, adt, "Hole")
        for fn in sorted(sites):
            if not fn.startswith("zydeco_statics") and not fn.startswith("<zydeco_statics"):
                continue
            if "core::convert::From<" in fn:
                # derive(From) conversion: report its users (transitively through the Alloc impl for Hole)
                users = set()
                work = [fn]
                seen = set()
                while work:
                    f = work.pop()
                    if f in seen:
                        continue
                    seen.add(f)
                    for c in facts.calls():
                        if c["to"] == f:
                            cf = c["from"].split("::{closure")[0]
                            if "alloc::Alloc<" in cf and "zydeco_syntax::Hole" in cf:
                                work.append(cf)
                            elif cf != f:
                                users.add(cf)
                for cfn in sorted(users):
                    why = HOLE_EXEMPT.get(cfn)
                    if why:
                        callers = sorted(set(c["from"].split("::{closure")[0] for c in facts.calls()
                                             if c["to"] == cfn and c["from"].split("::{closure")[0] != cfn))
                        ok = all(any(a in x for a in why["callers"]) for x in callers)
                        ctx.check(ok, rule, "%s:%s" % (_short(cfn), name),
                                  "%s builds %s and is now called from %s (exemption assumed only %s)" % (cfn, name, callers, why["callers"]),
                                  None, detail={"fn": _short(cfn), "exempt_because": why["reason"], "callers": callers})
                    else:
                        ctx.violation(rule, "%s:%s" % (_short(cfn), name), "%s builds %s through From<Hole>" % (cfn, name), None)
                continue
            ctx.violation(rule, "%s:%s" % (_short(fn), name),
                          "%s constructs %s on an accepting path: `let x : Int64 = _ in ..` is accepted by check and the "
                          "interpreter stops with `Hole in value`" % (fn, name), sites[fn].get("loc"))
        ctx.note("%s constructed in: %s" % (name, sorted(sites)))


def _parents(root):
    par = {}
    stack = [root]
    while stack:
        n = stack.pop()
        for c in H.children(n):
            if isinstance(c, dict):
                par[id(c)] = n
                stack.append(c)
    return par


def rule_branch_join(ctx):
    """a former that synthesises ONE type from several branches joins ALL the branch types"""
    rule = "branch-join"
    facts = ctx.facts
    ctx.rule(rule, "in the checker (zydeco_statics::check), every vector that collects one synthesised type per branch (pushed once per "
                   "arm in a loop) is consumed whole through Lub::lub_k: its first element seeds an accumulator and a loop / fold over "
                   "ALL remaining elements replaces the accumulator by lub_k(accumulator, element); no element is read by index, "
                   "`first()`, or `next()` alone. Otherwise a match whose arms have different types is accepted in synthesis mode")
    n = 0
    for fn, bd in sorted(facts.bodies().items()):
        if not (fn.startswith("zydeco_statics::check::") or "as zydeco_statics::check::" in fn) or "{closure" in fn:
            continue
        h = facts.hir(fn)
        if not h:
            continue
        vecs = {}
        for c in H.walk(h["body"]):
            if H.kind(c) == "MethodCall" and c["name"] == "push" and re.search(r"Vec<zydeco_statics::syntax::TypeId>", c.get("recv_ty") or ""):
                l = H.path_local(c["recv"])
                if l:
                    vecs.setdefault(l[0], l[1])
        if not vecs:
            continue
        par = _parents(h["body"])
        # only vectors filled once per branch: a push inside a `for` over the arms
        for v, vname in sorted(vecs.items()):
            pushes_in_loop = False
            for c in H.walk(h["body"]):
                if H.kind(c) == "Match" and H.is_for(c):
                    _, it, body = H.for_parts(c)
                    if body is not None and re.search(r"Matcher<|CoMatcher<|arms", (it.get("ty") or "") + A.sexpr(it, None)) and any(
                            H.kind(x) == "MethodCall" and x["name"] == "push" and (H.path_local(x["recv"]) or [None])[0] == v for x in H.walk(body)):
                        pushes_in_loop = True
            if not pushes_in_loop:
                continue
            n += 1
            inst = "%s:%s" % (M.short_fn(fn) if hasattr(M, "short_fn") else fn.split("::")[-1], "branch-types")
            loc = [bd["loc"][0], bd["loc"][1]]
            bad = []
            joined = False
            for u in H.walk(h["body"]):
                if H.kind(u) != "Path" or (H.path_local(u) or [None])[0] != v:
                    continue
                p = par.get(id(u))
                while p is not None and H.kind(p) in ("AddrOf", "Use", "Type", "DropTemps"):
                    u, p = p, par.get(id(p))
                if H.kind(p) == "MethodCall" and p.get("recv") is u and p["name"] in ("push", "is_empty", "len"):
                    continue
                if H.kind(p) == "MethodCall" and p.get("recv") is u and p["name"] in ("into_iter", "iter", "drain"):
                    ok, why = _joined_iterator(h, par, p)
                    joined = joined or ok
                    if not ok:
                        bad.append(why)
                    continue
                if H.kind(p) == "Match" and H.is_for(p):
                    ok, why = _lub_loop(h, par, p, None)
                    joined = joined or ok
                    if not ok:
                        bad.append(why)
                    continue
                bad.append("`%s` is read by %s at line %s" % (vname, H.kind(p) + (":" + p.get("name", "") if H.kind(p) == "MethodCall" else ""), u.get("ln") or p.get("ln")))
            ctx.check(joined and not bad, rule, inst,
                      "%s: the per-arm types collected in `%s` are not all joined by Lub::lub_k (%s): arms of different types are "
                      "accepted when the match is checked in synthesis mode, and the run-time value has the type of the arm that "
                      "ran" % (fn, vname, "; ".join(bad) or "no join found"), loc, detail={"vector": vname, "joined": joined})
    ctx.floor(rule, "per-branch type vectors", n, 1)


def _uses_lub(node, a_local, b_local):
    for c in H.walk(node):
        if H.kind(c) in ("Call", "MethodCall") and re.search(r"Lub>::lub_k$|Lub::lub_k$|Lub>::lub$|Lub::lub$", H.callee(c) or ""):
            ls = set((H.path_local(x) or [None])[0] for a in H.call_args(c) for x in H.walk(a) if H.kind(x) == "Path")
            if a_local in ls and (b_local is None or b_local in ls):
                return True
    return False


def _lub_loop(h, par, loop, acc):
    """`for x in IT { acc = lub_k(acc, x)? }`"""
    pat, it, body = H.for_parts(loop)
    xs = [b["local"] for b in H.pat_bindings(pat)] if pat is not None else []
    if body is None or len(xs) != 1:
        return False, "loop over the arm types does not bind one element"
    for c in H.walk(body):
        if H.kind(c) == "Assign":
            l = H.path_local(c["l"])
            if l and (acc is None or l[0] == acc) and _uses_lub(c["r"], xs[0], l[0]):
                return True, ""
    return False, "the loop over the arm types does not replace the accumulator by lub_k(accumulator, element)"


def _joined_iterator(h, par, it_call):
    """the iterator made from the vector: first element seeds R, and a loop / fold over the rest joins into R"""
    p = par.get(id(it_call))
    while p is not None and H.kind(p) in ("AddrOf", "Use", "Type", "DropTemps"):
        it_call, p = p, par.get(id(p))
    # direct fold / try_fold / reduce on the iterator
    if H.kind(p) == "MethodCall" and p.get("recv") is it_call and p["name"] in ("fold", "try_fold", "reduce", "try_reduce"):
        clo = [H.peel(a) for a in p["args"] if H.kind(H.peel(a)) == "Closure"]
        if clo:
            ps = [b["local"] for q in clo[0]["params"] for b in H.pat_bindings(q)]
            if len(ps) >= 2 and _uses_lub(clo[0]["body"], ps[0], ps[1]):
                return True, ""
        return False, "the fold over the arm types does not apply lub_k to accumulator and element"
    if H.kind(p) == "Match" and H.is_for(p):
        return _lub_loop(h, par, p, None)
    if H.kind(p) != "Let":
        return False, "the iterator over the arm types is consumed by %s" % H.kind(p)
    its = [b["local"] for b in H.pat_bindings(p["pat"])]
    if len(its) != 1:
        return False, "iterator binding not understood"
    itl = its[0]
    seed = None
    looped = False
    why = "no loop over the remaining arm types"
    for u in H.walk(h["body"]):
        if H.kind(u) != "Path" or (H.path_local(u) or [None])[0] != itl:
            continue
        q = par.get(id(u))
        while q is not None and H.kind(q) in ("AddrOf", "Use", "Type", "DropTemps"):
            u, q = q, par.get(id(q))
        if H.kind(q) == "MethodCall" and q.get("recv") is u and q["name"] == "next":
            # let mut R = it.next().unwrap()
            r = q
            while r is not None and H.kind(r) != "Let":
                r = par.get(id(r))
            if r is not None:
                bs = [b["local"] for b in H.pat_bindings(r["pat"])]
                seed = bs[0] if len(bs) == 1 else None
            continue
        if H.kind(q) == "Match" and H.is_for(q) or (H.kind(q) == "Call" and H.is_for(par.get(id(q)) or {})):
            loop = q if H.kind(q) == "Match" else par.get(id(q))
            ok, w = _lub_loop(h, par, loop, seed)
            looped = looped or ok
            why = w or why
            continue
        if H.kind(q) == "MethodCall" and q.get("recv") is u and q["name"] in ("fold", "try_fold"):
            clo = [H.peel(a) for a in q["args"] if H.kind(H.peel(a)) == "Closure"]
            ps = [b["local"] for c in clo[:1] for x in c["params"] for b in H.pat_bindings(x)]
            if len(ps) >= 2 and _uses_lub(clo[0]["body"], ps[0], ps[1]):
                looped = True
            continue
    if seed is None and not looped:
        return False, "only the iterator is taken; no element is joined"
    return looped, ("" if looped else "the first arm type is taken but %s" % why)


def rule_declaration_lookup(ctx):
    """one lookup of a constructor / destructor in its declaration, for terms and patterns alike"""
    rule = "declaration-lookup"
    facts = ctx.facts
    ctx.rule(rule, "the payload type of a constructor and the result type of a destructor are looked up in the declaration only through "
                   "Data::get / CoData::get (first declaration of the name): no name-keyed map of declaration arms (HashMap / BTreeMap "
                   "from CtorName / DtorName to TypeId, where the LAST declaration wins) is built anywhere in zydeco-statics, and the "
                   "constructor term, the constructor pattern and definitional equality all reach Data::get. With a repeated name the "
                   "term and the pattern would otherwise be checked at different payload types")
    n = 0
    for fn, bd in sorted(facts.bodies().items()):
        if "zydeco_statics" not in fn or "::tests::" in fn:
            continue
        h = facts.hir(fn)
        if not h:
            continue
        for x in H.walk(h["body"]):
            t = x.get("ty") or ""
            if H.kind(x) in ("MethodCall", "Call"):
                n += 1
                if re.search(r"(HashMap|BTreeMap|OrdMap)<zydeco_syntax::(CtorName|DtorName), zydeco_statics::syntax::TypeId\b", t):
                    ctx.violation(rule, "%s:name-keyed-arms" % M.short_fn(fn.split("::{closure")[0]),
                                  "%s builds a %s of declaration arms: on a repeated constructor / destructor name the last declaration "
                                  "wins, while Data::get / CoData::get (used by the other judgments) take the first; a value built at "
                                  "one payload type is then matched at another" % (fn, t.split("<")[0].split("::")[-1]),
                                  [bd["loc"][0], x.get("ln")])
    ct = facts.calls_to()
    for which, need in (("Data", ("syntax::TermId> as zydeco_statics::check::Tyck<'a>>::tyck_inner_k",
                                  "syntax::PatId> as zydeco_statics::check::Tyck<'a>>::tyck_inner_k",
                                  "zydeco_statics::check::lub::Debruijn::lub_inner")),
                        ("CoData", ("syntax::TermId> as zydeco_statics::check::Tyck<'a>>::tyck_inner_k",
                                    "zydeco_statics::check::lub::Debruijn::lub_inner"))):
        callee = "zydeco_statics::syntax::impls_structs::<impl zydeco_statics::syntax::%s>::get" % which
        callers = set(c["from"].split("::{closure")[0] for c in ct.get(callee, []))
        for w in need:
            ctx.check(any(c.endswith(w) for c in callers), rule, "%s::get:%s" % (which, w.split("::")[-2 if w.endswith("_k") else -1][:40] + ("/" + w.split(" as ")[0].split("::")[-1] if " as " in w else "")),
                      "%s no longer looks names up through %s::get (callers: %s)" % (w, which, sorted(callers)), None,
                      detail={"lookup": which + "::get", "caller": w})
    ctx.floor(rule, "call expressions inspected", n, 5000)
    # .. and a name denotes at most one arm: the declaration judgments reject a repeated name
    fn = next((p for p in facts.bodies() if p.endswith("bitter::syntax::TermId> as zydeco_statics::check::Tyck<'a>>::tyck_inner_k")), None)
    h = facts.hir(fn) if fn else None
    if h is None:
        ctx.anchor_lost(rule, "term judgment not found")
        return
    ms = [m for m in H.walk(h["body"]) if H.kind(m) == "Match" and not m.get("src") and "bitter::syntax::Term<" in (m.get("scrut_ty") or "")]
    big = max(ms, key=lambda m: len(m["arms"]))
    for a in big["arms"]:
        v = A.pat_shape(a["pat"]).split("(")[0]
        if v not in ("Data", "CoData"):
            continue
        ok = False
        for lp in H.walk(a["body"]):
            if not (H.kind(lp) == "Match" and H.is_for(lp)):
                continue
            _, _, body = H.for_parts(lp)
            if body is None:
                continue
            accs = set((H.path_local(c["recv"]) or [None])[0] for c in H.walk(body)
                       if H.kind(c) == "MethodCall" and c["name"] in ("push_back", "push", "insert"))
            for cond in H.walk(body):
                if H.kind(cond) != "If":
                    continue
                reads_acc = any(H.kind(u) == "Path" and (H.path_local(u) or [None])[0] in accs for u in H.walk(cond["c"]))
                errs = any(c.endswith("::err_k") for _, c in H.calls(cond["t"]))
                if reads_acc and errs:
                    ok = True
        ctx.check(ok, rule, "%s:unique-names" % v, "the %s declaration judgment does not reject a repeated %s name: every consumer looks "
                  "a name up and takes the first hit, so `data | +A : Unit | +A : Unit end` is accepted as equal to `data | +A : Unit | "
                  "+B : Unit end` and a value of the second constructor reaches a match that has no arm for it"
                  % (v.lower(), "constructor" if v == "Data" else "destructor"), [facts.bodies()[fn]["loc"][0], a["ln"]],
                  detail={"former": v, "check": "error when the name is already among the accumulated arms"})


# every way the interpreter (eval.rs, link.rs) can stop with a panic, and the checker-side guarantee that excludes it.
# key = <function>:<enclosing match arms, outermost first>:<kind>  (structural: rewording a message does not change a key)
# value = (count, guarantee)
STUCK = {
    "Computation::step:VAbs/Some:expect": (1, "binder-coverage: fn binders are irrefutable (`pattern match failed in function`)"),
    "Computation::step:Ret/Some:expect": (1, "binder-coverage: do binders are irrefutable (`pattern match failed in return`)"),
    "Computation::step:Let:expect": (1, "binder-coverage: let binders are irrefutable"),
    "Computation::step:Fix:expect": (1, "binder-coverage + shape-assumptions: the fix binder is validated and typed `Thk _`"),
    "Value::step:Let:expect": (1, "binder-coverage (Value::Let)"),
    "Value::step:VApp:expect": (1, "binder-coverage (Value::VAbs: `pattern match failed in pure function`)"),
    "Computation::step:Match:panic": (1, "coverage-validator: an accepted match is exhaustive (C04) (`no matching arm`)"),
    "Computation::step:CoMatch:expect": (1, "coverage-validator: an accepted comatch has an arm per destructor (C04)"),
    "Computation::step:Hole:panic": (1, "typed-hole (known finding F7)"),
    "Value::step:Hole:panic": (1, "typed-hole (known finding F7)"),
    "Value::step:Var:expect": (1, "scoping: every variable of a resolved program has its binder on the path (C07)"),
    "Computation::step:VAbs/_:panic": (1, "typing (progress): a function is only run under an application frame; NOT decided"),
    "Computation::step:Ret/_:panic": (1, "typing (progress): ret only under a do frame; NOT decided"),
    "Computation::step:Force/else:panic": (1, "typing (progress): `!` only at Thk types; NOT decided"),
    "Computation::step:CoMatch/else:panic": (1, "typing (progress): comatch only under a destructor frame; NOT decided"),
    "Computation::step:Prim/else:panic": (1, "typing (progress) + C06 role tables"),
    "Value::step:VApp/else:panic": (1, "typing (progress): value application of a closure only; NOT decided"),
    "Value::step:Proj:assert": (1, "typing of projections (F11 repaired)"),
    "Assign::step:Ctor/Closure:unreachable": (1, "host values are opaque: never matched by a pattern (typing)"),
    "Assign::step:VCons/Closure:unreachable": (1, "as above"),
    "into_product_fields:else:unreachable": (1, "typing of product patterns: only products have product fields"),
    "from_product_fields:lit:1:unwrap": (1, "dominated by the length test of the same vector"),
    "from_product_fields:_:expect": (1, "product arity >= 2 by construction of ConsN"),
    "VPatId::link:Alias:unwrap": (1, "link: the erased pattern list is non-empty by the typed arity"),
    "BuiltinPackageLinker::link:Product:expect": (1, "BuiltinPackagePlan is validated (gate)"),
    "CompuId::link::index:ArenaSparse": (1, "every id reachable from a checked root is in the arena (stripped-arena, C10)"),
    "VPatId::link::index:ArenaSparse": (1, "as above"),
    "ValueId::link::index:ArenaSparse": (1, "as above"),
    "ValueId::link::mir-assert:overflow:Add": (1, "position + 1 of a component of a source product: bounded by the product's arity"),
    "ProductArity::of::mir-assert:overflow:Add": (1, "number of components of a source product"),
}


def _short_owner(fn):
    def strip_generics(t):
        prev = None
        while prev != t:
            prev = t
            t = re.sub(r"<[^<>]*>", "", t)
        return t
    if fn.startswith("<") and " as " in fn:
        ty = strip_generics(fn[1:fn.index(" as ")]).split("::")[-1]
        return "%s::%s" % (ty, fn.rsplit("::", 1)[-1])
    parts = strip_generics(fn).split("::")
    return "::".join(parts[-2:]) if len(parts) > 1 and parts[-2][:1].isupper() else parts[-1]


def rule_stuck_states(ctx):
    rule = "stuck-states"
    facts = ctx.facts
    ctx.rule(rule, "the interpreter and the linker (zydeco_dynamics::eval, ::link) can stop with a panic only at the inventoried sites "
                   "(panic! / unreachable! / assert! / expect / unwrap / panicking index / arithmetic or bounds assert), each tied to "
                   "the checker-side rule that excludes it; a new site is a new undefined machine state an accepted program may reach")
    seen = {}
    locs = {}

    def lits(n):
        return [x.get("str") if isinstance(x, dict) else x for y in H.walk(n) if H.kind(y) == "Lit" for x in [y.get("v") or y.get("lit") or y.get("s")]]
    n_fns = 0
    for fn, bd in sorted(facts.bodies().items()):
        if not (fn.startswith("zydeco_dynamics::eval") or "as zydeco_dynamics::eval::" in fn
                or fn.startswith("zydeco_dynamics::link") or "as zydeco_dynamics::link::" in fn):
            continue
        if "::tests::" in fn:
            continue
        owner = _short_owner(fn.split("::{closure")[0])
        if "{closure" not in fn:
            h = facts.hir(fn)
            if h:
                n_fns += 1
                par = _parents(h["body"])

                def arms_of(x, par=par):
                    out = []
                    cur = x
                    while id(cur) in par:
                        p = par[id(cur)]
                        if H.kind(p) == "Match" and not p.get("src"):
                            for a in p["arms"]:
                                if a is cur or a["body"] is cur or a.get("guard") is cur:
                                    out.append(re.sub(r"[({].*", "", A.pat_shape(a["pat"]).split("|")[0]))
                        if H.kind(p) == "Let" and p.get("els") is cur:
                            out.append("else")
                        cur = p
                    return "/".join(reversed(out))
                for x in H.walk(h["body"]):
                    k = H.kind(x)
                    key = None
                    if k == "MethodCall" and x["name"] in ("expect", "unwrap") and re.search(r"(Option|Result)<", x.get("recv_ty") or ""):
                        msg = (lits(x["args"][0]) or [""])[0] if x["args"] else ""
                        key = "%s:%s:%s" % (owner, arms_of(x), x["name"])
                    elif k == "Call" and (H.callee(x) or "").startswith(("core::panicking::", "std::rt::begin_panic")):
                        ex = x.get("expn") or []
                        kind = "unreachable" if "unreachable" in ex else "assert" if "assert" in ex else "panic"
                        msg = ([l for a in x["args"] for l in lits(a)] or [""])[0]
                        key = "%s:%s:%s" % (owner, arms_of(x), kind)
                    elif k == "Index":
                        base = x.get("base") if isinstance(x.get("base"), dict) else x.get("e") if isinstance(x.get("e"), dict) else {}
                        t = (base.get("ty") or "?")
                        key = "%s:%s:index:%s" % (owner, arms_of(x), t.split("<")[0].split("::")[-1].replace("&", ""))
                    if key:
                        seen[key] = seen.get(key, 0) + 1
                        locs.setdefault(key, [bd["loc"][0], x.get("ln")])
        m = facts.mir(fn)
        if m is not None:
            b = M.Body(fn, m)
            for bb in range(b.n):
                t = b.term(bb)
                if t["k"] == "assert" and not b.is_cleanup(bb) and t.get("msg") != "other":  # "other" = compiler-inserted pointer checks
                    key = "%s::mir-assert:%s" % (owner, t.get("msg"))
                    seen[key] = seen.get(key, 0) + 1
                    locs.setdefault(key, [bd["loc"][0], t.get("ln")])
    for key, cnt in sorted(seen.items()):
        want = STUCK.get(key)
        if want is None or cnt > want[0]:
            ctx.violation(rule, key + (":extra" if want else ""), "the interpreter / linker can stop at a site that is not in the audited "
                          "inventory of stuck states (%s, %d site(s), %d audited): an accepted program may reach it unless a checker rule "
                          "excludes it" % (key, cnt, want[0] if want else 0), locs[key])
        else:
            ctx.ok(rule, key, {"excluded_by": want[1], "sites": cnt})
    for key in sorted(set(STUCK) - set(seen)):
        ctx.ok(rule, key + ":gone", {"note": "inventoried site no longer present"})
    ctx.floor(rule, "interpreter / linker functions inspected", n_fns, 10)
    ctx.floor(rule, "stuck-state sites classified", sum(seen.values()), 20)


def rule_erasure_arity(ctx):
    """the number of components the linker assumes for a product = the number the checker numbered"""
    rule = "erasure-arity"
    facts = ctx.facts
    ctx.rule(rule, "link::ProductArity (which decides whether a projected field is the LAST component, i.e. the rest of the right spine) "
                   "counts components exactly like the checker numbers them when it resolves a field: along the right spine of `Prod` "
                   "and through nothing else. Every match on a type in ProductArity mentions `Prod` only; looking through labels, seals "
                   "or applications there makes `last` false for a named product-typed tail and the projection yields one slot instead "
                   "of the rest of the tuple")
    n = 0
    for fn, bd in sorted(facts.bodies().items()):
        if not fn.startswith("zydeco_dynamics::link::ProductArity::") or "{closure" in fn:
            continue
        h = facts.hir(fn)
        if not h:
            continue
        ctx.fn(fn)
        for m in H.walk(h["body"]):
            if H.kind(m) != "Match" or m.get("src"):
                continue
            for a in m["arms"]:
                vs = set(v.split("::")[-1] for v in H.pat_variants(a["pat"])) - {"Some", "None", "Ok", "Err"}
                if not vs:
                    continue
                n += 1
                ctx.check(vs <= {"Prod"}, rule, "%s:%s" % (fn.split("::")[-1], "+".join(sorted(vs))),
                          "link::%s inspects the type former(s) %s: the checker numbers product components along the right spine of Prod "
                          "only, so the linker's arity (and with it `last`) disagrees for such a tail" % ("::".join(fn.split("::")[-2:]), sorted(vs)),
                          [bd["loc"][0], a["ln"]], detail={"formers": sorted(vs)})
    ctx.floor(rule, "type patterns in ProductArity", n, 2)
    # the checker's two enumerations of the components of a product: the search that numbers the positions of a field route, and
    # the materialized components the route is indexed into. Both follow `Prod` tails only, without opening a sealed definition
    fn = "zydeco_statics::check::DeferredValueFieldCandidate::materialized_product_components_k"
    h = facts.hir(fn)
    if h is None:
        ctx.anchor_lost(rule, fn + " not found")
    else:
        ctx.fn(fn)
        k = 0
        for m in H.walk(h["body"]):
            if H.kind(m) != "Match" or m.get("src"):
                continue
            for a in m["arms"]:
                vs = set(v.split("::")[-1] for v in H.pat_variants(a["pat"])) - {"Some", "None", "Ok", "Err", "KontFailure"}
                if vs:
                    k += 1
                    ctx.check(vs <= {"Prod"}, rule, "materialized_product_components_k:%s" % "+".join(sorted(vs)),
                              "the materialized components of a field route look through %s: the linker's ProductArity follows Prod only"
                              % sorted(vs), [facts.bodies()[fn]["loc"][0], a["ln"]], detail={"formers": sorted(vs)})
        opens = [c for c in H.walk(h["body"]) if H.kind(c) in ("Call", "MethodCall") and re.search(r"::(unroll\w*|reveal_k)$", H.callee(c) or "")]
        ctx.check(k >= 1 and not opens, rule, "materialized_product_components_k:no-unroll", "the materialized components of a field route "
                  "are enumerated through an unrolling view (%s) or without a Prod pattern" % [H.callee(c) for c in opens],
                  facts.bodies()[fn]["loc"])
    # the stack-IR lowerer lays a tuple out by the same count: its arity / field enumeration follows Prod only
    for short in ("product_arity", "product_fields"):
        fn = "zydeco_stackir::sps::lower::Lowerer::<'a>::" + short
        h = facts.hir(fn)
        if h is None:
            ctx.anchor_lost(rule, fn + " not found")
            continue
        ctx.fn(fn)
        k = 0
        for m in H.walk(h["body"]):
            if H.kind(m) != "Match" or m.get("src"):
                continue
            for a in m["arms"]:
                vs = set(v.split("::")[-1] for v in H.pat_variants(a["pat"])) - {"Some", "None", "Ok", "Err"}
                if vs:
                    k += 1
                    ctx.check(vs <= {"Prod", "Unit"}, rule, "lowerer:%s:%s" % (short, "+".join(sorted(vs))), "Lowerer::%s inspects the type "
                              "former(s) %s: the checker numbers the components of a product along the right spine of Prod only" % (short, sorted(vs)),
                              [facts.bodies()[fn]["loc"][0], a["ln"]], detail={"formers": sorted(vs)})
        helpers = sorted({(H.callee(c) or "").split("::")[-1] for c in H.walk(h["body"]) if H.kind(c) in ("Call", "MethodCall")
                          and (H.callee(c) or "").startswith("zydeco_stackir::sps::lower::Lowerer::")} - {"product_arity", "product_fields", "field_class"})
        ctx.check(k >= 1 and not helpers, rule, "lowerer:%s:no-look-through" % short, "Lowerer::%s decides the layout of a tuple through the "
                  "helper(s) %s: looking through labels / names (or anything but Prod) when testing whether the tail continues the spine "
                  "makes the layout of a value disagree with the position the checker numbered for a named projection (`t/rest` selects "
                  "an interior slot)" % (short, helpers), facts.bodies()[fn]["loc"], detail={"helpers": helpers})
    fn = "zydeco_statics::check::FieldProjectionResolver::product_components_k"
    h = facts.hir(fn)
    if h is None:
        ctx.anchor_lost(rule, fn + " not found")
    else:
        ctx.fn(fn)
        env = A.ArmEnv()
        env.strip = True
        env.bind_params(h)
        env.absorb(h["body"])
        reveals = [c for c in H.walk(h["body"]) if H.kind(c) in ("Call", "MethodCall") and (H.callee(c) or "").endswith("DeferredEnvType::reveal_k")]
        recv = [A.sexpr(H.call_args(c)[0], env) for c in reveals]
        filled = [c for c in H.walk(h["body"]) if H.kind(c) in ("Call", "MethodCall") and re.search(r"::type_filled(_k)?$", H.callee(c) or "")]
        ok = bool(reveals) and all(re.match(r"^\$P\d+$", r) for r in recv) and bool(filled)
        ctx.check(ok, rule, "product_components_k:tail-not-revealed", "the search that numbers the components of a product for a named "
                  "projection applies the seal-opening view (reveal_k) to %s: a tail that is a product only behind a sealed definition "
                  "(`define Rest = (y :: A) * (z :: B)`, `T = (x :: C) * Rest`) would be numbered x=0, y=1, z=2 while the materialized "
                  "route and the run-time layout see the pair (x, Rest): `t/y` selects the whole tail and `t/z` indexes past the "
                  "materialized components" % recv, facts.bodies()[fn]["loc"], detail={"reveal_k on": recv, "type_filled tests": len(filled)})


def rule_generativity(ctx):
    """type variables and seals introduced by a judgment must be fresh for that use of the judgment"""
    rule = "generativity"
    facts = ctx.facts
    ctx.rule(rule, "(a) introducing a `forall` (term judgment of `fn`, copattern clauses) checks the body under a FRESH abstract type, "
                   "not under the witness id stored in the expected type's binder: two introductions of one binder in nested scopes "
                   "(or two copies of a forall from unfolding a type function) would share one type variable; (b) a package-dependent "
                   "introduction does not reuse one canonical skolem per signature for nested introductions; (c) substitution reaches "
                   "inference variables (a `Fill` is not returned unchanged); (d) the support collector (escape check) opens sealed "
                   "abstract types, whose definitions can mention the witnesses in scope")
    # (a) abstract types allocated from the witness of an EXISTING binder
    n = 0
    for fn, bd in sorted(facts.bodies().items()):
        if not bd["loc"][0].startswith("lang/statics/src/") or "{closure" in fn:
            continue
        h = facts.hir(fn)
        if not h:
            continue
        for c in H.walk(h["body"]):
            if H.kind(c) in ("Call", "MethodCall") and re.search(r"AbstId as zydeco_statics::alloc::Alloc<.*TypeId>>::alloc$", H.callee(c) or ""):
                args = H.call_args(c)
                if len(args) < 2:
                    continue
                n += 1
                x = H.peel(args[1])
                reused = H.kind(x) == "Field" and x.get("name") == "witness" and "TypeBinder" in ((x.get("e") or x.get("base") or {}).get("ty") or "")
                owner = "copattern" if "copattern" in fn else ("term-judgment" if "TermId>" in fn else M.short_fn(fn))
                if reused:
                    ctx.violation(rule, "forall-intro:%s:binder-witness-reused" % owner,
                                  "%s checks the body of a type abstraction under the witness id of the expected type's own binder "
                                  "(Alloc::alloc(tycker, source_binder.witness, ..)) instead of a fresh abstract type: with `let Id = forall X . X "
                                  "-> Ret X`, inside `outer : Id = fn X x => ..` an `inner : Thk Id = { fn Y y => ret x }` is accepted (x : X "
                                  "returned as Y), and `zydeco run` hands a string to an integer operation" % fn, [bd["loc"][0], c.get("ln")])
                else:
                    ctx.ok(rule, "abstract-type@%s:%s" % (M.short_fn(fn), c.get("ln")))
    ctx.floor(rule, "abstract types allocated from a witness id", n, 10)
    # (a') the opening helper itself: fresh id, substituted for the binder's witness in the body; used by the three introductions
    fn = "zydeco_statics::destruct::<impl zydeco_statics::syntax::TypeBinder>::open_k"
    h = facts.hir(fn)
    if h is None:
        ctx.anchor_lost(rule, fn + " not found")
    else:
        calls = [c for c in H.walk(h["body"]) if H.kind(c) in ("Call", "MethodCall")]
        fresh = [c for c in calls if re.search(r"Alloc<.*AbstId>>::alloc$", H.callee(c) or "")]
        substs = [c for c in calls if re.search(r"TypeId>::subst_absts?(_k)?$", H.callee(c) or "")]
        env = A.ArmEnv()
        env.strip = True
        env.bind_params(h)
        env.absorb(h["body"])
        good = False
        for c in substs:
            sx = A.sexpr(c, env)
            # the assignment maps the binder's own witness to the type allocated from the fresh id
            if fresh and re.search(r"\(tuple \(\. \$P\d witness\) \(<[^ ]*AbstId as [^ ]*Alloc<\w+, [^ ]*TypeId>>::alloc \$P\d "
                                   r"\(<[^ ]* as [^ ]*Alloc<\w+, [^ ]*AbstId>>::alloc ", sx):
                good = True
        ctx.check(good, rule, "forall-intro:open_k:fresh-and-substituted", "TypeBinder::open_k must allocate a fresh AbstId and substitute "
                  "the type built from it for the binder's witness in the body (found %d fresh allocations, %d substitutions)"
                  % (len(fresh), len(substs)), facts.bodies()[fn]["loc"], detail=[A.sexpr(c, env)[:200] for c in substs])
        users = {M.short_fn(f) for f in facts.bodies() if "{closure" not in f and facts.hir(f)
                 and any(H.kind(c) in ("Call", "MethodCall") and (H.callee(c) or "").endswith("TypeBinder>::open_k")
                         for c in H.walk(facts.hir(f)["body"]))}
        ctx.floor(rule, "introductions opening their binder (open_k callers)", len(users), 2)
        # (e) the variable of a type abstraction is not scoped like an opened existential
        scoped = any(H.kind(x) == "Field" and x.get("name") == "existential_skolems" for x in H.walk(h["body"]))
        ctx.check(scoped, rule, "forall-intro:variable-unscoped", "the abstract type a `fn X => ..` introduces is not scoped (it is not a "
                  "skolem of the body's environment and no result is constrained to the enclosing scope): a sealed definition made under "
                  "the abstraction (`fn (X : VType) => fn (x : X) => def Wrap = data | +W : X end in ret (+W(x) : Wrap)`) mentions X and "
                  "leaves with the result type, so every instance of the polymorphic function returns the same `Wrap`",
                  facts.bodies()[fn]["loc"])
    # (b) canonical skolems of a PackPi signature
    fn = "zydeco_statics::check::PackPiWitnessSkolems::<'a>::collect_k"
    h = facts.hir(fn)
    if h is None:
        ctx.anchor_lost(rule, fn + " not found")
    else:
        env = A.ArmEnv()
        env.strip = True
        env.bind_params(h)
        env.absorb(h["body"])
        canonical = [c for c in H.walk(h["body"]) if H.kind(c) in ("Call", "MethodCall")
                     and re.search(r"AbstId as zydeco_statics::alloc::Alloc<.*TypeId>>::alloc$", H.callee(c) or "")]
        fresh = [c for c in H.walk(h["body"]) if H.kind(c) in ("Call", "MethodCall")
                 and re.search(r"Alloc<.*AbstId>>::alloc$", H.callee(c) or "")]
        if canonical and not fresh:
            ctx.violation(rule, "packpi-intro:canonical-skolems", "PackPiWitnessSkolems::collect_k opens the package of a package-dependent "
                          "introduction with the signature's own canonical witness ids (no fresh AbstId is allocated): two nested "
                          "introductions against the same `pi` type open the SAME skolem, so `inner : Thk Unbox = { fn ((Y, y) : Box) => "
                          "ret x }` inside `outer : Thk Unbox` is accepted and returns the outer package's payload at the inner type",
                          facts.bodies()[fn]["loc"])
        else:
            ctx.ok(rule, "packpi-intro:fresh-skolems")
    # (c) substitution and inference variables
    for f in ("subst_absts", "subst_env"):
        fn = "zydeco_statics::normalize::<impl zydeco_statics::syntax::TypeId>::" + f
        h = facts.hir(fn)
        if h is None:
            ctx.anchor_lost(rule, fn + " not found")
            continue
        hit = None
        for m in H.walk(h["body"]):
            if H.kind(m) != "Match" or m.get("src"):
                continue
            for a in m["arms"]:
                if A.pat_shape(a["pat"]).startswith("Fill") and H.kind(H.peel(a["body"])) in ("Path", "Unary") and \
                        A.sexpr(a["body"], None) in ("$self", "(Deref $self)", "$P0"):
                    hit = a
        if hit is not None:
            ctx.violation(rule, "%s:Fill:returned-unchanged" % f, "TypeId::%s returns an inference variable unchanged (`Fillable::Fill(_) => "
                          "*self`): a `(_ : VType)` under a `forall X` that is solved to a type mentioning X keeps saying X after the forall is "
                          "instantiated, so a recursive call at another instance is accepted with the caller's X" % f,
                          [facts.bodies()[fn]["loc"][0], hit["ln"]])
        else:
            ctx.ok(rule, "%s:Fill" % f)
    # (d) the support collector and sealed abstract types
    fn = "zydeco_statics::normalize::TypeSupportCollector::visit"
    h = facts.hir(fn)
    if h is None:
        ctx.anchor_lost(rule, fn + " not found")
    else:
        for m in H.walk(h["body"]):
            if H.kind(m) != "Match" or m.get("src"):
                continue
            for a in m["arms"]:
                if not A.pat_shape(a["pat"]).startswith("Abst("):
                    continue
                reads = any(H.kind(x) == "Field" and x.get("name") == "seals" for x in H.walk(a["body"]))
                recurses = any(H.kind(x) in ("Call", "MethodCall") and (H.callee(x) or "").endswith("TypeSupportCollector::visit")
                               for x in H.walk(a["body"]))
                opens = reads and recurses
                if opens:
                    # occurrences inside a sealed definition are not bound by the binders of the type naming the seal (substitution
                    # does not go through seals): the bound set must not filter them
                    resets = any(H.kind(x) in ("Call", "MethodCall") and re.search(r"mem::(take|replace|swap)", H.callee(x) or "")
                                 and any(H.kind(y) == "Field" and y.get("name") == "bound" for y in H.walk(x))
                                 for x in H.walk(a["body"]))
                    ctx.check(resets, rule, "support:Abst:seal-binders-reset", "TypeSupportCollector::visit visits the definition of a sealed "
                              "abstract type with the enclosing binders still counted as bound: a `def W = data | +W : X end in` made under a "
                              "package-dependent introduction `fn ((X, v) : Box) => ..` mentions the telescope's X, the result type `pi [X] . "
                              "Ret W` binds X, and W escapes unnoticed (two applications return interchangeable `W`s)",
                              [facts.bodies()[fn]["loc"][0], a["ln"]])
                if not opens:
                    ctx.violation(rule, "support:Abst:seal-not-opened", "TypeSupportCollector::visit records an abstract type only when it is an "
                                  "existential skolem and never looks into the definition a SEALED abstract type stands for: a local `def W "
                                  "= data | +W : X end in` under an opened package (or under `fn X`) mentions the witness X, escapes with the "
                                  "result type unnoticed, and two calls at different X return interchangeable `W`s",
                                  [facts.bodies()[fn]["loc"][0], a["ln"]])
                else:
                    ctx.ok(rule, "support:Abst")


def rule_judgments(ctx):
    """every sub-term / sub-pattern of every former is handed to a checking judgment (R-TRAV on the checker itself)"""
    from .. import trav
    rule = "judgment-coverage"
    facts = ctx.facts
    ctx.rule(rule, "in the term and pattern judgments (Tyck for TyEnvT<TermId> / TyEnvT<PatId>) every TermId / PatId child bound by the arm of "
                   "a former is handed to a checking judgment (tyck_k, check_k, elaborate_*_k): no sub-term of an accepted program is left "
                   "unchecked")
    ID = r"bitter::syntax::(TermId|PatId)\b"
    fam = r"::tyck_k$|::tyck_inner_k$|::check_k$|::elaborate_k$|::elaborate_\w+_k$"
    n = 0
    for suffix, tyname, label in (("bitter::syntax::TermId> as zydeco_statics::check::Tyck<'a>>::tyck_inner_k", "Term<", "tyck.term"),
                                  ("bitter::syntax::PatId> as zydeco_statics::check::Tyck<'a>>::tyck_inner_k", "Pattern", "tyck.pattern")):
        fn = next((p for p in facts.bodies() if p.endswith(suffix)), None)
        if fn is None:
            ctx.anchor_lost(rule, "%s not found" % suffix)
            continue

        def dispatch(h, env, tyname=tyname):
            ms = [m for m in H.walk(h["body"]) if H.kind(m) == "Match" and not m.get("src") and ("bitter::syntax::" + tyname) in (m.get("scrut_ty") or "")]
            return max(ms, key=lambda m: len(m["arms"])) if ms else None
        n += trav.check_traversal(ctx, rule, fn, fam, ID, label=label, dispatch=dispatch, allow_default=True)
    ctx.floor(rule, "children of formers handed to a judgment", n, 60)


def rule_expected_type(ctx):
    """analysis mode: the expected annotation is consumed or the arm is an error"""
    rule = "expected-type-consumed"
    facts = ctx.facts
    ctx.rule(rule, "in the term and pattern judgments, every `Switch::Ana(expected)` arm either uses the expected annotation it binds "
                   "(compares it, forwards it to a sub-judgment or to the query judgment), or reports a type error, or matches the "
                   "payload-less `Set`: no former silently ignores the type it is checked against")
    n = 0
    for suffix, tyname in (("bitter::syntax::TermId> as zydeco_statics::check::Tyck<'a>>::tyck_inner_k", "Term<"),
                           ("bitter::syntax::PatId> as zydeco_statics::check::Tyck<'a>>::tyck_inner_k", "Pattern")):
        fn = next((p for p in facts.bodies() if p.endswith(suffix)), None)
        if fn is None:
            ctx.anchor_lost(rule, "%s not found" % suffix)
            continue
        h = ctx.need_hir(rule, fn)
        loc = facts.bodies()[fn]["loc"]
        ms = [m for m in H.walk(h["body"]) if H.kind(m) == "Match" and not m.get("src") and ("bitter::syntax::" + tyname) in (m.get("scrut_ty") or "")]
        if not ms:
            ctx.anchor_lost(rule, "%s: dispatch on the former not found" % fn)
            continue
        big = max(ms, key=lambda m: len(m["arms"]))
        seen = {}
        # the local(s) holding the checking mode (`switch`, destructured from the action parameter)
        mode_locals = set(x["local"] for x in H.walk(h["body"]) if H.kind(x) == "Bind" and "check::Switch<" in (x.get("ty") or ""))
        for a in big["arms"]:
            former = A.pat_shape(a["pat"])
            # an arm that never looks at the checking mode treats analysis like synthesis: whatever it is checked against is accepted
            consults = any(H.kind(u) == "Path" and (H.path_local(u) or [None])[0] in mode_locals for u in H.walk(a["body"]))
            if not H.exits_by_panic_only(a["body"]):
                n += 1
                ctx.check(consults, rule, "%s:%s:mode-consulted" % ("term" if tyname == "Term<" else "pattern", former),
                          "the %s judgment of %s never looks at its checking mode: in analysis mode the expected type is ignored, so the "
                          "former is accepted against ANY expected type (and a judgment that analysed it against `Ret _` / `Thk _` and "
                          "then takes the result apart crashes)" % ("term" if tyname == "Term<" else "pattern", former),
                          [loc[0], a["ln"]], detail={"former": former, "consults_mode": consults})
            for m in H.walk(a["body"]):
                if not (H.kind(m) == "Match" and not m.get("src") and "check::Switch<" in (m.get("scrut_ty") or "")):
                    continue
                for ia in m["arms"]:
                    vs = [v.split("::")[-1] for v in H.pat_variants(ia["pat"])]
                    if "Ana" not in vs:
                        continue
                    n += 1
                    shape = A.pat_shape(ia["pat"])
                    binds = H.pat_bindings(ia["pat"])
                    used = [b for b in binds if any(H.kind(u) == "Path" and u.get("res", {}).get("local") == b["local"] for u in H.walk(ia["body"]))]
                    is_err = any(c.endswith("::err_k") or c.endswith("::err") for _, c in H.calls(ia["body"])) and H.diverges(ia["body"]) \
                        or (any(c.endswith("::err_k") for _, c in H.calls(ia["body"])) and len([1 for _ in H.calls(ia["body"])]) <= 6)
                    only_set = "Set" in vs and set(vs) <= {"Ana", "Set"}
                    ok = bool(used) or is_err or only_set
                    key = "%s:%s:%s" % ("term" if tyname == "Term<" else "pattern", former, shape)
                    seen[key] = seen.get(key, 0) + 1
                    inst = key if seen[key] == 1 else "%s#%d" % (key, seen[key])
                    ctx.check(ok, rule, inst, "the %s judgment of %s, arm %s: the expected annotation is neither used nor is the arm an error: "
                              "this former is accepted against ANY expected type" % ("term" if tyname == "Term<" else "pattern", former, shape),
                              [loc[0], ia["ln"]], detail={"former": former, "switch_arm": shape, "consumes": "binding" if used else "error" if is_err else "Set"})
    ctx.floor(rule, "analysis-mode arms", n, 60)


def run(ctx):
    rule_gates(ctx)
    rule_err(ctx)
    lubarms.check_lub(ctx, "equality")
    matcher.check_matcher(ctx, "classifier-matcher")
    rule_link(ctx)
    rule_holes(ctx)
    rule_judgments(ctx)
    rule_expected_type(ctx)
    rule_branch_join(ctx)
    rule_declaration_lookup(ctx)
    rule_stuck_states(ctx)
    rule_erasure_arity(ctx)
    rule_generativity(ctx)
    from . import c03 as _c03
    _c03.rule_opened_skolems(ctx)
    _c03.rule_binder_shadowing(ctx)
    from . import c04
    from .. import golden
    ctx.rule("coverage-validator", "the validator that makes `no matching arm` and `pattern match failed` unreachable performs its audited "
                                   "steps: every computation and value is visited, match / comatch / every other binder is validated, "
                                   "missing destructors are declared minus supplied (rules/golden_coverage.json, shared with C04)")
    golden.check(ctx, "coverage-validator", "golden_coverage.json",
                 only={"CoverageChecker::validate", "CoverageChecker::validate_computation", "CoverageChecker::validate_value",
                       "CoverageChecker::validate_binder", "CoverageChecker::validate_match", "CoverageChecker::validate_comatch",
                       "CoverageChecker::validate_pattern_matrix", "CoverageChecker::missing_patterns"})
    c04.rule_binder_coverage(ctx)
    c04.rule_irrefutable(ctx)
    ctx.assume("the typing rules themselves (progress/preservation), the coverage algorithm (C04) and termination of "
               "normalisation are NOT decided")
    ctx.assume("ResultKont errors are already recorded in Tycker::errors (append-only, checked), so dropping a ResultKont cannot "
               "turn a rejected program into an accepted one")
    return {}
