"""Rules shared by the formatter properties C12 / C13 / C14."""
import re

from .. import armlib as A
from .. import callgraph
from .. import grammar as G
from .. import hirlib as H
from .. import mirlib as M

PRETTY = "zydeco_surface::textual::pretty::"
FORMATTER = PRETTY + "PrettyFormatter::<'arena>::"
CTX = PRETTY + "context::"
CLI = "zydeco_cli::format::SourceFormatter::"
CAJUN = "cajun::format::DocumentFormatter::format"
PREC = ["Atom", "Projection", "Application", "Product", "Arrow", "Quantifier", "Binder"]


def _v(p):
    return (H.top_variant(A.strip_or(p)) or "_").split("::")[-1]


def _arm_table(ctx, rule, fn, value):
    """variant -> value(arm) for the (first) match of fn; or-patterns expanded; first arm wins"""
    h = ctx.need_hir(rule, fn)
    m = A.find_match_on(h["body"], lambda n: True)
    out = {}
    for a in m["arms"]:
        p = A.strip_or(a["pat"])
        pats = p["pats"] if H.kind(p) == "Or" else [p]
        val = value(a, h)
        for q in pats:
            out.setdefault(_v(q), val)
    return out


def _path_tail(n):
    n = H.peel(n)
    if H.kind(n) == "Path":
        return (n.get("res", {}).get("def") or "").split("::")[-1]
    if H.kind(n) == "Call":
        inner = [_path_tail(a) for a in n["args"]]
        return "%s(%s)" % ((H.callee(n) or "").split("::")[-1], ",".join(inner))
    if H.kind(n) == "MethodCall":
        return "call:" + n["name"]
    return H.kind(n)


def payload_variant_map(facts, adt):
    """last segment of each variant's payload type -> variant name"""
    out = {}
    for v in facts.adts()[adt]["variants"]:
        if v["fields"]:
            t = v["fields"][0]["ty"]
            out[re.sub(r"<.*$", "", t).split("::")[-1]] = v["name"]
    return out


def rule_grammar_classes(ctx):
    rule = "grammar-classes"
    facts = ctx.facts
    ctx.rule(rule, "the formatter's class of every term former equals the loosest precedence level at which parser.lalrpop produces "
                   "it (levels 0..6 = Atom..Binder); formers outside the `Term` block keep their audited class; pattern formers of "
                   "the `Pattern` block are Pattern, those only in `PatternAnn` are AnnotatedOnly; infix operand and scoped-body "
                   "precedences follow level and associativity; TermRequirement::accepts is the audited order test")
    text = G.read()
    body = G.block(text, "Term")
    if body is None:
        ctx.anchor_lost(rule, "nonterminal Term not found in parser.lalrpop")
        return
    pv = payload_variant_map(facts, "zydeco_surface::textual::syntax::Term")
    levels = {}
    info = {}
    for lvl, assoc, sym, act in G.alternatives(body):
        c = G.constructor_of(sym, act)
        v = pv.get(c)
        if v is None or lvl is None:
            ctx.anchor_lost(rule, "grammar alternative `%s` (constructor %s) maps to no Term variant" % (sym[:40], c))
            continue
        levels[v] = max(levels.get(v, -1), lvl)
        info.setdefault(v, []).append((lvl, assoc))
    ctx.floor(rule, "term formers produced by the Term nonterminal", len(levels), 24)

    def klass(a, h):
        return _path_tail(a["body"])
    table = _arm_table(ctx, rule, CTX + "GrammarContext::<'arena>::term_class", klass)
    loc = facts.bodies()[CTX + "GrammarContext::<'arena>::term_class"]["loc"]
    AUDITED = {
        "Ann": ("Term(Atom)", "rendered with its own parentheses"),
        "Named": ("AnnotatedOnly", "produced by TermAnn level 2 only"),
        "Label": ("AnnotatedOnly", "produced by TermAnn level 2 only"),
        "SourceBoundary": ("call:term_class", "transparent: class of the wrapped term"),
        "SignatureBoundary": ("call:term_class", "transparent: class of the wrapped term"),
        "Let": ("Term(Binder)", "no grammar production (legacy former); loosest class is always safe"),
    }
    variants = [v["name"] for v in facts.adts()["zydeco_surface::textual::syntax::Term"]["variants"]]
    for v in variants:
        got = table.get(v, table.get("_"))
        if v in levels:
            want = "Term(%s)" % PREC[levels[v]]
            ctx.check(got == want, rule, "term:%s" % v, "term_class(%s) is %s but the grammar produces it at level %d (%s): a required "
                      "parenthesis is dropped or a redundant one kept" % (v, got, levels[v], PREC[levels[v]]), loc,
                      detail={"former": v, "grammar_level": levels[v], "class": got})
        else:
            want = AUDITED.get(v)
            ctx.check(want is not None and got == want[0], rule, "term:%s" % v, "term_class(%s) is %s; audited: %s" % (v, got, want), loc,
                      detail={"former": v, "class": got, "audited": want[1] if want else None})
    ctx.check("_" not in table, rule, "term:no-default", "term_class has a default arm: a new former would get a class by accident", loc,
              detail={"default_arm": "_" in table})
    # patterns
    pvp = payload_variant_map(facts, "zydeco_surface::textual::syntax::Pattern")
    pvp.setdefault("DefId", "Var")
    pvp.setdefault("ManifestPattern", "Manifest")
    pvp.setdefault("ProjectionPattern", "Project")
    in_pat = set()
    for lvl, assoc, sym, act in G.alternatives(G.block(text, "Pattern") or ""):
        c = G.constructor_of(sym, act)
        if c in pvp:
            in_pat.add(pvp[c])
    ptable = _arm_table(ctx, rule, CTX + "GrammarContext::<'arena>::pattern_class", klass)
    ploc = facts.bodies()[CTX + "GrammarContext::<'arena>::pattern_class"]["loc"]
    PAUD = {"Ann": "Pattern", "Named": "AnnotatedOnly", "Project": "AnnotatedOnly"}
    for v in [x["name"] for x in facts.adts()["zydeco_surface::textual::syntax::Pattern"]["variants"]]:
        got = ptable.get(v, ptable.get("_"))
        want = "Pattern" if v in in_pat else PAUD.get(v)
        ctx.check(got == want, rule, "pattern:%s" % v, "pattern_class(%s) is %s, expected %s (produced by the Pattern nonterminal: %s)"
                  % (v, got, want, v in in_pat), ploc, detail={"former": v, "class": got})
    ctx.floor(rule, "pattern formers produced by the Pattern nonterminal", len(in_pat), 5)
    # infix operators and scoped forms
    ops = {"Product": "Prod", "Arrow": "Arrow"}
    left = _arm_table(ctx, rule, PRETTY + "InfixOperator::left_precedence", klass)
    right = _arm_table(ctx, rule, PRETTY + "InfixOperator::right_precedence", klass)
    for op, former in ops.items():
        lv = levels.get(former)
        assoc = (info.get(former) or [(None, None)])[0][1]
        if lv is None:
            continue
        wl, wr = (PREC[lv - 1], PREC[lv]) if assoc == "right" else (PREC[lv], PREC[lv - 1]) if assoc == "left" else (PREC[lv - 1], PREC[lv - 1])
        ctx.check(left.get(op) == wl and right.get(op) == wr, rule, "infix:%s" % op, "operands of %s are printed through (%s, %s); the grammar "
                  "(level %d, assoc %s) accepts (%s, %s)" % (op, left.get(op), right.get(op), lv, assoc, wl, wr),
                  facts.bodies()[PRETTY + "InfixOperator::left_precedence"]["loc"], detail={"operator": op, "left": wl, "right": wr})
    bodyp = _arm_table(ctx, rule, PRETTY + "ScopedForm::body_precedence", klass)
    for form, former in (("Function", "Abs"), ("Pi", "Pi"), ("Forall", "Forall"), ("Sigma", "Sigma")):
        lv = levels.get(former)
        ctx.check(lv is not None and bodyp.get(form) == PREC[lv], rule, "scoped-body:%s" % form, "the body of %s is printed through %s; its "
                  "production is at level %s" % (form, bodyp.get(form), lv), facts.bodies()[PRETTY + "ScopedForm::body_precedence"]["loc"],
                  detail={"form": form, "body": bodyp.get(form)})
    # accepts
    fn = CTX + "TermRequirement::accepts"
    h = ctx.need_hir(rule, fn)
    m = A.find_match_on(h["body"], lambda n: True)
    acc = []
    for a in m["arms"]:
        e = A.ArmEnv(); e.strip = True; e.bind_params(h); e.bind_pat(A.strip_or(a["pat"]))
        acc.append((A.pat_shape(a["pat"]), A.sexpr(a["body"], e)))
    want = [("(Annotated,_)", "True"), ("(Any,Term(_))", "True"), ("(Through(_),Term(_))", "(Le $T1/Term.0 $T0/Through.0)"), ("(_,AnnotatedOnly)", "False")]
    ctx.check(acc == want, rule, "accepts", "TermRequirement::accepts is %s, expected %s" % (acc, want), facts.bodies()[fn]["loc"],
              detail={"table": acc})
    prec = [v["name"] for v in facts.adts()[CTX + "TermPrecedence"]["variants"]]
    ctx.check(prec == PREC, rule, "precedence-order", "TermPrecedence declares %s; the derived order must be %s" % (prec, PREC), None,
              detail={"order": prec})


def rule_write_after_render(ctx):
    rule = "write-after-render"
    facts = ctx.facts
    ctx.rule(rule, "in zydeco_cli::format the file is written only by format_path, on the Ok edge of rendering, with the rendered text, "
                   "and only when it differs from the source; check_path writes nothing")
    writers = sorted(set(c["from"].split("::{closure")[0] for c in facts.calls() if c["to"].startswith("std::fs::write")
                         and c["from"].startswith("zydeco_cli::format")))
    ctx.check(writers == [CLI + "format_path"], rule, "writers", "std::fs::write is called from %s" % writers, None, detail={"writers": writers})
    fn = CLI + "format_path"
    b = ctx.need_mir(rule, fn)
    loc = facts.bodies()[fn]["loc"]
    renders = [bb for bb, t in b.calls() if t["fn"].endswith("SourceFormatter::render_source") or t["fn"].endswith("SourceFormatter::render")]
    writes = [bb for bb, t in b.calls() if t["fn"].startswith("std::fs::write")]
    ok = bool(renders) and bool(writes)
    for w in writes:
        dom = False
        for r in renders:
            sb = b.success_blocks(r)
            if sb is not None and b.dominates(sb[0], w):
                dom = True
        ok = ok and dom
    ctx.check(ok, rule, "format_path:ok-edge", "format_path writes the file on a path that is not the success edge of rendering: a source "
              "that does not parse would be overwritten", loc, detail={"dominated_by": "Ok edge of render_source"})
    h = ctx.need_hir(rule, fn)
    env = A.ArmEnv(); env.strip = True; env.bind_params(h); env.absorb(h["body"])
    w = next((n for n, c in H.calls(h["body"]) if c.startswith("std::fs::write")), None)
    if w is not None:
        arg = A.sexpr(H.call_args(w)[1], env)
        ctx.check(re.search(r"SourceFormatter::render_source \$P0 \$P1\)\)/T1$", arg) is not None, rule, "format_path:content",
                  "format_path writes %s, not the rendered text" % arg[:120], loc, detail={"writes": "the second component of render_source"})
    # what is compared and written is the renderer's output itself
    from . import c07
    fn = CLI + "render"
    hh = ctx.need_hir(rule, fn)
    e2 = A.ArmEnv(); e2.strip = True; e2.bind_params(hh); e2.absorb(hh["body"])
    outs = [A.sexpr(o, e2) for o in c07._results(hh["body"])]
    ok = len(outs) == 1 and re.match(r"^\(core::result::Result::<T, E>::map_err \(zydeco_surface::textual::pretty::PrettyFormatter::<'arena>::try_render_unit "
                                     r"\(zydeco_surface::textual::pretty::PrettyFormatter::<'arena>::with_source .*\) \(closure .*\)\)$", outs[0]) is not None
    ctx.check(ok, rule, "render:untransformed", "SourceFormatter::render returns %s: the text that is compared and written must be the "
              "renderer's output itself (any post-processing changes program text: literal text blocks, verbatim regions)" % [o[:140] for o in outs],
              facts.bodies()[fn]["loc"], detail={"returns": "try_render_unit(..) mapped to the error type only"})
    fn = CLI + "render_source"
    hh = ctx.need_hir(rule, fn)
    e2 = A.ArmEnv(); e2.strip = True; e2.bind_params(hh); e2.absorb(hh["body"])
    outs = [A.sexpr(o, e2) for o in c07._results(hh["body"])]
    ok = len(outs) == 1 and re.match(r"^\(core::result::Result::Ok \(tuple \(\? \(core::result::Result::<T, E>::map_err \(std::fs::read_to_string \$P1\) .*\)\) "
                                     r"\(\? \(zydeco_cli::format::SourceFormatter::render \$P0 \$P1 \(\? \(core::result::Result::<T, E>::map_err \(std::fs::read_to_string \$P1\) .*\)\)\)\)\)\)$", outs[0]) is not None
    ctx.check(ok, rule, "render_source:pair", "render_source returns %s; expected (the text read from the path, render(path, that text))"
              % [o[:160] for o in outs], facts.bodies()[fn]["loc"], detail={"returns": "(source, render(path, &source))"})
    # .. and the first component is the text AS READ: not completed, trimmed or otherwise edited before it is compared / rendered
    from .. import symval
    mm = facts.mir(fn)
    if mm is not None:
        sv = symval.SymValues(M.Body(fn, mm))
        pairs = sv.aggregates(lambda rv: rv.get("ak") == "tuple" and len(rv["ops"]) == 2)
        clean = [ops for _, _, ops in pairs if "std::fs::read_to_string $P1" in ops[0]]
        ok = sv.stable and len(pairs) == 1 and len(clean) == 1 and "mutated-by" not in clean[0][0] and "phi@" not in clean[0][0] \
            and "mutated-by" not in clean[0][1] and "phi@" not in clean[0][1]
        ctx.check(ok, rule, "render_source:source-as-read", "render_source edits the text it read before comparing / rendering it (%s): "
                  "`fmt` then judges a file `unchanged` by comparing the output with something other than the bytes on disk (a file "
                  "that only lacks its final newline is never rewritten), or formats a text that is not the file's"
                  % [o[:120] for ops in [p[2] for p in pairs] for o in ops][:2], facts.bodies()[fn]["loc"],
                  detail={"source": "the value of fs::read_to_string(path) on every path (symbolic value flow)"})
    # the unchanged test: both entry points compare the same pair
    for f in ("format_path", "check_path"):
        hh = ctx.need_hir(rule, CLI + f)
        e2 = A.ArmEnv(); e2.strip = True; e2.bind_params(hh); e2.absorb(hh["body"])
        conds = [A.sexpr(n["c"], e2) for n in H.walk(hh["body"]) if H.kind(n) == "If"]
        ok = len(conds) == 1 and re.match(r"^\(.*PartialEq.*::eq \(\? \(zydeco_cli::format::SourceFormatter::render_source \$P0 \$P1\)\)/T1 "
                                          r"\(\? \(zydeco_cli::format::SourceFormatter::render_source \$P0 \$P1\)\)/T0\)$|^\(Eq .*render_source \$P0 \$P1\)\)/T1 .*render_source \$P0 \$P1\)\)/T0\)$", conds[0] or "") is not None
        ctx.check(ok, rule, "%s:unchanged-test" % f, "%s decides `unchanged` with %s; expected formatted == source of one render_source(path)"
                  % (f, conds), facts.bodies()[CLI + f]["loc"], detail={"fn": f, "test": "formatted == source"})


def rule_render_fallible(ctx):
    rule = "render-fallible"
    facts = ctx.facts
    ctx.rule(rule, "a render failure (no layout satisfies a line-start guard: RcDoc::fail) is a value, not a panic, on the tool paths: "
                   "no function reachable from SourceFormatter::{format_path, check_path} or cajun's DocumentFormatter::format unwraps "
                   "the result of RcDoc::render_fmt")
    from . import c10
    unwrappers = set()
    n = 0
    for tag in facts.tags():
        idx = facts.index(tag)
        users = sorted(set(c["from"] for c in idx["calls"] if c["to"].endswith("::render_fmt") or c["to"].endswith("::render")))
        for o in users:
            m = facts.mir(o)
            if m is None:
                continue
            b = M.Body(o, m)
            n += 1
            for bb, t in b.calls():
                if not c10.UNWRAP.search(t["fn"]):
                    continue
                a = M.op_place(t["args"][0])
                if a is None:
                    continue
                if any(s["fn"].endswith("::render_fmt") for s in c10._trace_sources_through(b, M.place_local(a))):
                    unwrappers.add(o.split("::{closure")[0])
    # unwraps of functions that return the render result unchanged (try_render_*): their unwrapping callers panic too
    fallible = [p for p in facts.bodies() if re.search(r"PrettyFormatter::<'arena>::try_render_\w+$", p)]
    for p in facts.bodies():
        m = facts.mir(p)
        if m is None or not p.startswith(PRETTY):
            continue
        b = M.Body(p, m)
        for bb, t in b.calls():
            if c10.UNWRAP.search(t["fn"]):
                a = M.op_place(t["args"][0])
                if a is not None and any(s["fn"] in fallible for s in c10._trace_sources_through(b, M.place_local(a))):
                    unwrappers.add(p.split("::{closure")[0])
    ctx.note("%s: functions that panic on a render failure: %s" % (rule, sorted(x.split("::")[-1] for x in unwrappers)))
    g = callgraph.CallGraph(facts)
    roots = [r for r in (CLI + "format_path", CLI + "check_path", CAJUN) if r in facts.bodies()]
    ctx.floor(rule, "formatter entry points of the tools", len(roots), 3)
    hits = g.reach(roots, lambda to, c: to if to in unwrappers else None)
    for root, path, c, lab in hits:
        ctx.violation(rule, "%s:%s" % (root.split("::")[-1], c["to"].split("::")[-1]),
                      "%s reaches %s, which unwraps a render result: a source with no admissible layout panics the tool (%s)"
                      % (root, c["to"], " -> ".join(p.split("::")[-1] for p in path[-4:])), c["loc"])
    for r in roots:
        if not any(h[0] == r for h in hits):
            ctx.ok(rule, r.split("::")[-2] + "::" + r.split("::")[-1], {"entry": r, "reaches_panicking_renderer": False})


def rule_literal_escapes(ctx):
    rule = "literal-escapes"
    facts = ctx.facts
    ctx.rule(rule, "the string-literal writer (escape::quote_string) and reader (escape::apply_string_escapes) are inverse: every escape "
                   "the writer emits is decoded to the character it stands for, the writer escapes the backslash and the delimiter, and "
                   "the literal printer does not use {:?} on text")
    W = "zydeco_surface::textual::escape::quote_string"
    R = "zydeco_surface::textual::escape::apply_string_escapes"
    if W not in facts.bodies():
        ctx.violation(rule, "writer", "escape::quote_string does not exist: string literals are printed by some other escaper whose "
                                      "table is not checked against apply_string_escapes", None)
        return
    hw = ctx.need_hir(rule, W)
    mw = next((m for m in H.walk(hw["body"]) if H.kind(m) == "Match" and not m.get("src")), None)
    writer = {}
    for a in mw["arms"]:
        p = A.strip_or(a["pat"])
        if H.kind(p) == "Lit" or (H.kind(p) == "Expr"):
            ch = _lit(p)
            s = next((_lit(x) for x in H.walk(a["body"]) if H.kind(x) == "Lit" and "str" in (x.get("lit") or {})), None)
            writer[ch] = s
    hr = ctx.need_hir(rule, R)
    mr = None
    for m in H.walk(hr["body"]):
        if H.kind(m) == "Match" and not m.get("src") and len(m["arms"]) >= 4:
            mr = m
    reader = {}
    default_identity = False
    for a in (mr["arms"] if mr else []):
        p = A.strip_or(a["pat"])
        pats = p["pats"] if H.kind(p) == "Or" else [p]
        body = H.peel(a["body"])
        for q in pats:
            if H.kind(q) in ("Lit", "Expr"):
                reader[_lit(q)] = _lit(body) if H.kind(body) == "Lit" else "identity" if H.path_local(body) else "?"
            elif H.pat_is_catch_all(q):
                default_identity = H.path_local(body) is not None
    ok = True
    msgs = []
    for ch, esc in writer.items():
        if not (isinstance(esc, str) and len(esc) == 2 and esc[0] == "\\"):
            ok = False
            msgs.append("%r is written as %r" % (ch, esc))
            continue
        dec = reader.get(esc[1], "identity" if default_identity else None)
        dec = esc[1] if dec == "identity" else dec
        if dec != ch:
            ok = False
            msgs.append("%r is written as %r, which is read back as %r" % (ch, esc, dec))
    for must in ("\\", '"'):
        if must not in writer:
            ok = False
            msgs.append("%r is not escaped by the writer" % must)
    ctx.check(ok and len(writer) >= 2, rule, "string:inverse", "quote_string and apply_string_escapes disagree: %s" % "; ".join(msgs),
              facts.bodies()[W]["loc"], detail={"writer": {k: v for k, v in writer.items()}, "reader": reader})
    # every character of the text goes through the table: no early return, no second way to build the result
    rets = [x for x in H.walk(hw["body"]) if H.kind(x) == "Ret"]
    body = H.peel(hw["body"])
    tail = H.peel(body.get("expr")) if isinstance(body, dict) and body.get("expr") is not None else None
    acc = H.path_local(tail) if tail is not None else None
    loops = [x for x in H.walk(hw["body"]) if H.kind(x) == "Match" and H.is_for(x)]
    in_loop = set(id(y) for lp in loops for y in H.walk(lp))
    # the iterator form: a closure handed to an adaptor of `text.chars()` (for_each / map / flat_map / fold ..)
    iter_calls = [x for x in H.walk(hw["body"]) if H.kind(x) == "MethodCall" and "chars" in A.sexpr(x["recv"], None)
                  and any(H.kind(H.peel(y)) == "Closure" for y in x["args"])]
    in_loop |= set(id(y) for c in iter_calls for y in H.walk(c))
    outside_conditionals = [x for x in H.walk(hw["body"]) if H.kind(x) in ("If", "Match") and id(x) not in in_loop
                            and not (H.kind(x) == "Match" and (H.is_for(x) or x.get("src")))]
    over_chars = any("chars" in A.sexpr(H.for_parts(lp)[1], None) for lp in loops) or bool(iter_calls)
    ctx.check(not rets and (acc is not None or bool(iter_calls)) and not outside_conditionals and over_chars and mw is not None
              and id(mw) in in_loop, rule, "string:writer-total", "quote_string has a path that does not take every character through the escape table (%s): a fast "
              "path that forgets one of the escaped characters (the delimiter) prints a literal that reads back as different text"
              % ("early return" if rets else "conditional outside the character loop" if outside_conditionals else
                 "result is not the accumulated text" if acc is None else "no loop over the characters"),
              facts.bodies()[W]["loc"], detail={"shape": "accumulator; for ch in text.chars() { table }; accumulator"})
    # the printer
    fn = FORMATTER + "literal"
    h = ctx.need_hir(rule, fn)
    arms = {}
    m = A.find_match_on(h["body"], lambda n: True)
    for a in m["arms"]:
        cs = [c for _, c in H.calls(a["body"])]
        arms[_v(a["pat"])] = "quote_string" if W in cs else "debug" if any("new_debug" in c for c in cs) else "display" if any("new_display" in c for c in cs) else "?"
    ctx.check(arms.get("String") == "quote_string", rule, "printer:String", "string literals are printed with %s, not with the inverse of the "
              "parser's escape decoder" % arms.get("String"), facts.bodies()[fn]["loc"], detail={"printers": arms})
    # floats: `{:?}` of a non-finite value is an identifier (`inf`), so the Debug arm must come after an arm guarded by a finiteness test
    guarded = False
    float_ok = False
    for a in m["arms"]:
        if _v(a["pat"]) != "Float":
            continue
        g = a.get("guard")
        if g is not None and any(re.search(r"f64>::(is_infinite|is_finite|is_nan)$", c) for _, c in H.calls(g)):
            guarded = True
            continue
        cs = [c for _, c in H.calls(a["body"])]
        float_ok = guarded or not any("new_debug" in c or "new_display" in c for c in cs)
    ctx.check(float_ok, rule, "printer:Float", "float literals are printed with Debug / Display on every value: an overflowing literal "
              "(`1e999`) is an infinity, which prints as the identifier `inf`; a finiteness-guarded arm has to come first",
              facts.bodies()[fn]["loc"], detail={"finiteness_guard": guarded})
    # metadata strings: the same writer table as quote_string, no Debug
    MD = "<zydeco_syntax::Meta as core::fmt::Display>::fmt"
    hm = facts.hir(MD)
    if hm is None:
        ctx.anchor_lost(rule, MD + " not found")
    else:
        ctx.fn(MD)
        mm = A.find_match_on(hm["body"], lambda n: True)
        for a in mm["arms"]:
            if _v(a["pat"]) != "String":
                continue
            cs = [c for _, c in H.calls(a["body"])]
            tbl = {}
            inner = next((x for x in H.walk(a["body"]) if H.kind(x) == "Match" and not x.get("src") and len(x["arms"]) >= 3), None)
            for b in (inner["arms"] if inner else []):
                q = A.strip_or(b["pat"])
                if H.kind(q) in ("Lit", "Expr"):
                    tbl[_lit(q)] = next((_lit(x) for x in H.walk(b["body"]) if H.kind(x) == "Lit" and "str" in (x.get("lit") or {})), None)
            ctx.check(not any("new_debug" in c for c in cs) and tbl == writer, rule, "printer:Meta::String",
                      "metadata strings (`@[doc(\"..\")]`) are printed %s: the surface lexer decodes only %s, anything else (Debug's "
                      "`\\u{..}`) is read back as different text" % ("with Debug" if any("new_debug" in c for c in cs) else
                                                                     "with the table %s" % tbl, sorted(writer)),
                      facts.bodies()[MD]["loc"], detail={"table": tbl, "quote_string": writer})
    ctx.check(arms.get("Char") == "debug", rule, "printer:Char", "char literals are printed with %s (audited: Debug; the CharLit language "
              "is printable ASCII plus \\n \\r \\t, on which char's Debug emits exactly the escapes apply_char_escapes decodes)" % arms.get("Char"),
              facts.bodies()[fn]["loc"], detail={"printer": arms.get("Char")})


def rule_directive_scope(ctx):
    """a width directive is honoured by the text that is EMITTED, not only by the layout that is measured"""
    from . import c07
    rule = "directive-scope"
    facts = ctx.facts
    ctx.rule(rule, "PrettyFormatter::format_annotated: when the directive changes the line width, every document returned after the "
                   "pre-render (try_render_doc at the directive's width) is built from the pre-rendered TEXT, never from the payload "
                   "document: a document would be laid out again by the ambient renderer at the ambient width, so `fits on one line` "
                   "is decided at one width and the breaks are made at another, and the second run (which reads those breaks back as "
                   "intentions) formats differently")
    fn = FORMATTER + "format_annotated"
    h = ctx.need_hir(rule, fn)
    if h is None:
        return
    loc = facts.bodies()[fn]["loc"]
    e = A.ArmEnv()
    e.strip = True
    e.bind_params(h)
    e.absorb(h["body"])
    pre = [x for x in H.walk(h["body"]) if H.kind(x) in ("Call", "MethodCall") and (H.callee(x) or "").endswith("::try_render_doc")]
    ctx.check(len(pre) == 1, rule, "format_annotated:pre-render", "format_annotated pre-renders its payload %d times (expected once, with the "
              "scoped formatter)" % len(pre), loc, detail={"pre_render": "scoped.try_render_doc(payload.document)"})
    if len(pre) != 1:
        return
    after = pre[0].get("ln") or 0
    n = 0
    for o in c07._results(h["body"]):
        if (o.get("ln") or 0) <= after:
            continue          # results before the pre-render: same width, the payload document is laid out by the one renderer
        n += 1
        sx = A.sexpr(o, e)
        uses_text = "try_render_doc" in sx
        # the payload fragment may only occur as the operand of try_render_doc
        stripped = re.sub(r"\(zydeco_surface::textual::pretty::PrettyFormatter::<'arena>::try_render_doc .*?/Ok\.0", "", sx)
        stripped = re.sub(r"\(zydeco_surface::textual::pretty::PrettyFormatter::<'arena>::try_render_doc ", "", stripped) if "/Ok.0" not in sx else stripped
        raw_payload = "term_through_fragment" in stripped
        is_fail = sx.endswith("::fail )") or "RcDoc::<'a, A>::fail" in sx and "append" not in sx
        ctx.check(is_fail or (uses_text and not raw_payload), rule, "format_annotated:result@%d" % n,
                  "format_annotated returns %s after pre-rendering at the directive's width: the payload DOCUMENT is emitted (to be laid "
                  "out by the ambient renderer at the ambient width) instead of the pre-rendered text" % sx[:200], [loc[0], o.get("ln")],
                  detail={"built_from": "fail" if is_fail else "pre-rendered text"})
    ctx.floor(rule, "results after the pre-render", n, 3)


def rule_directive_bounds(ctx):
    """a number taken from a format directive that the printer materialises (columns of indentation) is bounded"""
    rule = "directive-bounds"
    facts = ctx.facts
    ctx.rule(rule, "IndentWidth::new, the only constructor of an indentation width from a user number (who-constructs), rejects every "
                   "value above a constant of at most 65535: the printer allocates that many columns per nesting level of every line, "
                   "so an unbounded `@[format(indent(N))]` exhausts memory or aborts instead of formatting or reporting")
    IW = "zydeco_surface::textual::pretty::config::IndentWidth"
    fn = IW + "::new"
    h = facts.hir(fn)
    if h is None:
        ctx.anchor_lost(rule, fn + " not found")
        return
    ctx.fn(fn)
    bound = None
    for x in H.walk(h["body"]):
        if H.kind(x) == "Binary" and x.get("op") in ("Gt", "Ge") and H.path_local(x["a"]):
            rhs = H.peel(x["b"])
            if H.kind(rhs) == "Lit":
                bound = _lit(rhs)
            else:
                d = H.path_def(rhs) or A.sexpr(rhs, None)
                hb = facts.hir(d) if isinstance(d, str) else None
                bound = A.sexpr(hb["body"], None) if hb else A.sexpr(rhs, None)
    try:
        ok = bound is not None and 0 < int(str(bound)) <= 65535
    except ValueError:
        ok = False
    ctx.check(ok, rule, "IndentWidth::new:upper-bound", "IndentWidth::new accepts every value up to %s: `@[format(indent(N))]` with a huge N "
              "makes `zydeco fmt` allocate N columns per line (out of memory / abort)" % bound, facts.bodies()[fn]["loc"],
              detail={"upper_bound": str(bound)})
    # who constructs an IndentWidth: new, DEFAULT, Clone
    from .c01 import who_constructs
    aggs = who_constructs(facts, IW)
    makers = sorted(f for f in aggs if "::tests::" not in f)
    allowed = {IW + "::new", IW + "::DEFAULT", "<%s as core::clone::Clone>::clone" % IW}
    ctx.check(set(makers) <= allowed and (not aggs or IW + "::new" in makers), rule, "IndentWidth:constructors",
              "an IndentWidth is built outside IndentWidth::new / DEFAULT (%s): the bound can be bypassed" % sorted(set(makers) - allowed),
              None, detail={"constructors": makers})


def _lit(n):
    n = H.peel(n) if H.kind(n) not in ("Lit",) else n
    if H.kind(n) == "Expr":
        n = n.get("e") or n
    d = n.get("lit") if isinstance(n, dict) else None
    if not d:
        return None
    return list(d.values())[0]


# ---------------------------------------------------------------------------------------------------------------------
# arms: capture side (grammar actions) vs emission side (printer)
# ---------------------------------------------------------------------------------------------------------------------
ARMS = {
    # printer fn -> (grammar nonterminal, arm struct)
    "data": "DataArm", "codata": "CoDataArm", "matcher": "Matcher", "comatcher": "CoMatcher",
}


def grammar_arm_prefixes():
    """nonterminal -> (first, payload) as field names; `a|b` = `a` when present else `b`"""
    text = G.read()
    out = {}
    for nt in ARMS.values():
        m = re.search(r"^%s\s*:[^=]*=\s*\{(.*?)^\};" % nt, text, re.M | re.S)
        if not m:
            continue
        body = m.group(1)
        call = re.search(r"parser\.arm_prefix\(\s*(\w+)\s*,\s*(\w+)\s*,\s*start\s*\)", body)
        if not call:
            continue
        first, payload = call.group(1), call.group(2)
        alias = re.search(r"let\s+%s\s*:\s*EntityId\s*=\s*(\w+)\.map_or_else\(\|\|\s*(\w+)\.into\(\)\s*,\s*Into::into\)" % re.escape(first), body)
        if alias:
            first = "%s|%s" % (alias.group(1), alias.group(2))
        out[nt] = (first, payload)
    return out


def _arm_closure(h):
    """the `arms.iter().map(|arm| ..)` closure of an arm printer and an env naming its parameter `$arm`"""
    for n in H.walk(h["body"]):
        if H.kind(n) == "MethodCall" and n["name"] == "map" and n["args"]:
            clo = H.peel(n["args"][0])
            if H.kind(clo) == "Closure" and clo.get("params"):
                env = A.ArmEnv()
                env.strip = True
                env.bind_params(h)
                for l, p in A.pat_paths(clo["params"][0]).items():
                    env.names[l] = "$arm"
                env.absorb(clo["body"])
                return clo, env
    return None, None


def _field_of_arm(s):
    """`(. $arm f)` -> f ; `(map_or_else (. $arm a) (closure (. $arm b)) Into::into)` -> a|b"""
    s = s.strip()
    m = re.match(r"^\(\. \$arm (\w+)\)$", s)
    if m:
        return m.group(1)
    m = re.match(r"^\(core::option::Option::<T>::map_or_else \(\. \$arm (\w+)\) \(closure \(\. \$arm (\w+)\)\) .*Into.*::into\)$", s)
    if m:
        return "%s|%s" % (m.group(1), m.group(2))
    return s


def rule_arm_printers(ctx, want_anchor=True, want_boundary=True):
    rule = "arm-printers"
    facts = ctx.facts
    ctx.rule(rule, "for data / codata / match / comatch arms the printer's fragment starts at the entity under which the parser's "
                   "arm_prefix(first, payload, start) action files the comments written before the arm, ends at the payload, and "
                   "arm_block emits those comments for arm.anchors.first; the break before the payload is measured from the last "
                   "header entity that can wrap (between(header, payload)) and from the `|` line (after_arm_prefix(payload)) only "
                   "when the header is a bare name")
    gram = grammar_arm_prefixes()
    ctx.floor(rule, "arm productions with an arm_prefix action", len(gram), 4)
    for f, nt in ARMS.items():
        fn = FORMATTER + f
        h = ctx.need_hir(rule, fn)
        loc = facts.bodies()[fn]["loc"]
        clo, env = _arm_closure(h)
        if clo is None or nt not in gram:
            ctx.anchor_lost(rule, "%s: arm closure or grammar action not found" % f)
            continue
        gfirst, gpayload = gram[nt]
        # anchors of the fragment
        first = last = None
        for n in H.walk(clo["body"]):
            if H.kind(n) == "Struct" and (n["path"].get("def") or "").endswith("LayoutAnchors"):
                fs = {x["name"]: A.sexpr(x["e"], env) for x in n["fields"]}
                first, last = _field_of_arm(fs.get("first", "")), _field_of_arm(fs.get("last", ""))
            if H.kind(n) == "Call" and (H.callee(n) or "").endswith("LayoutFragment::<'arena>::entity"):
                first = last = _field_of_arm(A.sexpr(n["args"][0], env))
        if want_anchor:
            ctx.check(first == gfirst and last == gpayload, rule, "%s:anchors" % f, "%s arms are anchored at (%s .. %s) but the parser files "
                      "comments before the arm under `%s` and the payload is `%s`: comments written before such an arm are never "
                      "printed" % (f, first, last, gfirst, gpayload), loc, detail={"arm": f, "first": first, "last": last})
        if want_boundary:
            # wrappable header entities: arguments of self.pattern / self.copattern in the arm header
            wrappable = []
            for n in H.walk(clo["body"]):
                if H.kind(n) == "MethodCall" and n["name"] in ("pattern", "copattern", "annotated_pattern"):
                    wrappable.append(_field_of_arm(A.sexpr(n["args"][0], env)).replace("(. $arm params)/Some.0", "params"))
            intents = []
            for n in H.walk(clo["body"]):
                c = H.callee(n) or ""
                if H.kind(n) == "Call" and c.endswith("BoundaryIntent::between"):
                    intents.append(("between", [_field_of_arm(A.sexpr(a, env)).replace("(. $arm params)/Some.0", "params") for a in n["args"]]))
                if H.kind(n) == "Call" and c.endswith("BoundaryIntent::after_arm_prefix"):
                    intents.append(("after_arm_prefix", [_field_of_arm(A.sexpr(a, env)) for a in n["args"]]))
            optional = "|" in gfirst     # header entity is optional (codata parameters)
            hdr = (wrappable or [None])[0]
            want = []
            if hdr is not None:
                want.append(("between", [hdr, gpayload]))
            if hdr is None or optional:
                want.append(("after_arm_prefix", [gpayload]))
            ctx.check(sorted(intents) == sorted(want), rule, "%s:header-boundary" % f, "%s: the break before the payload uses %s; expected %s "
                      "(a header that can wrap must be measured from its own last line, otherwise the printer's line breaks are read "
                      "back as a request to break: not a fixed point)" % (f, intents, want), loc,
                      detail={"arm": f, "boundary": ["%s(%s)" % (k, ",".join(v)) for k, v in intents]})
    # arm_block emits before-arm comments for anchors.first
    fn = FORMATTER + "arm_block"
    h = ctx.need_hir(rule, fn)
    env = A.ArmEnv(); env.strip = True; env.bind_params(h); env.absorb(h["body"])
    calls = [A.sexpr(n, env) for n in H.walk(h["body"]) if H.kind(n) == "MethodCall" and n["name"] == "with_before_arm_comments"]
    ok = len(calls) == 1 and re.search(r"with_before_arm_comments \$P0 \(\. \(\. \(each \$P3\) anchors\) first\) \(\. \(each \$P3\) document\)\)$", calls[0]) is not None
    ctx.check(ok, rule, "arm_block:before-arm-comments", "arm_block does not wrap every arm in with_before_arm_comments(arm.anchors.first, "
              "arm.document): %s" % calls, facts.bodies()[fn]["loc"], detail={"wraps": "each arm, keyed by anchors.first"})


def rule_comment_wrappers(ctx):
    rule = "comment-emission"
    facts = ctx.facts
    ctx.rule(rule, "every entity printer returns with_leading_comments(<its own entity>, ..) on every exit; the four render_* roots add "
                   "with_trailing_comments(<root entity>, ..); the three comment tables of SurfaceTrivia are each read by exactly one "
                   "emitter and every emitter prints every comment of its list (fold over the whole slice)")
    from . import c07
    printers = {"term_with_requirement": 1, "pattern_with_requirement": 1, "copattern": 1, "definition": 1}
    for f, pi in printers.items():
        fn = FORMATTER + f
        h = ctx.need_hir(rule, fn)
        env = A.ArmEnv(); env.strip = True; env.bind_params(h)
        outs = c07._results(h["body"])
        bad = []
        for o in outs:
            o = H.peel(o)
            if H.kind(o) == "Struct":    # LayoutFragment { document: with_leading_comments(..), .. }
                o = H.peel(next((x["e"] for x in o["fields"] if x["name"] == "document"), o))
            ok = H.kind(o) == "MethodCall" and o["name"] == "with_leading_comments" and A.sexpr(o["args"][0], env) == "$P%d" % pi
            if not ok and f == "copattern":
                # an application spine: copattern_parameters wraps its first parameter in the spine's own leading comments
                ok = any(H.kind(x) == "MethodCall" and x["name"] == "copattern_parameters" and A.sexpr(x["args"][0], env) == "$P1" for x in H.walk(o)) \
                    or any(H.kind(x) == "Let" and any(y["name"] == "copattern_parameters" for y in H.walk(x) if H.kind(y) == "MethodCall") for x in H.walk(h["body"]))
            if not ok:
                bad.append(A.sexpr(o, env)[:90])
        ctx.check(outs and not bad, rule, "%s:leading" % f, "%s has an exit that does not emit the leading comments of its own entity: %s"
                  % (f, bad), facts.bodies()[fn]["loc"], detail={"printer": f, "exits": len(outs)})
    roots = 0
    for f in ("try_render_unit", "render_term", "render_pattern", "render_copattern"):
        fn = FORMATTER + f
        if fn not in facts.bodies():
            ctx.anchor_lost(rule, "%s not found" % fn)
            continue
        h = ctx.need_hir(rule, fn)
        env = A.ArmEnv(); env.strip = True; env.bind_params(h)
        calls = [A.sexpr(n["args"][0], env) for n in H.walk(h["body"]) if H.kind(n) == "MethodCall" and n["name"] == "with_trailing_comments"]
        roots += 1
        ctx.check(calls in (["$P1"], ["(. $P1 root)"]), rule, "%s:trailing" % f, "%s emits trailing comments for %s, not for its root entity"
                  % (f, calls), facts.bodies()[fn]["loc"], detail={"root": f})
    readers = {}
    testers = {}
    for p, bd in facts.bodies().items():
        if not p.startswith(PRETTY) or bd["tag"].endswith("-test"):
            continue
        h = facts.hir(p)
        if h is None:
            continue
        par = {}
        st = [(h["body"], None)]
        while st:
            x, q = st.pop()
            if isinstance(x, dict):
                par[id(x)] = q
                for c in H.children(x):
                    st.append((c, x))
        for n, c in H.calls(h["body"]):
            m = re.search(r"SurfaceTrivia::(leading_comments|before_arm_comments|trailing_comments)$", c)
            if not m:
                continue
            # a presence / property test: the list flows, as a receiver, only into a boolean (is_empty, last().is_some_and(..), any ..)
            cur, q = n, par.get(id(n))
            only_tests = False
            for _ in range(6):
                while q is not None and H.kind(q) in ("AddrOf", "Use", "Type", "Unary"):
                    cur, q = q, par.get(id(q))
                if q is None or H.kind(q) != "MethodCall" or H.peel(q["recv"]) is not cur and q["recv"] is not cur:
                    break
                if (q.get("ty") or "") == "bool":
                    only_tests = True
                    break
                cur, q = q, par.get(id(q))
            who = p.split("::{closure")[0].split("::")[-1]
            (testers if only_tests else readers).setdefault(m.group(1), set()).add(who)
    EMIT = {"leading_comments": {"with_leading_comments"}, "before_arm_comments": {"with_before_arm_comments"}, "trailing_comments": {"with_trailing_comments"}}
    for table, emit in EMIT.items():
        got = readers.get(table, set())
        ctx.check(got == emit, rule, "table:%s" % table, "the comments of SurfaceTrivia::%s are consumed by %s; expected exactly the emitter %s "
                  "(functions that only test the list for emptiness are not consumers: %s)" % (table, sorted(got), sorted(emit), sorted(testers.get(table, set()))),
                  None, detail={"table": table, "emitter": sorted(got), "presence_tests": sorted(testers.get(table, set()))})
    for f in ("with_comments", "with_trailing_comments"):
        fn = FORMATTER + f
        h = ctx.need_hir(rule, fn)
        folds = [n for n in H.walk(h["body"]) if H.kind(n) == "MethodCall" and n["name"] == "fold"]
        adapters = [x["name"] for n in folds for x in H.walk(n["recv"]) if H.kind(x) == "MethodCall" and x["name"] not in ("iter", "trailing_comments", "enumerate")]     # enumerate keeps every element
        ctx.check(len(folds) == 1 and not adapters, rule, "%s:all" % f, "%s does not fold over the whole comment list (adapters %s)" % (f, adapters),
                  facts.bodies()[fn]["loc"], detail={"emitter": f})


def rule_verbatim(ctx):
    rule = "verbatim"
    facts = ctx.facts
    ctx.rule(rule, "format_verbatim copies source[annotation_end .. inner_start] and source[inner_start .. inner_end] (contiguous, nothing "
                   "re-rendered); the annotation's end is the FIRST `]` TOKEN after its start, found with the comment-aware lexical scan (a format "
                   "directive contains none; comments may contain the character); every PrettyFormatter derived from another (scoped) inherits its source text")
    fn = FORMATTER + "format_verbatim"
    h = ctx.need_hir(rule, fn)
    loc = facts.bodies()[fn]["loc"]
    env = A.ArmEnv(); env.strip = True; env.bind_params(h); env.absorb(h["body"])
    names = [n["name"] for n in H.walk(h["body"]) if H.kind(n) == "MethodCall"]
    finds = [A.sexpr(n, env) for n in H.walk(h["body"]) if H.kind(n) == "MethodCall" and n["name"] == "find"]
    token_based = any("LexicalTokens" in f_ and "LexicalTokenKind::Punctuation" in f_ and " ]" in f_ for f_ in finds)
    ctx.check("find" in names and "rfind" not in names and token_based, rule, "annotation-end", "format_verbatim locates the end of the "
              "annotation with %s%s: the end is the first `]` TOKEN of the comment-aware lexical scan; a `]` character inside a comment "
              "before, inside or after the brackets (`@ /- ] -/ [format(verbatim)] x`) cuts the copied text and the output does not parse"
              % ([x for x in names if x in ("find", "rfind", "rfind_map", "rsplit", "split")], "" if token_based else " on the text"),
              loc, detail={"search": "LexicalTokens .. find(Punctuation `]`)"})
    gets = [A.sexpr(n["args"][0], env) for n in H.walk(h["body"]) if H.kind(n) == "MethodCall" and n["name"] == "get"]
    rng = [r for r in (_range(g) for g in gets) if r is not None]
    ok = len(rng) == 3 and rng[1][1] == rng[2][0] and rng[0][1] == rng[2][0]
    ctx.check(ok, rule, "contiguous", "format_verbatim's copied slices are %s: boundary and payload must be adjacent ranges of the source "
              "(.. inner_start)(inner_start ..)" % [g[:100] for g in gets], loc, detail={"slices": len(gets)})
    # the comments of a verbatim payload are copied with it: the capture must not collect them as well (they would be emitted twice)
    cap = next((q for q in facts.bodies() if q.endswith("::capture_source_information")), None)
    newfn = COMMENT + "CommentCapture::new"
    if cap is None or newfn not in facts.bodies():
        ctx.anchor_lost(rule, "capture_source_information / CommentCapture::new not found")
    else:
        hc = facts.hir(cap)
        reads_directive = any(H.kind(x) == "Field" and x.get("name") == "verbatim" for x in H.walk(hc["body"])) and \
            any(H.kind(c) in ("Call", "MethodCall") and (H.callee(c) or "").endswith("::specialize") for c in H.walk(hc["body"]))
        calls = [c for c in H.walk(hc["body"]) if H.kind(c) in ("Call", "MethodCall") and (H.callee(c) or "") == newfn]
        passes = bool(calls) and all(len(H.call_args(c)) >= 3 for c in calls)
        hn = facts.hir(newfn)
        en = A.ArmEnv(); en.strip = True; en.bind_params(hn)
        filters = [c for c in H.walk(hn["body"]) if H.kind(c) == "MethodCall" and c["name"] in ("filter", "retain", "filter_map")
                   and any(H.kind(y) == "Path" and (y.get("res") or {}).get("local") is not None and (y.get("res") or {}).get("name") == "copied"
                           for y in H.walk(c["args"][0]))] if hn else []
        ctx.check(reads_directive and passes and bool(filters), rule, "payload-comments-not-captured", "the comment capture does not skip the comments "
                  "inside a verbatim payload (directive read: %s, ranges passed: %s, filtered: %s): a comment there that no entity of the "
                  "payload follows (`@[format(verbatim)] (g /- c -/ )`) is copied with the payload AND emitted at its outside anchor, once "
                  "more on every run" % (reads_directive, passes, bool(filters)), facts.bodies()[cap]["loc"],
                  detail={"skipped": "comments inside the payload range of a verbatim directive"})
    # scoped() keeps the source
    fn = FORMATTER + "scoped"
    h = ctx.need_hir(rule, fn)
    env = A.Env(); env.strip = True; env.bind_params(h)
    st = next((n for n in H.walk(h["body"]) if H.kind(n) == "Struct" and re.search(r"PrettyFormatter(<'arena>)?$", n["path"].get("def") or "")), None)
    src = A.sexpr(next((x["e"] for x in st["fields"] if x["name"] == "source"), None), env) if st else "(no struct literal)"
    ctx.check(src == "(. $P0 source)", rule, "scoped:source", "a directive-scoped formatter is built with source = %s: a verbatim region nested "
              "in another directive is re-rendered instead of copied" % src, facts.bodies()[fn]["loc"], detail={"source": "self.source"})


def _range(s):
    """`(core::ops::range::Range start=X end=Y)` -> (X, Y)"""
    pre = "(core::ops::range::Range start="
    if not s.startswith(pre) or not s.endswith(")"):
        return None
    body = s[len(pre):-1]
    depth = 0
    for i, c in enumerate(body):
        if c == "(":
            depth += 1
        elif c == ")":
            depth -= 1
        elif depth == 0 and body.startswith(" end=", i):
            return body[:i], body[i + 5:]
    return None


def rule_tool_formatter(ctx):
    rule = "one-renderer"
    facts = ctx.facts
    ctx.rule(rule, "fmt, fmt --check and the language server build the formatter with PrettyFormatter::with_source(arena, spans, <the text "
                   "they parsed>) and render with try_render_unit; check_path and format_path obtain (source, formatted) from the same "
                   "function; try_render_unit appends exactly one hardline")
    CTORS = re.compile(r"PrettyFormatter::<'arena>::(new|with_options|with_source|with_options_source)$")
    for root in (CLI + "format_path", CLI + "check_path", CAJUN):
        g = callgraph.CallGraph(facts)
        reach = g.reachable_set([root]) | {root}
        built = []
        for fn in reach:
            if not (fn.startswith("zydeco_cli::format") or fn.startswith("cajun::format")):
                continue
            for c in g.out.get(fn, []):
                if CTORS.search(c["to"]):
                    built.append((fn.split("::")[-1], c["to"].split("::")[-1]))
        ctx.check(built and all(k == "with_source" for _, k in built), rule, "%s:constructor" % root.split("::")[-1],
                  "%s formats with %s: without the source text verbatim regions are re-rendered, so this entry point disagrees with the "
                  "others" % (root, built), facts.bodies()[root]["loc"], detail={"entry": root.split("::")[-1], "built_with": built})
    for f in ("format_path", "check_path"):
        h = ctx.need_hir(rule, CLI + f)
        cs = [c.split("::")[-1] for _, c in H.calls(h["body"]) if c.startswith("zydeco_cli::format::SourceFormatter::")]
        ctx.check(cs == ["render_source"], rule, "%s:shared" % f, "%s computes its texts through %s, expected the shared render_source only" % (f, cs),
                  facts.bodies()[CLI + f]["loc"], detail={"fn": f, "through": cs})
    fn = FORMATTER + "try_render_unit"
    if fn in facts.bodies():
        h = ctx.need_hir(rule, fn)
        env = A.ArmEnv(); env.strip = True; env.bind_params(h); env.absorb(h["body"])
        hard = sum(1 for n in H.walk(h["body"]) if (H.callee(n) or "").endswith("::hardline"))
        tail = [A.sexpr(o, env) for o in __import__("zv.rules.c07", fromlist=["x"])._results(h["body"])]
        ctx.check(hard == 1 and len(tail) == 1 and re.match(r"^\(.*try_render_doc \$P0 \(.*::append .*\(.*hardline \)\)\)$", tail[0]) is not None,
                  rule, "trailing-newline", "try_render_unit is %s (hardlines: %d); expected try_render_doc(document.append(hardline()))"
                  % ([t[:100] for t in tail], hard), facts.bodies()[fn]["loc"], detail={"hardlines": hard})
    else:
        ctx.anchor_lost(rule, "try_render_unit not found")


def rule_ctor_gap(ctx):
    rule = "identifier-comment-gap"
    facts = ctx.facts
    ctx.rule(rule, "a constructor name is printed without a following space, and `-` is an identifier character: wherever constructor(name) "
                   "is followed by its argument, constructor_argument_gap(argument) comes in between (a space when the argument has leading "
                   "comments)")
    n = 0
    for p, bd in sorted(facts.bodies().items()):
        if not p.startswith(FORMATTER) or bd["tag"].endswith("-test"):
            continue
        h = facts.hir(p)
        if h is None:
            continue
        for node in H.walk(h["body"]):
            if H.kind(node) == "MethodCall" and node["name"] == "append":
                r = H.peel(node["recv"])
                if H.kind(r) == "MethodCall" and r["name"] == "constructor":
                    n += 1
                    a = H.peel(node["args"][0])
                    ok = H.kind(a) == "MethodCall" and a["name"] in ("constructor_argument_gap", "pattern_constructor_argument_gap")
                    f = p.split("::")[-1]
                    if f in ("data",):
                        ok = True     # `| +C : param`: followed by the ` :` separator of the arm
                    ctx.check(ok, rule, "%s:constructor" % f, "%s appends %s directly to a constructor name: a line comment leading the "
                              "argument is fused into the identifier (`+C-- c`)" % (f, a.get("name") or H.kind(a)), [bd["loc"][0], node.get("ln")],
                              detail={"fn": f, "after_name": a.get("name") if isinstance(a, dict) else None})
                    # the gap helper must look as far as the argument printer does: through the groups that printer elides
                    if ok and H.kind(a) == "MethodCall":
                        parent = _append_parent(h["body"], node)
                        nxt = H.peel(parent["args"][0]) if parent is not None else None
                        printer = nxt["name"] if nxt is not None and H.kind(nxt) == "MethodCall" else None
                        pf = FORMATTER + printer if printer else None
                        gf = FORMATTER + a["name"]
                        if pf in facts.bodies() and gf in facts.bodies():
                            pcalls = [c.split("::")[-1] for _, c in H.calls(facts.hir(pf)["body"])]
                            gcalls = [c.split("::")[-1] for _, c in H.calls(facts.hir(gf)["body"])]
                            elides = "should_elide_parentheses" in pcalls and printer in pcalls
                            ctx.check((not elides) or "should_elide_parentheses" in gcalls, rule, "%s:gap-follows-elision" % f,
                                      "%s elides singleton groups around the argument (printing their comments first) but %s tests only the "
                                      "argument itself: a comment on an elided group still touches the constructor name" % (printer, a["name"]),
                                      [bd["loc"][0], node.get("ln")], detail={"printer": printer, "gap": a["name"], "printer_elides": elides})
    ctx.floor(rule, "constructor names followed by a document", n, 2)
    for g in ("constructor_argument_gap", "pattern_constructor_argument_gap"):
        fn = FORMATTER + g
        if fn not in facts.bodies():
            continue
        h = ctx.need_hir(rule, fn)
        cs = [c.split("::")[-1] for _, c in H.calls(h["body"])]
        ctx.check("leading_comments" in cs and "is_empty" in cs, rule, "%s:condition" % g, "%s no longer tests leading comments (%s)" % (g, cs),
                  facts.bodies()[fn]["loc"], detail={"calls": cs})


def _append_parent(body, node):
    """the `.append(..)` call whose receiver is `node`"""
    for x in H.walk(body):
        if H.kind(x) == "MethodCall" and x["name"] == "append" and H.peel(x["recv"]) is node:
            return x
    return None


def rule_exists_parens(ctx):
    rule = "grammar-owned-parentheses"
    facts = ctx.facts
    ctx.rule(rule, "existential_parameter prints a binder without adding the parameter's grammar-owned parentheses only for the formers that "
                   "print their own (Ann, Manifest - the audited set of pattern_class), after looking through elided groups; every other "
                   "binder, a kept group included, is delimited")
    fn = FORMATTER + "existential_parameter"
    h = ctx.need_hir(rule, fn)
    loc = facts.bodies()[fn]["loc"]
    m = None
    for x in H.walk(h["body"]):
        if H.kind(x) == "Match" and not x.get("src") and any("Pattern::" in v for a in x["arms"] for v in H.pat_variants(a["pat"])):
            m = x
    if m is None:
        ctx.anchor_lost(rule, "existential_parameter: match on the binder's former not found")
        return
    env = A.ArmEnv(); env.strip = True; env.bind_params(h); env.absorb(h["body"])
    bare, delimited, other = set(), set(), set()
    for a in m["arms"]:
        p = A.strip_or(a["pat"])
        pats = p["pats"] if H.kind(p) == "Or" else [p]
        body = H.peel(a["body"])
        kind = "bare" if H.kind(body) == "MethodCall" and body["name"] == "pattern" else "delimited" if H.kind(body) == "MethodCall" and body["name"] == "delimited" else "other"
        for q in pats:
            {"bare": bare, "delimited": delimited, "other": other}[kind].add(_v(q))
    scr = A.sexpr(m["scrut"], env)
    ctx.check(bare == {"Ann", "Manifest"} and delimited == {"_"} and not other and "transparent_pattern_group" in scr, rule, "existential_parameter",
              "existential_parameter prints %s without the grammar's parentheses and delimits %s (scrutinee %s); expected bare = {Ann, Manifest} "
              "over transparent_pattern_group(binder)" % (sorted(bare), sorted(delimited), scr[:80]), loc,
              detail={"bare": sorted(bare), "delimited": sorted(delimited)})


# ---------------------------------------------------------------------------------------------------------------------
# comment capture: which of several entities with one source range owns a comment
# ---------------------------------------------------------------------------------------------------------------------
COMMENT = "zydeco_surface::textual::trivia::comment::"


def _key_components(facts, fn, depth=0):
    """flatten the tuple a key function returns into [(component, reversed?)]; calls to sibling key helpers are expanded"""
    h = facts.hir(fn)
    if h is None or depth > 3:
        return None
    body = H.peel(h["body"])
    while H.kind(body) == "Block" and body.get("expr") is not None and not body.get("stmts"):
        body = H.peel(body["expr"])

    def comp(e, rev):
        e = H.peel(e)
        k = H.kind(e)
        if k == "Tup":
            out = []
            for x in e["es"]:
                out.extend(comp(x, rev))
            return out
        if k == "Call" and (H.callee(e) or "").endswith("cmp::Reverse"):
            return comp(e["args"][0], not rev)
        if k == "MethodCall":
            c = e.get("fn") or ""
            if c.startswith(COMMENT + "SpannedEntity::") and c.split("::")[-1] not in ("start", "end", "entity", "nesting_rank"):
                sub = _key_components(facts, c, depth + 1)
                if sub is not None:
                    return [(n, r != rev) for n, r in sub]
            return [(e["name"], rev)]
        if k == "Field":
            return [(e["name"], rev)]
        return [(k, rev)]
    return comp(body, False)


def rule_manifest_binder_group(ctx):
    rule = "grammar-owned-parentheses"
    facts = ctx.facts
    fn = FORMATTER + "manifest_parameter"
    h = ctx.need_hir(rule, fn)
    if h is None:
        return
    env = A.ArmEnv(); env.strip = True; env.bind_params(h); env.absorb(h["body"])
    ok = False
    for m in H.walk(h["body"]):
        if H.kind(m) != "Match" or m.get("src") or "transparent_pattern_group" not in A.sexpr(m["scrut"], env):
            continue
        for a in m["arms"]:
            if any(v.endswith("Pattern::Named") for v in H.pat_variants(a["pat"])) and \
                    any(H.kind(c) in ("Call", "MethodCall") and (H.callee(c) or "").endswith("::delimited") for c in H.walk(a["body"])):
                ok = True
    ctx.check(ok, rule, "manifest:named-binder-grouped", "manifest_parameter does not keep a group around a binder that is (through elided "
              "groups) a named pattern: the parser pushes `as d : K` beneath an ungrouped `field = p`, so `((Counter = Representation) as "
              "Int64 : VType)` printed without the inner parentheses is a different pattern (rejected before, accepted after formatting)",
              facts.bodies()[fn]["loc"], detail={"kept for": "Pattern::Named behind transparent groups"})


def rule_capture_anchors(ctx):
    rule = "capture-anchors"
    facts = ctx.facts
    ctx.rule(rule, "a comment before code is filed under the entity chosen by min_by_key(leading_key), a comment after all code under "
                   "max_by_key(trailing_key). With the selector's direction and every `Reverse` taken into account, both choose the "
                   "WIDEST entity and, among entities with one source range, the highest nesting rank and the latest allocated (the "
                   "enclosing one): the printer emits a comment only when it prints the entity that owns it, and only the outermost of "
                   "several same-range entities is ever asked for its trailing comments")
    want = {
        "leading": ("min_by_key", {"start": -1, "end": +1, "nesting_rank": +1, "entity": +1}),
        "trailing": ("max_by_key", {"end": +1, "start": -1, "nesting_rank": +1, "entity": +1}),
    }
    for which, (selector, polar) in want.items():
        keyfn = COMMENT + "SpannedEntity::%s_key" % which
        anchor = COMMENT + "CommentCapture::%s_anchor" % which
        if keyfn not in facts.bodies() or anchor not in facts.bodies():
            ctx.anchor_lost(rule, "%s / %s not found" % (keyfn, anchor))
            continue
        comps = _key_components(facts, keyfn)
        h = ctx.need_hir(rule, anchor)
        sel = [n["name"] for n in H.walk(h["body"]) if H.kind(n) == "MethodCall" and n["name"] in ("min_by_key", "max_by_key", "min_by", "max_by", "min", "max")]
        uses_key = any((c or "").endswith("%s_key" % which) for _, c in H.calls(h["body"]))
        sign = -1 if sel == ["min_by_key"] else +1 if sel == ["max_by_key"] else 0
        got = {n: sign * (-1 if r else +1) for n, r in (comps or [])}
        order = [n for n, _ in (comps or [])]
        ok = uses_key and sign != 0 and got == polar and order == list(polar)
        ctx.check(ok, rule, "%s:polarity" % which, "%s_anchor selects with %s over %s (effective preference %s); expected %s over the "
                  "components %s with preference %s: among entities with the same range the inner one would own the comment and the "
                  "printer, which asks only the outer one, never emits it" % (which, sel, comps, got, selector, list(polar), polar),
                  facts.bodies()[keyfn]["loc"], detail={"anchor": which, "selector": sel, "preference": got})
    fn = COMMENT + "SpannedEntity::nesting_rank"
    if fn in facts.bodies():
        t = _arm_table(ctx, rule, fn, lambda a, h: (H.peel(a["body"]).get("lit") or {}).get("int"))
        ctx.check(t == {"Def": "0", "Pat": "1", "CoPat": "2", "Term": "3"}, rule, "nesting-rank", "nesting_rank is %s" % t,
                  facts.bodies()[fn]["loc"], detail={"rank": t})


def rule_transparent_groups(ctx):
    rule = "transparent-groups"
    facts = ctx.facts
    ctx.rule(rule, "a helper that looks through a parenthesis group the printer elides (transparent_*_group) peels a layer only when that "
                   "layer has no leading comments; pun recognition is asked about the written payload or about such a helper's result: "
                   "the pun fast path prints the field name only, so a comment on a peeled layer would never be emitted; the printers of a "
                   "written `field = payload` (named_term, named_pattern, projection_pattern) ask about the helper's result, so that "
                   "eliding the parentheses and punning happen in one run")
    helpers = [p for p in facts.bodies() if re.search(r"PrettyFormatter::<'arena>::transparent_\w+_group$", p)]
    ctx.floor(rule, "transparent-group helpers", len(helpers), 1)
    for fn in sorted(helpers):
        h = ctx.need_hir(rule, fn)
        cs = [c.split("::")[-1] for _, c in H.calls(h["body"])]
        ok = "leading_comments" in cs and "is_empty" in cs
        ctx.check(ok, rule, "%s:comment-free" % fn.split("::")[-1], "%s peels a group without testing that it carries no leading comments (%s)"
                  % (fn.split("::")[-1], cs), facts.bodies()[fn]["loc"], detail={"helper": fn.split("::")[-1]})
    n = 0
    for p, bd in sorted(facts.bodies().items()):
        if not p.startswith(FORMATTER) or "{closure" in p:
            continue
        h = facts.hir(p)
        if h is None:
            continue
        env = A.ArmEnv(); env.strip = True; env.bind_params(h); env.absorb(h["body"])
        for node in H.walk(h["body"]):
            if H.kind(node) == "MethodCall" and node["name"] in ("term_payload", "pattern_payload", "term_payload_through", "pattern_payload_through"):
                n += 1
                arg = A.sexpr(node["args"][1], env)
                helper = re.match(r"^\(%stransparent_\w+_group \$P0 " % re.escape(FORMATTER), arg) is not None
                if node["name"].endswith("_through") and len(node["args"]) >= 3:
                    # the recogniser applies the passed function to the payload AND to an annotated variable (F66): it has to be
                    # the printer's own elision
                    thr = A.sexpr(node["args"][2], env)
                    helper = re.match(r"^\(closure \(%stransparent_\w+_group \$P0 \$c\d+\.0\)\)$" % re.escape(FORMATTER), thr) is not None
                    arg = thr
                # the printers of a written `field = payload` print the payload through the parenthesis-eliding printer: they
                # must pun against what that printer will show (F52: `(field = (field))` was punned only by the second run)
                strict = p.split("::")[-1] in ("named_term", "named_pattern", "projection_pattern", "manifest_parameter")
                if strict and not node["name"].endswith("_through"):
                    helper = False      # only the `_through` recogniser applies the elision to an annotated variable too (F66)
                ok = helper or (not strict and (re.match(r"^\$P\d+$", arg) is not None or re.search(r"/\w+\.\w+$|^\(\. ", arg) is not None))
                ctx.check(ok, rule, "%s:%s" % (p.split("::")[-1], node["name"]), "%s asks the pun recogniser about %s%s" % (p.split("::")[-1], arg[:100],
                          ": the written payload, not the payload seen through the singleton groups the printer elides; `(field = (field))` "
                          "prints as `(field = field)` and only the next run puns it" if strict else ""),
                          [bd["loc"][0], node.get("ln")], detail={"fn": p.split("::")[-1], "payload": arg[:60]})
    ctx.floor(rule, "pun recognition sites", n, 3)
    # the recogniser applies the passed elision to the payload and to the variable of an annotated payload
    for short in ("term_payload_through", "pattern_payload_through"):
        p = PRETTY + "punning::Punning::<'arena>::" + short
        h = facts.hir(p)
        if h is None:
            ctx.anchor_lost(rule, p + " not found")
            continue
        # calls of the function parameter (the last parameter, an `impl Fn(Id) -> Id`)
        applied = [c for c in H.walk(h["body"]) if H.kind(c) == "Call" and H.kind(c.get("f") or {}) == "Path"
                   and "impl Fn(" in ((c.get("f") or {}).get("ty") or "")]
        # one of them is applied to the variable bound by the `Ann { tm, .. }` pattern of the payload
        ann_locals = set()
        for m in H.walk(h["body"]):
            if H.kind(m) == "Match" and not m.get("src"):
                for a in m["arms"]:
                    if "Ann" in A.pat_shape(a["pat"]):
                        ann_locals |= {b["local"] for b in H.pat_bindings(a["pat"])}
        on_ann = [c for c in applied if any(H.kind(y) == "Path" and (y.get("res") or {}).get("local") in ann_locals for y in H.walk(c["args"][0]))]
        n_apply = len(applied)
        ctx.check(n_apply >= 2 and bool(on_ann), rule, "%s:annotated-variable" % short,
                  "%s applies the printer's elision %d time(s) and not to the variable of an annotated payload: `(field = ((field) : T))` "
                  "is punned only by the second run" % (short, n_apply), facts.bodies()[p]["loc"], detail={"applications": n_apply})
    # telescopes: the nested scope that may join the telescope is the body seen through the groups the printer elides
    for short in ("scoped_telescope", "existential_telescope"):
        p = FORMATTER + short
        h = ctx.need_hir(rule, p)
        if h is None:
            continue
        env = A.ArmEnv(); env.strip = True; env.bind_params(h); env.absorb(h["body"])
        asked = [A.sexpr(H.call_args(c)[2], env) for c in H.walk(h["body"]) if H.kind(c) in ("Call", "MethodCall")
                 and (H.callee(c) or "").endswith("::scope_boundary_allows_merging") and len(H.call_args(c)) >= 3]
        ok = bool(asked) and all(re.match(r"^\(%stransparent_term_group \$P0 " % re.escape(FORMATTER), a) for a in asked)
        ctx.check(ok, rule, "%s:nested-scope" % short, "%s decides whether a nested scope joins the telescope from %s, not from the body "
                  "seen through the singleton groups the printer elides: `fn (x : A) => (fn (y : B) => z)` prints as `fn (x : A) => fn "
                  "(y : B) => z` and only the next run merges the parameters" % (short, [a[:80] for a in asked]),
                  facts.bodies()[p]["loc"], detail={"asked about": [a[:80] for a in asked]})


# str / slice API on comment text, per function: capture (comment.rs) and emission (pretty.rs) must lose nothing but the marker,
# one separating space and the line terminator, and must agree on the line separator. key: function -> allowed calls
# "method(literal-or-kind)"; a call outside the set is reported by name.
TEXT_API = {
    FORMATTER + "block_comment": {"split(\\n)"},
    FORMATTER + "marked_comment_lines": {"split(\\n)", "is_empty()"},
    COMMENT + "CommentBlocks::<'source>::block_text": {"strip_suffix(\\n)", "strip_suffix(\\r)", "split(\\n)", "join(\\n)"},
    COMMENT + "CommentBlocks::<'source>::line_block": {"join(\\n)"},
    COMMENT + "CommentBlocks::<'source>::line_text": {"strip_suffix(\\n)", "strip_suffix(\\r)", "strip_prefix($marker)", "strip_prefix( )"},
    COMMENT + "CommentBlocks::<'source>::comment_token": {"get(..)", "starts_with(--)"},
    COMMENT + "CommentBlocks::<'source>::same_block": {"get(..)", "chars()"},
    COMMENT + "CommentBlocks::<'source>::indentation": {"len()", "trim_start_matches(is_horizontal_whitespace)"},
    COMMENT + "CommentBlocks::<'source>::opening_indentation": {"rfind(\\n)", "chars()"},
}


# every function that reads the text of a comment: the printers, and the consumer of an attached `--|` block
TEXT_READERS = {
    FORMATTER + "comment": "hands the text to marked_comment_lines",
    FORMATTER + "block_comment": "printer",
    "zydeco_session::source::program::TextualProgramBuilder::<'graph>::literal": "the text of an @[literal] block becomes a string literal, whole",
}


def _text_calls(h, env):
    out = []
    for c in H.walk(h["body"]):
        if H.kind(c) not in ("Call", "MethodCall"):
            continue
        cal = H.callee(c) or ""
        if not re.search(r"core::str::<impl str>::|alloc::str::.*::join$|slice::<impl \[.*::join$", cal):
            continue
        name = cal.split("::")[-1]
        args = [A.sexpr(a, env) for a in H.call_args(c)[1:]]
        if name == "get":
            arg = ".."
        elif not args:
            arg = ""
        elif re.match(r"^\$P\d+$", args[0]):
            arg = "$marker"
        elif "::" in args[0]:
            arg = args[0].split("::")[-1]
        else:
            arg = args[0].replace("\n", "\\n").replace("\r", "\\r")
        out.append(("%s(%s)" % (name, arg), c.get("ln")))
    return out


def rule_comment_text(ctx):
    rule = "comment-text"
    facts = ctx.facts
    ctx.rule(rule, "the text of a comment is captured and printed without loss: (a) the functions that cut comment text out of the source "
                   "(CommentBlocks::line_text / block_text / line_block) and the ones that print it (marked_comment_lines, block_comment) "
                   "use only the inventoried str operations: what capture removes is the marker, ONE separating space and the line "
                   "terminator; the lines are joined and split at the same separator with `split` (not `lines` / `split_terminator`, "
                   "which drop a final empty line, nor any `trim`); (b) the printer writes marker, a space and the line, or the bare "
                   "marker for an empty line (the inverse of capture); (c) two comment tokens form one block only when the gap between "
                   "them is horizontal whitespace (no line break: a blank line separates blocks, and a detached `--|` block is not "
                   "documentation of the annotation below); (d) every reader of a comment's text is one of the inventoried printers")
    for fn, allowed in sorted(TEXT_API.items()):
        h = ctx.need_hir(rule, fn)
        if h is None:
            continue
        ctx.fn(fn)
        env = A.ArmEnv(); env.strip = True; env.bind_params(h); env.absorb(h["body"])
        short = fn.split("::")[-1]
        calls = _text_calls(h, env)
        for call, ln in calls:
            ctx.check(call in allowed, rule, "%s:%s" % (short, call), "%s applies `%s` to comment text; the audited operations there are %s: "
                      "an operation that can drop or merge characters of a comment (lines, trim, split_terminator, a wider strip) loses "
                      "source text" % (short, call, sorted(allowed)), [facts.bodies()[fn]["loc"][0], ln], detail={"fn": short, "call": call})
    # (a') separator agreement
    seps = {}
    for fn in TEXT_API:
        h = facts.hir(fn)
        if h is None:
            continue
        env = A.ArmEnv(); env.strip = True; env.bind_params(h); env.absorb(h["body"])
        for call, _ in _text_calls(h, env):
            m = re.match(r"^(split|join)\((.*)\)$", call)
            if m:
                seps.setdefault(m.group(1), set()).add(m.group(2))
    ctx.check(seps.get("split") == {"\\n"} and seps.get("join") == {"\\n"}, rule, "separator-agreement",
              "capture joins comment lines with %s and the printers split at %s" % (sorted(seps.get("join", [])), sorted(seps.get("split", []))),
              detail=seps and {k: sorted(v) for k, v in seps.items()})
    # (b) the printer is the inverse of capture
    fn = FORMATTER + "marked_comment_lines"
    h = facts.hir(fn)
    if h is not None:
        env = A.ArmEnv(); env.strip = True; env.bind_params(h); env.absorb(h["body"])
        sx = A.sexpr(h["body"], env)
        each = r"\(each \(core::str::<impl str>::split \$P2 \n\)\)"
        T = r"pretty::RcDoc::<'a, A>::"
        want = (r"\(if \(core::str::<impl str>::is_empty %s\) \(%stext \$P1\) \(%sappend \(%sappend \(%stext \$P1\) \(%sspace \)\) \(%stext %s\)\)\)"
                % (each, T, T, T, T, T, T, each))
        ctx.check(re.search(want, sx) is not None and "hardline" in sx, rule, "marked_comment_lines:inverse-of-capture",
                  "marked_comment_lines does not print `marker` for an empty line and `marker SPACE line` otherwise, one line per "
                  "split item, separated by hard line breaks: %s" % sx[:300], facts.bodies()[fn]["loc"], detail={"body": sx[:400]})
    # (c) grouping
    fn = COMMENT + "CommentBlocks::<'source>::same_block"
    h = facts.hir(fn)
    if h is not None:
        env = A.ArmEnv(); env.strip = True; env.bind_params(h); env.absorb(h["body"])
        sx = A.sexpr(h["body"], env)
        ok = re.search(r"is_some_and \(core::str::<impl str>::get \(\. \$P0 source\) \(core::ops::range::Range start=\(\. \(\. \(\. \$P1 lexical\) range\) end\) "
                       r"end=\(\. \(\. \(\. \$P2 lexical\) range\) start\)\)\) \(closure \(core::iter::traits::iterator::Iterator::all "
                       r"\(core::str::<impl str>::chars \$c0\.0\) [\w:]*::is_horizontal_whitespace\)\)", sx) is not None
        ctx.check(ok, rule, "same_block:gap-horizontal", "CommentBlocks::same_block does not require every character of the source gap "
                  "between the two tokens to be horizontal whitespace: %s" % sx[:400], facts.bodies()[fn]["loc"], detail={"body": sx[:500]})
    fn = COMMENT + "LineSeparation::is_horizontal_whitespace"
    h = ctx.need_hir(rule, fn)
    if h is not None:
        chars = set()
        for m in H.walk(h["body"]):
            if H.kind(m) == "Match":
                for a in m["arms"]:
                    body = H.peel(a["body"])
                    if (body.get("lit") or {}).get("bool") in (True, "true"):
                        chars.add(A.pat_shape(a["pat"]))
        shape = " ".join(sorted(chars))
        ctx.check(shape != "" and "\\n" not in shape and "\n" not in shape and "\\r" not in shape and "\r" not in shape, rule,
                  "is_horizontal_whitespace:no-line-break", "LineSeparation::is_horizontal_whitespace accepts %r: a line break would merge "
                  "comment blocks separated by blank lines and count a line's terminator as indentation" % shape,
                  facts.bodies()[fn]["loc"], detail={"accepted": shape})
    # (d) readers of comment text
    n = 0
    for p, bd in sorted(facts.bodies().items()):
        if "{closure" in p or not p.startswith("zydeco_") or re.search(r" as core::(clone|cmp|fmt|hash)::", p):
            continue
        h = facts.hir(p)
        if h is None:
            continue
        for x in H.walk(h["body"]):
            if H.kind(x) == "Field" and x.get("name") == "text":
                b = x.get("e") or x.get("base") or {}
                ty = b.get("ty") if isinstance(b, dict) else ""
                if re.search(r"comment::(LineComment|TextBlock|BlockComment)\b", ty or ""):
                    n += 1
                    ctx.check(p in TEXT_READERS, rule, "reader:%s" % p.split("::")[-1],
                              "%s reads the text of a comment but is not one of the audited printers" % p, [bd["loc"][0], x.get("ln")],
                              detail={"reader": p.split("::")[-1]})
    ctx.floor(rule, "readers of comment text", n, 3)


def rule_comment_indentation(ctx):
    rule = "comment-indentation"
    facts = ctx.facts
    ctx.rule(rule, "capture and emission of a multi-line block comment agree on the base column of its continuation lines, and neither "
                   "depends on what precedes the comment on its line: capture (CommentBlocks::opening_indentation) measures them against "
                   "the column of the opener (the number of characters before it on its line, unconditionally); the printer "
                   "(block_comment) prints them nested by `column - nesting`, i.e. relative to the column where the opener lands. If "
                   "one side uses the opener's column only when the comment opens its line (or the printer simply adds the nesting), a "
                   "comment after code gains indentation on every run: its text changes and the output never becomes stable (F51; the "
                   "`column == nesting` test of the first repair mistook a comment after an arm's bar for one that opens its line)")
    fn = COMMENT + "CommentBlocks::<'source>::opening_indentation"
    h = ctx.need_hir(rule, fn)
    if h is not None:
        env = A.ArmEnv(); env.strip = True; env.bind_params(h); env.absorb(h["body"])
        sx = A.sexpr(h["body"], env)
        m = re.match(r"^\(<core::str::iter::Chars<'a> as core::iter::traits::iterator::Iterator>::count \(core::str::<impl str>::chars "
                     r"\(\[\] \(\. \$P0 source\) \(core::ops::range::Range start=\(core::option::Option::<T>::map_or \(core::str::<impl str>::rfind "
                     r"\(\[\] \(\. \$P0 source\) \(core::ops::range::RangeTo end=\$P1\)\) \n\) 0 \(closure \(Add \$c0\.0 1\)\)\) end=\$P1\)\)\)\)$", sx, re.S)
        ctx.check(m is not None, rule, "capture:opener-column", "opening_indentation is not the number of characters between the start of the "
                  "opener's line and the opener, unconditionally: %s" % sx[:300], facts.bodies()[fn]["loc"], detail={"body": sx[:300]})
    fn = FORMATTER + "block_comment"
    h = ctx.need_hir(rule, fn)
    if h is not None:
        env = A.ArmEnv(); env.strip = True; env.bind_params(h); env.absorb(h["body"])
        sx = A.sexpr(h["body"], env)
        T = r"pretty::RcDoc::<'a, A>::"
        m = re.match(r"^\(%scolumn \(closure \(%snesting \(closure \(%snest \(%sintersperse .+\) "
                     r"\(core::num::<impl isize>::(saturating_sub|wrapping_sub|checked_sub) [^$]*\$c0\.0[^$]*\$c1\.0[^$]*\)\)\)\)\)\)$" % (T, T, T, T), sx, re.S) \
            or re.match(r"^\(%scolumn \(closure \(%snesting \(closure \(%snest \(%sintersperse .+\) \(Sub [^$]*\$c0\.0[^$]*\$c1\.0[^$]*\)\)\)\)\)\)$"
                        % (T, T, T, T), sx, re.S)
        ctx.check(m is not None and " (if " not in sx, rule, "emission:relative-to-opener", "block_comment does not print the continuation lines "
                  "nested by (column - nesting), unconditionally: %s" % sx[:400], facts.bodies()[fn]["loc"], detail={"body": sx[:200]})


# the only functions of the printer that may look inside a recorded BreakIntent
INTENT_POLICY = {
    FORMATTER + "preserves_blank_line": "policy: Preserve / BlankLinesOnly keep a blank line",
    FORMATTER + "forces_break": "policy: what each LayoutIntentions value keeps",
    PRETTY + "BoundaryIntent::resolve": "narrows a boundary to its blank line (PreserveBlankLine); the result still goes through the policy",
}


def rule_intention_policy(ctx):
    rule = "intention-policy"
    facts = ctx.facts
    ctx.rule(rule, "in the printer only the policy functions (forces_break, preserves_blank_line) and BoundaryIntent::resolve look inside "
                   "a recorded BreakIntent (a pattern or comparison naming one of its variants, or requires_line_break); every layout "
                   "decision asks the policy. A decision taken on the raw intention is not subject to `layout(ignore)` / "
                   "`blank-lines-only`: the first run obeys the source layout, its output no longer has it, and the second run "
                   "decides differently (not idempotent)")
    n = 0
    seen_policy = set()
    for p, bd in sorted(facts.bodies().items()):
        if not p.startswith(PRETTY) or "::tests::" in p or "{closure" in p:
            continue
        h = facts.hir(p)
        if h is None:
            continue
        n += 1
        hits = []
        for x in H.walk(h["body"]):
            k = H.kind(x)
            if k == "Match":
                for a in x["arms"]:
                    if any("BreakIntent::" in v for v in H.pat_variants(a["pat"])):
                        hits.append((x.get("ln"), "pattern " + A.pat_shape(a["pat"])[:40]))
            elif k == "Path" and "BreakIntent::" in str((x.get("res") or {}).get("def") or "") and (x.get("res") or {}).get("dk") == "CtorVariant":
                hits.append((x.get("ln"), "names " + str((x.get("res") or {}).get("def")).split("::")[-1]))
            elif k in ("Call", "MethodCall") and (H.callee(x) or "").endswith("BreakIntent::requires_line_break"):
                hits.append((x.get("ln"), "requires_line_break"))
        if not hits:
            continue
        if p in INTENT_POLICY:
            seen_policy.add(p)
            ctx.ok(rule, "policy:%s" % p.split("::")[-1], {"inspects": sorted({w for _, w in hits})[:4]})
            continue
        ctx.violation(rule, "%s:inspects-raw-intention" % p.split("::")[-1], "%s looks inside a recorded BreakIntent (%s) instead of asking "
                      "forces_break / preserves_blank_line: under `layout(ignore)` the source layout still steers the first run, and the "
                      "second run, whose input no longer has it, prints something else" % (p.split("::")[-1], sorted({w for _, w in hits})[:3]),
                      [bd["loc"][0], hits[0][0]])
    ctx.floor(rule, "printer functions inspected", n, 150)
    ctx.check(len(seen_policy) >= 2, rule, "policy-functions", "the policy functions no longer inspect BreakIntent (%s): the rule has lost its anchor"
              % sorted(x.split("::")[-1] for x in seen_policy))


def rule_binder_requirements(ctx):
    rule = "binder-requirements"
    facts = ctx.facts
    ctx.rule(rule, "the printer renders the binder of `do`, `fix` and `param` at the pattern level the grammar reads there: a production "
                   "with `<binder:PatId>` (plain pattern) is printed with `pattern`, one with `<binder:PatternAnnId>` with "
                   "`annotated_pattern` (read from parser.lalrpop on every run; a helper that receives the binder is followed one "
                   "level). Printing `do (x : T) <- m;` through the annotated printer drops the parentheses the plain-pattern "
                   "position needs: the output no longer parses")
    text = G.read()
    body = G.block(text, "Term")
    if body is None:
        ctx.anchor_lost(rule, "nonterminal Term not found in parser.lalrpop")
        return
    pv = payload_variant_map(facts, "zydeco_surface::textual::syntax::Term")
    want = {}
    for lvl, assoc, sym, act in G.alternatives(body):
        m = re.search(r"<binder:(\w+)>", sym)
        if not m:
            continue
        v = pv.get(G.constructor_of(sym, act))
        if v:
            want[v] = {"PatId": "pattern", "PatternAnnId": "annotated_pattern"}.get(m.group(1), m.group(1))
    ctx.floor(rule, "term productions with a binder", len(want), 3)
    fn = FORMATTER + "term_with_requirement"
    h = ctx.need_hir(rule, fn)
    if h is None:
        return
    loc = facts.bodies()[fn]["loc"]
    top = next((m for m in H.walk(h["body"]) if H.kind(m) == "Match" and not m.get("src")
                and any(pv_ in A.pat_shape(a["pat"]) for a in m["arms"] for pv_ in want)), None)
    if top is None:
        ctx.anchor_lost(rule, "no match over Term in term_with_requirement")
        return

    def printers_of(hh, body, env, is_binder):
        """names of the pattern printers applied to the binder inside `body`, following one helper level"""
        out = set()
        for c in H.walk(body):
            if H.kind(c) not in ("Call", "MethodCall"):
                continue
            cal = H.callee(c) or ""
            args = H.call_args(c)
            idx = [i for i, a_ in enumerate(args) if is_binder(A.sexpr(a_, env))]
            if not idx:
                continue
            name = cal.split("::")[-1]
            if cal.startswith(FORMATTER) and name in ("pattern", "annotated_pattern", "pattern_with_requirement"):
                out.add(name)
            elif cal.startswith(FORMATTER) and cal in facts.bodies() and hh is not None:
                h2 = facts.hir(cal)
                if h2 is not None:
                    e2 = A.ArmEnv(); e2.strip = True; e2.bind_params(h2); e2.absorb(h2["body"])
                    out |= printers_of(None, h2["body"], e2, lambda s, i=idx[0]: s == "$P%d" % i)
        return out
    for a in top["arms"]:
        shape = A.pat_shape(a["pat"])
        v = next((k for k in want if shape.startswith(k + "(") or shape.startswith(k + "{")), None)
        if v is None:
            continue
        env = A.ArmEnv(); env.strip = True; env.bind_params(h); env.bind_pat(A.strip_or(a["pat"])); env.absorb(a["body"])
        got = printers_of(h, a["body"], env, lambda s: re.search(r"[./]binder\)?$", s) is not None or re.search(r"/Fix\.0\)?$", s) is not None)
        ctx.check(got == {want[v]}, rule, "term:%s:binder" % v, "the printer renders the binder of `%s` with %s, the grammar reads `%s` there "
                  "(parser.lalrpop): the printed form does not re-parse, or keeps parentheses the position does not need"
                  % (v, sorted(got) or "(no pattern printer found)", want[v]), [loc[0], a["ln"]], detail={"former": v, "printer": sorted(got), "grammar": want[v]})


def rule_text_block_line_start(ctx):
    rule = "text-block-line-start"
    facts = ctx.facts
    ctx.rule(rule, "a `--|` text block always starts a line of its own (with_comments puts `ensure_line_start` in front of it). What stands "
                   "in front of one therefore ends its line in the printer's own decision, not by the forced break: (a) "
                   "retained_placement answers Broken for a boundary whose following entity starts with a text block, whatever the "
                   "source shows; (b) a comment in front of a text block is separated by a line break, not by the same-line separator. "
                   "Otherwise the first run leaves a separator before the forced break (a trailing blank, wrong indentation) and the "
                   "second run, which reads a broken boundary, prints something else")
    fn = FORMATTER + "retained_placement"
    h = ctx.need_hir(rule, fn)
    if h is not None:
        ok = False
        for x in H.walk(h["body"]):
            if H.kind(x) != "If":
                continue
            env = A.ArmEnv(); env.strip = True; env.bind_params(h); env.absorb(h["body"])
            cond = A.sexpr(x.get("c") or {}, env)
            broken = any(H.kind(y) == "Path" and str((y.get("res") or {}).get("def") or "").endswith("BoundaryPlacement::Broken") for y in H.walk(x.get("t") or {}))
            if broken and "as_text" in cond and "following" in cond and "leading_comments" in cond:
                ok = True
        ctx.check(ok, rule, "retained_placement:broken-before-text-block", "retained_placement does not answer Broken when the entity after the "
                  "boundary starts with a text block (leading_comments(following).first().as_text())", facts.bodies()[fn]["loc"])
    fn = FORMATTER + "with_comments"
    h = ctx.need_hir(rule, fn)
    if h is not None:
        texts = [x for x in H.walk(h["body"]) if H.kind(x) == "MethodCall" and x["name"] == "as_text"]
        nextline = any(H.kind(y) == "Path" and str((y.get("res") or {}).get("def") or "").endswith("LineSeparation::NextLine") for y in H.walk(h["body"]))
        looks_ahead = any(H.kind(x) == "MethodCall" and x["name"] == "get" and any(H.kind(y) == "Binary" and y.get("op") == "Add" for y in H.walk(x["args"][0]))
                          for x in H.walk(h["body"]))
        ctx.check(len(texts) >= 2 and nextline and looks_ahead, rule, "with_comments:comment-before-text-block", "with_comments does not turn the "
                  "same-line separation after a comment into a line break when the NEXT comment is a text block (as_text calls: %d, "
                  "NextLine: %s, look-ahead: %s)" % (len(texts), nextline, looks_ahead), facts.bodies()[fn]["loc"])


def rule_block_construct_comments(ctx):
    rule = "block-construct-comments"
    facts = ctx.facts
    ctx.rule(rule, "a block construct is printed through `block_like`, which fails unless the construct starts its line. The comment "
                   "emitter therefore ends the line after a comment written in front of such a construct (with_leading_comments asks "
                   "starts_own_line), and starts_own_line names EXACTLY the term formers whose printer arm calls block_like: a former "
                   "missing from it makes `/- c -/ <construct>` unformattable (`no layout keeps its block constructs at the start of a "
                   "line`), an extra one breaks lines that could stay joined")
    fn = FORMATTER + "term_with_requirement"
    h = ctx.need_hir(rule, fn)
    if h is None:
        return
    top = None
    for m in H.walk(h["body"]):
        if H.kind(m) == "Match" and not m.get("src") and sum(1 for a in m["arms"] if A.pat_shape(a["pat"])[:1].isupper()) >= 20:
            top = m
    if top is None:
        ctx.anchor_lost(rule, "no match over Term in term_with_requirement")
        return
    uses = set()
    for a in top["arms"]:
        if any(H.kind(c) in ("Call", "MethodCall") and (H.callee(c) or "").endswith("::block_like") for c in H.walk(a["body"])):
            for v in H.pat_variants(a["pat"]):
                if "::Term::" in v:
                    uses.add(v.split("::")[-1])
    fn2 = FORMATTER + "starts_own_line"
    h2 = facts.hir(fn2)
    if h2 is None:
        ctx.violation(rule, "starts_own_line:missing", "the printer has no starts_own_line: a comment in front of a block construct on its "
                      "line leaves no layout (`/- c -/ let x = 1 in x` cannot be formatted)", facts.bodies()[fn]["loc"])
        return
    named = set()
    for m in H.walk(h2["body"]):
        if H.kind(m) == "Match":
            for a in m["arms"]:
                body = H.peel(a["body"])
                if (body.get("lit") or {}).get("bool") in (True, "true"):
                    named |= {v.split("::")[-1] for v in H.pat_variants(a["pat"]) if "::Term::" in v}
    ctx.check(bool(uses) and named == uses, rule, "starts_own_line:agrees-with-block_like", "starts_own_line names %s, the printer arms that "
              "call block_like are %s" % (sorted(named), sorted(uses)), facts.bodies()[fn2]["loc"], detail={"formers": sorted(uses)})
    h3 = ctx.need_hir(rule, FORMATTER + "with_leading_comments")
    if h3 is not None:
        asks = any(H.kind(c) in ("Call", "MethodCall") and (H.callee(c) or "").endswith("::starts_own_line") for c in H.walk(h3["body"]))
        breaks = any(H.kind(c) in ("Call", "MethodCall") and (H.callee(c) or "").endswith("::hardline") for c in H.walk(h3["body"]))
        ctx.check(asks and breaks, rule, "with_leading_comments:ends-the-line", "with_leading_comments does not end the line after a same-line "
                  "comment in front of a construct that starts its own line (asks: %s, hardline: %s)" % (asks, breaks),
                  facts.bodies()[FORMATTER + "with_leading_comments"]["loc"])
