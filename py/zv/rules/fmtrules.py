"""Rules shared by the formatter properties C12 / C13 / C14."""
import re

from .. import armlib as A
from .. import callgraph
from .. import grammar as G
from .. import hirlib as H
from .. import mirlib as M

PRETTY = "zydeco_surface::textual::pretty::"
FORMATTER = PRETTY + "PrettyFormatter::<'arena>::"
CTX = PRETTY + "context::"
CLI = "zydeco_cli::format::SourceFormatter::"
CAJUN = "cajun::format::DocumentFormatter::format"
PREC = ["Atom", "Projection", "Application", "Product", "Arrow", "Quantifier", "Binder"]


def _v(p):
    return (H.top_variant(A.strip_or(p)) or "_").split("::")[-1]


def _arm_table(ctx, rule, fn, value):
    """variant -> value(arm) for the (first) match of fn; or-patterns expanded; first arm wins"""
    h = ctx.need_hir(rule, fn)
    m = A.find_match_on(h["body"], lambda n: True)
    out = {}
    for a in m["arms"]:
        p = A.strip_or(a["pat"])
        pats = p["pats"] if H.kind(p) == "Or" else [p]
        val = value(a, h)
        for q in pats:
            out.setdefault(_v(q), val)
    return out


def _path_tail(n):
    n = H.peel(n)
    if H.kind(n) == "Path":
        return (n.get("res", {}).get("def") or "").split("::")[-1]
    if H.kind(n) == "Call":
        inner = [_path_tail(a) for a in n["args"]]
        return "%s(%s)" % ((H.callee(n) or "").split("::")[-1], ",".join(inner))
    if H.kind(n) == "MethodCall":
        return "call:" + n["name"]
    return H.kind(n)


def payload_variant_map(facts, adt):
    """last segment of each variant's payload type -> variant name"""
    out = {}
    for v in facts.adts()[adt]["variants"]:
        if v["fields"]:
            t = v["fields"][0]["ty"]
            out[re.sub(r"<.*$", "", t).split("::")[-1]] = v["name"]
    return out


def rule_grammar_classes(ctx):
    rule = "grammar-classes"
    facts = ctx.facts
    ctx.rule(rule, "the formatter's class of every term former equals the loosest precedence level at which parser.lalrpop produces "
                   "it (levels 0..6 = Atom..Binder); formers outside the `Term` block keep their audited class; pattern formers of "
                   "the `Pattern` block are Pattern, those only in `PatternAnn` are AnnotatedOnly; infix operand and scoped-body "
                   "precedences follow level and associativity; TermRequirement::accepts is the audited order test")
    text = G.read()
    body = G.block(text, "Term")
    if body is None:
        ctx.anchor_lost(rule, "nonterminal Term not found in parser.lalrpop")
        return
    pv = payload_variant_map(facts, "zydeco_surface::textual::syntax::Term")
    levels = {}
    info = {}
    for lvl, assoc, sym, act in G.alternatives(body):
        c = G.constructor_of(sym, act)
        v = pv.get(c)
        if v is None or lvl is None:
            ctx.anchor_lost(rule, "grammar alternative `%s` (constructor %s) maps to no Term variant" % (sym[:40], c))
            continue
        levels[v] = max(levels.get(v, -1), lvl)
        info.setdefault(v, []).append((lvl, assoc))
    ctx.floor(rule, "term formers produced by the Term nonterminal", len(levels), 24)

    def klass(a, h):
        return _path_tail(a["body"])
    table = _arm_table(ctx, rule, CTX + "GrammarContext::<'arena>::term_class", klass)
    loc = facts.bodies()[CTX + "GrammarContext::<'arena>::term_class"]["loc"]
    AUDITED = {
        "Ann": ("Term(Atom)", "rendered with its own parentheses"),
        "Named": ("AnnotatedOnly", "produced by TermAnn level 2 only"),
        "Label": ("AnnotatedOnly", "produced by TermAnn level 2 only"),
        "SourceBoundary": ("call:term_class", "transparent: class of the wrapped term"),
        "SignatureBoundary": ("call:term_class", "transparent: class of the wrapped term"),
        "Let": ("Term(Binder)", "no grammar production (legacy former); loosest class is always safe"),
    }
    variants = [v["name"] for v in facts.adts()["zydeco_surface::textual::syntax::Term"]["variants"]]
    for v in variants:
        got = table.get(v, table.get("_"))
        if v in levels:
            want = "Term(%s)" % PREC[levels[v]]
            ctx.check(got == want, rule, "term:%s" % v, "term_class(%s) is %s but the grammar produces it at level %d (%s): a required "
                      "parenthesis is dropped or a redundant one kept" % (v, got, levels[v], PREC[levels[v]]), loc,
                      detail={"former": v, "grammar_level": levels[v], "class": got})
        else:
            want = AUDITED.get(v)
            ctx.check(want is not None and got == want[0], rule, "term:%s" % v, "term_class(%s) is %s; audited: %s" % (v, got, want), loc,
                      detail={"former": v, "class": got, "audited": want[1] if want else None})
    ctx.check("_" not in table, rule, "term:no-default", "term_class has a default arm: a new former would get a class by accident", loc,
              detail={"default_arm": "_" in table})
    # patterns
    pvp = payload_variant_map(facts, "zydeco_surface::textual::syntax::Pattern")
    pvp.setdefault("DefId", "Var")
    pvp.setdefault("ManifestPattern", "Manifest")
    pvp.setdefault("ProjectionPattern", "Project")
    in_pat = set()
    for lvl, assoc, sym, act in G.alternatives(G.block(text, "Pattern") or ""):
        c = G.constructor_of(sym, act)
        if c in pvp:
            in_pat.add(pvp[c])
    ptable = _arm_table(ctx, rule, CTX + "GrammarContext::<'arena>::pattern_class", klass)
    ploc = facts.bodies()[CTX + "GrammarContext::<'arena>::pattern_class"]["loc"]
    PAUD = {"Ann": "Pattern", "Named": "AnnotatedOnly", "Project": "AnnotatedOnly"}
    for v in [x["name"] for x in facts.adts()["zydeco_surface::textual::syntax::Pattern"]["variants"]]:
        got = ptable.get(v, ptable.get("_"))
        want = "Pattern" if v in in_pat else PAUD.get(v)
        ctx.check(got == want, rule, "pattern:%s" % v, "pattern_class(%s) is %s, expected %s (produced by the Pattern nonterminal: %s)"
                  % (v, got, want, v in in_pat), ploc, detail={"former": v, "class": got})
    ctx.floor(rule, "pattern formers produced by the Pattern nonterminal", len(in_pat), 5)
    # infix operators and scoped forms
    ops = {"Product": "Prod", "Arrow": "Arrow"}
    left = _arm_table(ctx, rule, PRETTY + "InfixOperator::left_precedence", klass)
    right = _arm_table(ctx, rule, PRETTY + "InfixOperator::right_precedence", klass)
    for op, former in ops.items():
        lv = levels.get(former)
        assoc = (info.get(former) or [(None, None)])[0][1]
        if lv is None:
            continue
        wl, wr = (PREC[lv - 1], PREC[lv]) if assoc == "right" else (PREC[lv], PREC[lv - 1]) if assoc == "left" else (PREC[lv - 1], PREC[lv - 1])
        ctx.check(left.get(op) == wl and right.get(op) == wr, rule, "infix:%s" % op, "operands of %s are printed through (%s, %s); the grammar "
                  "(level %d, assoc %s) accepts (%s, %s)" % (op, left.get(op), right.get(op), lv, assoc, wl, wr),
                  facts.bodies()[PRETTY + "InfixOperator::left_precedence"]["loc"], detail={"operator": op, "left": wl, "right": wr})
    bodyp = _arm_table(ctx, rule, PRETTY + "ScopedForm::body_precedence", klass)
    for form, former in (("Function", "Abs"), ("Pi", "Pi"), ("Forall", "Forall"), ("Sigma", "Sigma")):
        lv = levels.get(former)
        ctx.check(lv is not None and bodyp.get(form) == PREC[lv], rule, "scoped-body:%s" % form, "the body of %s is printed through %s; its "
                  "production is at level %s" % (form, bodyp.get(form), lv), facts.bodies()[PRETTY + "ScopedForm::body_precedence"]["loc"],
                  detail={"form": form, "body": bodyp.get(form)})
    # accepts
    fn = CTX + "TermRequirement::accepts"
    h = ctx.need_hir(rule, fn)
    m = A.find_match_on(h["body"], lambda n: True)
    acc = []
    for a in m["arms"]:
        e = A.ArmEnv(); e.strip = True; e.bind_params(h); e.bind_pat(A.strip_or(a["pat"]))
        acc.append((A.pat_shape(a["pat"]), A.sexpr(a["body"], e)))
    want = [("(Annotated,_)", "True"), ("(Any,Term(_))", "True"), ("(Through(_),Term(_))", "(Le $T1/Term.0 $T0/Through.0)"), ("(_,AnnotatedOnly)", "False")]
    ctx.check(acc == want, rule, "accepts", "TermRequirement::accepts is %s, expected %s" % (acc, want), facts.bodies()[fn]["loc"],
              detail={"table": acc})
    prec = [v["name"] for v in facts.adts()[CTX + "TermPrecedence"]["variants"]]
    ctx.check(prec == PREC, rule, "precedence-order", "TermPrecedence declares %s; the derived order must be %s" % (prec, PREC), None,
              detail={"order": prec})


def rule_write_after_render(ctx):
    rule = "write-after-render"
    facts = ctx.facts
    ctx.rule(rule, "in zydeco_cli::format the file is written only by format_path, on the Ok edge of rendering, with the rendered text, "
                   "and only when it differs from the source; check_path writes nothing")
    writers = sorted(set(c["from"].split("::{closure")[0] for c in facts.calls() if c["to"].startswith("std::fs::write")
                         and c["from"].startswith("zydeco_cli::format")))
    ctx.check(writers == [CLI + "format_path"], rule, "writers", "std::fs::write is called from %s" % writers, None, detail={"writers": writers})
    fn = CLI + "format_path"
    b = ctx.need_mir(rule, fn)
    loc = facts.bodies()[fn]["loc"]
    renders = [bb for bb, t in b.calls() if t["fn"].endswith("SourceFormatter::render_source") or t["fn"].endswith("SourceFormatter::render")]
    writes = [bb for bb, t in b.calls() if t["fn"].startswith("std::fs::write")]
    ok = bool(renders) and bool(writes)
    for w in writes:
        dom = False
        for r in renders:
            sb = b.success_blocks(r)
            if sb is not None and b.dominates(sb[0], w):
                dom = True
        ok = ok and dom
    ctx.check(ok, rule, "format_path:ok-edge", "format_path writes the file on a path that is not the success edge of rendering: a source "
              "that does not parse would be overwritten", loc, detail={"dominated_by": "Ok edge of render_source"})
    h = ctx.need_hir(rule, fn)
    env = A.ArmEnv(); env.strip = True; env.bind_params(h); env.absorb(h["body"])
    w = next((n for n, c in H.calls(h["body"]) if c.startswith("std::fs::write")), None)
    if w is not None:
        arg = A.sexpr(H.call_args(w)[1], env)
        ctx.check(re.search(r"SourceFormatter::render_source \$P0 \$P1\)\)/T1$", arg) is not None, rule, "format_path:content",
                  "format_path writes %s, not the rendered text" % arg[:120], loc, detail={"writes": "the second component of render_source"})
    # the unchanged test: both entry points compare the same pair
    for f in ("format_path", "check_path"):
        hh = ctx.need_hir(rule, CLI + f)
        e2 = A.ArmEnv(); e2.strip = True; e2.bind_params(hh); e2.absorb(hh["body"])
        conds = [A.sexpr(n["c"], e2) for n in H.walk(hh["body"]) if H.kind(n) == "If"]
        ok = len(conds) == 1 and re.match(r"^\(.*PartialEq.*::eq \(\? \(zydeco_cli::format::SourceFormatter::render_source \$P0 \$P1\)\)/T1 "
                                          r"\(\? \(zydeco_cli::format::SourceFormatter::render_source \$P0 \$P1\)\)/T0\)$|^\(Eq .*render_source \$P0 \$P1\)\)/T1 .*render_source \$P0 \$P1\)\)/T0\)$", conds[0] or "") is not None
        ctx.check(ok, rule, "%s:unchanged-test" % f, "%s decides `unchanged` with %s; expected formatted == source of one render_source(path)"
                  % (f, conds), facts.bodies()[CLI + f]["loc"], detail={"fn": f, "test": "formatted == source"})


def rule_render_fallible(ctx):
    rule = "render-fallible"
    facts = ctx.facts
    ctx.rule(rule, "a render failure (no layout satisfies a line-start guard: RcDoc::fail) is a value, not a panic, on the tool paths: "
                   "no function reachable from SourceFormatter::{format_path, check_path} or cajun's DocumentFormatter::format unwraps "
                   "the result of RcDoc::render_fmt")
    from . import c10
    unwrappers = set()
    n = 0
    for tag in facts.tags():
        idx = facts.index(tag)
        users = sorted(set(c["from"] for c in idx["calls"] if c["to"].endswith("::render_fmt") or c["to"].endswith("::render")))
        for o in users:
            m = facts.mir(o)
            if m is None:
                continue
            b = M.Body(o, m)
            n += 1
            for bb, t in b.calls():
                if not c10.UNWRAP.search(t["fn"]):
                    continue
                a = M.op_place(t["args"][0])
                if a is None:
                    continue
                if any(s["fn"].endswith("::render_fmt") for s in c10._trace_sources_through(b, M.place_local(a))):
                    unwrappers.add(o.split("::{closure")[0])
    # unwraps of functions that return the render result unchanged (try_render_*): their unwrapping callers panic too
    fallible = [p for p in facts.bodies() if re.search(r"PrettyFormatter::<'arena>::try_render_\w+$", p)]
    for p in facts.bodies():
        m = facts.mir(p)
        if m is None or not p.startswith(PRETTY):
            continue
        b = M.Body(p, m)
        for bb, t in b.calls():
            if c10.UNWRAP.search(t["fn"]):
                a = M.op_place(t["args"][0])
                if a is not None and any(s["fn"] in fallible for s in c10._trace_sources_through(b, M.place_local(a))):
                    unwrappers.add(p.split("::{closure")[0])
    ctx.note("%s: functions that panic on a render failure: %s" % (rule, sorted(x.split("::")[-1] for x in unwrappers)))
    g = callgraph.CallGraph(facts)
    roots = [r for r in (CLI + "format_path", CLI + "check_path", CAJUN) if r in facts.bodies()]
    ctx.floor(rule, "formatter entry points of the tools", len(roots), 3)
    hits = g.reach(roots, lambda to, c: to if to in unwrappers else None)
    for root, path, c, lab in hits:
        ctx.violation(rule, "%s:%s" % (root.split("::")[-1], c["to"].split("::")[-1]),
                      "%s reaches %s, which unwraps a render result: a source with no admissible layout panics the tool (%s)"
                      % (root, c["to"], " -> ".join(p.split("::")[-1] for p in path[-4:])), c["loc"])
    for r in roots:
        if not any(h[0] == r for h in hits):
            ctx.ok(rule, r.split("::")[-2] + "::" + r.split("::")[-1], {"entry": r, "reaches_panicking_renderer": False})


def rule_literal_escapes(ctx):
    rule = "literal-escapes"
    facts = ctx.facts
    ctx.rule(rule, "the string-literal writer (escape::quote_string) and reader (escape::apply_string_escapes) are inverse: every escape "
                   "the writer emits is decoded to the character it stands for, the writer escapes the backslash and the delimiter, and "
                   "the literal printer does not use {:?} on text")
    W = "zydeco_surface::textual::escape::quote_string"
    R = "zydeco_surface::textual::escape::apply_string_escapes"
    if W not in facts.bodies():
        ctx.violation(rule, "writer", "escape::quote_string does not exist: string literals are printed by some other escaper whose "
                                      "table is not checked against apply_string_escapes", None)
        return
    hw = ctx.need_hir(rule, W)
    mw = next((m for m in H.walk(hw["body"]) if H.kind(m) == "Match" and not m.get("src")), None)
    writer = {}
    for a in mw["arms"]:
        p = A.strip_or(a["pat"])
        if H.kind(p) == "Lit" or (H.kind(p) == "Expr"):
            ch = _lit(p)
            s = next((_lit(x) for x in H.walk(a["body"]) if H.kind(x) == "Lit" and "str" in (x.get("lit") or {})), None)
            writer[ch] = s
    hr = ctx.need_hir(rule, R)
    mr = None
    for m in H.walk(hr["body"]):
        if H.kind(m) == "Match" and not m.get("src") and len(m["arms"]) >= 4:
            mr = m
    reader = {}
    default_identity = False
    for a in (mr["arms"] if mr else []):
        p = A.strip_or(a["pat"])
        pats = p["pats"] if H.kind(p) == "Or" else [p]
        body = H.peel(a["body"])
        for q in pats:
            if H.kind(q) in ("Lit", "Expr"):
                reader[_lit(q)] = _lit(body) if H.kind(body) == "Lit" else "identity" if H.path_local(body) else "?"
            elif H.pat_is_catch_all(q):
                default_identity = H.path_local(body) is not None
    ok = True
    msgs = []
    for ch, esc in writer.items():
        if not (isinstance(esc, str) and len(esc) == 2 and esc[0] == "\\"):
            ok = False
            msgs.append("%r is written as %r" % (ch, esc))
            continue
        dec = reader.get(esc[1], "identity" if default_identity else None)
        dec = esc[1] if dec == "identity" else dec
        if dec != ch:
            ok = False
            msgs.append("%r is written as %r, which is read back as %r" % (ch, esc, dec))
    for must in ("\\", '"'):
        if must not in writer:
            ok = False
            msgs.append("%r is not escaped by the writer" % must)
    ctx.check(ok and len(writer) >= 2, rule, "string:inverse", "quote_string and apply_string_escapes disagree: %s" % "; ".join(msgs),
              facts.bodies()[W]["loc"], detail={"writer": {k: v for k, v in writer.items()}, "reader": reader})
    # the printer
    fn = FORMATTER + "literal"
    h = ctx.need_hir(rule, fn)
    arms = {}
    m = A.find_match_on(h["body"], lambda n: True)
    for a in m["arms"]:
        cs = [c for _, c in H.calls(a["body"])]
        arms[_v(a["pat"])] = "quote_string" if W in cs else "debug" if any("new_debug" in c for c in cs) else "display" if any("new_display" in c for c in cs) else "?"
    ctx.check(arms.get("String") == "quote_string", rule, "printer:String", "string literals are printed with %s, not with the inverse of the "
              "parser's escape decoder" % arms.get("String"), facts.bodies()[fn]["loc"], detail={"printers": arms})
    ctx.check(arms.get("Char") == "debug", rule, "printer:Char", "char literals are printed with %s (audited: Debug; the CharLit language "
              "is printable ASCII plus \\n \\r \\t, on which char's Debug emits exactly the escapes apply_char_escapes decodes)" % arms.get("Char"),
              facts.bodies()[fn]["loc"], detail={"printer": arms.get("Char")})


def _lit(n):
    n = H.peel(n) if H.kind(n) not in ("Lit",) else n
    if H.kind(n) == "Expr":
        n = n.get("e") or n
    d = n.get("lit") if isinstance(n, dict) else None
    if not d:
        return None
    return list(d.values())[0]
