"""C13 — formatting never loses source text (capture/emission agreement, comment emitters, verbatim copy, identifier gaps)."""
from . import fmtrules as R

EXPLANATION = (
    "That every comment and token of every source survives formatting quantifies over sources and is NOT decided. Decided "
    "necessary conditions: (1) for the four arm kinds the printer anchors an arm where the parser's arm_prefix action "
    "(read from parser.lalrpop on every run) files the comments written before it, and arm_block emits them; (2) every "
    "entity printer emits the leading comments of its own entity on every exit, the render roots emit trailing comments, "
    "each comment table has exactly one emitter, which folds over the whole list, and the text of a comment is cut and printed "
    "with inventoried str operations that are inverse to each other; (3) verbatim regions are copied as two "
    "adjacent slices of the source, the annotation ends at its first `]`, and directive-scoped formatters and all tool "
    "entry points keep the source text; (4) a constructor name is separated from an argument that carries comments."
)


def run(ctx):
    R.rule_arm_printers(ctx, want_anchor=True, want_boundary=False)
    R.rule_comment_wrappers(ctx)
    R.rule_verbatim(ctx)
    R.rule_tool_formatter(ctx)
    R.rule_write_after_render(ctx)
    R.rule_ctor_gap(ctx)
    R.rule_capture_anchors(ctx)
    R.rule_transparent_groups(ctx)
    R.rule_comment_text(ctx)
    R.rule_comment_indentation(ctx)
    ctx.assume("of the comment capture the anchor selection among candidate entities (capture-anchors), the grouping of comment tokens and "
               "the text kept per comment (comment-text) are analysed; exclusion ranges and trailing/leading classification are NOT; text "
               "the lexer never hands to the parser is C11")
    return {}
