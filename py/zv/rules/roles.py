"""Host-role tables (shared by C06, C01, C18/C19): enumerate roles and evaluate the role tables symbolically."""
from .. import armlib as A
from .. import hirlib as H
from .. import symeval as S

ROLE = "zydeco_syntax::BuiltinValueRole"
FOR_ROLE = "zydeco_statics::builtin::BuiltinOperationAbi::for_role"
ARITY = ROLE + "::arity"
HOST_NAME = ROLE + "::host_name"
SOURCE_NAME = ROLE + "::source_name"
FROM_SOURCE = ROLE + "::from_source_name"
INVOKE = "zydeco_dynamics::builtin::BuiltinRuntime::invoke"
STACKIR = "zydeco_stackir::builtin::Builtin::for_known_role"


class Roles:
    def __init__(self, ctx, rule):
        self.ctx = ctx
        self.facts = ctx.facts
        self.ev = S.Evaluator(ctx.facts)
        adt = self.facts.adts().get(ROLE)
        if adt is None:
            ctx.anchor_lost(rule, "BuiltinValueRole not found")
            raise KeyError(ROLE)
        self.adt = adt
        self.non_numeric = [v["name"] for v in adt["variants"] if not v["fields"]]
        self.int_types = [v["name"] for v in self.facts.adts()["zydeco_syntax::IntegerType"]["variants"]]
        self.float_types = [v["name"] for v in self.facts.adts()["zydeco_syntax::FloatType"]["variants"]]
        self.int_ops = [v["name"] for v in self.facts.adts()["zydeco_syntax::IntegerOperation"]["variants"]]
        self.float_ops = [v["name"] for v in self.facts.adts()["zydeco_syntax::FloatOperation"]["variants"]]

    def all_roles(self):
        """(display name, symbolic role value)"""
        out = []
        for t in self.int_types:
            for o in self.int_ops:
                out.append(("Integer(%s,%s)" % (t, o), S.ctor(ROLE + "::Integer", [S.ctor("zydeco_syntax::IntegerType::" + t),
                                                                                  S.ctor("zydeco_syntax::IntegerOperation::" + o)])))
        for t in self.float_types:
            for o in self.float_ops:
                out.append(("Float(%s,%s)" % (t, o), S.ctor(ROLE + "::Float", [S.ctor("zydeco_syntax::FloatType::" + t),
                                                                              S.ctor("zydeco_syntax::FloatOperation::" + o)])))
        for n in self.non_numeric:
            out.append((n, S.ctor(ROLE + "::" + n)))
        return out

    def call(self, fn, role):
        return self.ev.call_fn(fn, [role])

    def classifier(self, role):
        """-> (params, result, forall) with params a list of shapes."""
        v = self.call(FOR_ROLE, role)
        # BuiltinOperationAbi { classifier }
        if S.is_ctor(v, "BuiltinOperationAbi"):
            v = v[2][0]
        if not S.is_ctor(v, "::Thunk"):
            raise S.Unknown("classifier is not a thunk: %s" % S.show(v))
        body = v[2][0]
        forall = False
        if S.is_ctor(body, "::ForallCType"):
            forall = True
            body = body[2][0]
        params = []
        while S.is_ctor(body, "::Arrow"):
            params.append(shape(body[2][0]))
            body = body[2][1]
        return params, comp_shape(body), forall


def shape(v):
    """Value classifier -> ('atom', name) | ('thunk', [param shapes], result)."""
    if S.is_ctor(v, "::Atom"):
        return ("atom", S.show(v[2][0]))
    if S.is_ctor(v, "::Thunk"):
        body = v[2][0]
        ps = []
        while S.is_ctor(body, "::Arrow"):
            ps.append(shape(body[2][0]))
            body = body[2][1]
        return ("thunk", ps, comp_shape(body))
    return ("?", S.show(v))


def comp_shape(v):
    if S.is_ctor(v, "::OS"):
        return ("OS",)
    if S.is_ctor(v, "::Bound"):
        return ("Bound", S.show(v[2][0]))
    if S.is_ctor(v, "::Return"):
        return ("Return", shape(v[2][0]))
    return ("?", S.show(v))


def show_shape(s):
    if s[0] == "atom":
        return s[1]
    if s[0] == "thunk":
        return "Thk(%s)" % " -> ".join([show_shape(p) for p in s[1]] + [show_comp(s[2])])
    return "?%s" % (s[1],)


def show_comp(c):
    if c[0] == "OS":
        return "OS"
    if c[0] == "Bound":
        return "R"
    if c[0] == "Return":
        return "Ret(%s)" % show_shape(c[1])
    return "?"
