"""C05 — fixed-width numeric semantics and exact literal ranges (table rules over typed HIR)."""
import itertools
import re

from .. import armlib as A
from .. import hirlib as H
from .. import tys

EXPLANATION = (
    "Every numeric operation of the interpreter is one arm of a finite table, and each arm is a single call of a core "
    "method whose semantics is the specification. The check evaluates the macro-expanded, type-resolved arms: "
    "integer_arithmetic arm X calls core::num::<impl x>::wrapping_{add,sub,mul,div,rem} (x = Rust carrier of variant X, "
    "taken from the ADT) with receiver = first operand, argument = second operand and rebuilds variant X; comparisons are "
    "==,<,> at the carrier type in operand order; Branch::select(c,a,b) is if c {a} else {b} and receives slice positions "
    "2,3; floats go from_bits -> IEEE operator -> to_bits at the variant's width; rendering is ToString on the carrier / "
    "the exact i128 value; IntegerLiteral::with_type uses TryInto<carrier> (std's exact range check) and "
    "FloatLiteral::with_type's acceptance predicate has the truth table of finite(v as f32); the checker "
    "stores a literal only from the Some edge of with_type, reports OutOfRange on the None edge and defaults to "
    "Int64 / Float64; no numeric `as` cast occurs in the numeric functions."
)

IMPLS = "zydeco_dynamics::impls::"
TERM_CHECKER = ("<zydeco_utils::with::With<zydeco_statics::environment::TyEnv, zydeco_surface::bitter::syntax::TermId> "
                "as zydeco_statics::check::Tyck<'a>>::tyck_inner_k")
INT_METHODS = {"Add": "wrapping_add", "Sub": "wrapping_sub", "Mul": "wrapping_mul", "Div": "wrapping_div", "Mod": "wrapping_rem"}
FLOAT_OPS = {"Add": "Add", "Sub": "Sub", "Mul": "Mul", "Div": "Div"}
CMP_OPS = {"Eq": "Eq", "Lt": "Lt", "Gt": "Gt"}


def carriers(ctx, rule):
    """variant -> Rust carrier type, read from the ADT and cross-checked against the variant's name."""
    out = {}
    adt = ctx.facts.adts().get("zydeco_syntax::IntegerLiteral")
    ity = ctx.facts.adts().get("zydeco_syntax::IntegerType")
    if adt is None or ity is None:
        ctx.anchor_lost(rule, "IntegerLiteral / IntegerType not found")
        return out, []
    for v in adt["variants"]:
        if v["name"] == "Unresolved":
            continue
        ty = v["fields"][0]["ty"]
        m = re.match(r"^(U?)Int(\d+)$", v["name"])
        want = ("u" if m and m.group(1) else "i") + (m.group(2) if m else "?")
        ctx.check(ty == want, rule, "carrier:%s" % v["name"],
                  "IntegerLiteral::%s carries `%s`, expected `%s` (width/signedness of the type name)" % (v["name"], ty, want),
                  adt["loc"], detail={"variant": v["name"], "carrier": ty})
        out[v["name"]] = ty
    types = [v["name"] for v in ity["variants"]]
    ctx.check(sorted(types) == sorted(out), rule, "carrier:coverage",
              "IntegerType variants %s and IntegerLiteral carriers %s differ" % (types, sorted(out)), ity["loc"],
              detail={"integer_types": types})
    return out, types


def lit_path(pos, variant, kind="Integer"):
    return "$%s/Literal.0/%s.0/%s.0" % (pos, kind, variant)


def rule_integer_arithmetic(ctx, car):
    rule = "int-arith"
    ctx.rule(rule, "integer_arithmetic: arm X destructures IntegerLiteral::X twice (slice positions 0,1), calls "
                   "core::num::<impl carrier(X)>::wrapping_op(first, second) per operation and rebuilds IntegerLiteral::X")
    fn = IMPLS + "integer_arithmetic"
    h = ctx.need_hir(rule, fn)
    loc = ctx.facts.bodies()[fn]["loc"]
    m = A.find_match_on(h["body"], lambda n: H.kind(H.peel(n["scrut"])) == "Tup")
    if m is None:
        ctx.anchor_lost(rule, "dispatch match not found")
        return
    arms = A.arms_by_variant(m, tuple_pos=0)
    for X, cty in sorted(car.items()):
        a = arms.get(X)
        if a is None:
            ctx.violation(rule, "%s:arm" % X, "integer_arithmetic has no arm for IntegerType::%s" % X, loc)
            continue
        pat = A.strip_or(a["pat"])
        want_shape = "(%s,[Literal(Integer(%s(_))),Literal(Integer(%s(_)))])" % (X, X, X)
        ctx.check(A.pat_shape(pat) == want_shape, rule, "%s:pattern" % X,
                  "arm %s matches %s, expected %s" % (X, A.pat_shape(pat), want_shape), [loc[0], a["ln"]],
                  detail={"arm": X, "pattern": want_shape})
        env = A.Env()
        env.bind_params(h)
        env.bind_pat(pat)
        p0, p1 = lit_path("T1/S0", X), lit_path("T1/S1", X)
        inner = A.find_match_on(a["body"], lambda n: A.scrut_is_param(n, h, 1))
        if inner is None:
            ctx.violation(rule, "%s:operation-match" % X, "arm %s does not dispatch on the operation parameter" % X, [loc[0], a["ln"]])
            continue
        ops = A.arms_by_variant(inner)
        for op, meth in INT_METHODS.items():
            oa = ops.get(op)
            got = A.sexpr(oa["body"], env) if oa else "(missing)"
            want = "(core::num::<impl %s>::%s %s %s)" % (cty, meth, p0, p1)
            ctx.check(got == want, rule, "%s:%s" % (X, op),
                      "IntegerOperation::%s at %s evaluates %s, expected %s" % (op, X, got, want),
                      [loc[0], (oa or a)["ln"]], detail={"type": X, "op": op, "is": want})
        # result variant
        res = [n for n, c in H.calls(a["body"]) if c == "zydeco_syntax::IntegerLiteral::%s" % X]
        others = [c for n, c in H.calls(a["body"]) if c.startswith("zydeco_syntax::IntegerLiteral::") and not c.endswith("::" + X)]
        ok = len(res) == 1 and not others
        if ok:
            arg = H.peel(res[0]["args"][0])
            l = H.path_local(arg)
            # `result` must be the let binding of the operation match
            ok = False
            for st in H.walk(a["body"]):
                if H.kind(st) == "Let" and H.kind(st["pat"]) == "Bind" and l and st["pat"]["local"] == l[0]:
                    ok = H.peel(st["init"]) is inner or st["init"] is inner
        ctx.check(ok, rule, "%s:result" % X, "arm %s does not rebuild IntegerLiteral::%s from the operation's result" % (X, X),
                  [loc[0], a["ln"]], detail={"type": X, "result": "IntegerLiteral::%s(result)" % X})


def rule_comparison(ctx, fn_name, op_enum, by_ref):
    rule = "compare"
    fn = IMPLS + fn_name
    h = ctx.need_hir(rule, fn)
    loc = ctx.facts.bodies()[fn]["loc"]
    env = A.Env()
    env.bind_params(h)
    m = A.find_match_on(h["body"], lambda n: A.scrut_is_param(n, h, 2))
    if m is None:
        ctx.anchor_lost(rule, "%s: match on operation not found" % fn_name)
        return
    arms = A.arms_by_variant(m)
    for op, hop in CMP_OPS.items():
        a = arms.get(op)
        got = A.sexpr(a["body"], env) if a else "(missing)"
        want = "(%s $P0 $P1)" % hop
        ctx.check(got == want, rule, "%s:%s" % (fn_name, op), "%s: %s::%s evaluates %s, expected %s" % (fn_name, op_enum, op, got, want),
                  [loc[0], (a or m)["ln"]], detail={"fn": fn_name, "op": op, "is": want})
        if a:
            b = H.peel(a["body"])
            if H.kind(b) == "Binary":
                # the comparison is the trait operator of the (generic) carrier, not something hand-written
                f = b.get("fn", "")
                ctx.check(f == "" or f.startswith("core::cmp::"), rule, "%s:%s:operator" % (fn_name, op),
                          "%s uses %s for %s" % (fn_name, f, op), [loc[0], a["ln"]], detail={"operator": f or "builtin"})


def rule_branch_select(ctx):
    rule = "branch-select"
    ctx.rule(rule, "Branch::select(c, a, b) = if c {a} else {b}; integer_branch / float_branch pass slice positions 2 and 3 "
                   "in that order and compare positions 0 and 1 in that order at the arm's carrier type")
    fn = "zydeco_dynamics::impls::Branch::select"
    h = ctx.need_hir(rule, fn)
    env = A.Env()
    env.bind_params(h)
    iff = next((n for n in H.walk(h["body"]) if H.kind(n) == "If"), None)
    got = A.sexpr(iff, env) if iff else "(no if)"
    ctx.check(got == "(if $P0 $P1 $P2)", rule, "select", "Branch::select is %s, expected (if $P0 $P1 $P2)" % got,
              ctx.facts.bodies()[fn]["loc"], detail={"is": "(if cond when_true when_false)"})
    # the selected value is what gets forced
    forced = [A.sexpr(n, env) for n, c in H.calls(h["body"]) if c.endswith("syntax::Force") or c.endswith("::Force")]
    ctx.note("Branch::select forces: %s" % forced[:1])


def rule_branches(ctx, car, fn_name, cmp_fn, kind, variants, conv):
    rule = "branch"
    fn = IMPLS + fn_name
    h = ctx.need_hir(rule, fn)
    loc = ctx.facts.bodies()[fn]["loc"]
    # let [first, second, when_true @ Thunk(_), when_false @ Thunk(_)] = args.as_slice() else { .. }
    let = next((n for n in H.walk(h["body"]) if H.kind(n) == "Let" and n.get("els") is not None and H.kind(A.strip_or(n["pat"])) == "Slice"), None)
    if let is None:
        ctx.anchor_lost(rule, "%s: slice destructuring not found" % fn_name)
        return
    shape = A.pat_shape(let["pat"])
    ctx.check(shape == "[_,_,Thunk(_),Thunk(_)]", rule, "%s:slice" % fn_name,
              "%s destructures its arguments as %s, expected [_,_,Thunk(_),Thunk(_)]" % (fn_name, shape), [loc[0], let["ln"]],
              detail={"pattern": shape})
    init = A.sexpr(let["init"], _param_env(h))
    ctx.check(init.endswith("as_slice $P2)"), rule, "%s:slice-source" % fn_name, "%s destructures %s, not args.as_slice()" % (fn_name, init),
              [loc[0], let["ln"]], detail={"source": "args.as_slice()"})
    env = _param_env(h)
    env.bind_pat(A.strip_or(let["pat"]))
    # names: $S0 first, $S1 second, $S2 when_true, $S3 when_false
    m = A.find_match_on(h["body"], lambda n: H.kind(H.peel(n["scrut"])) == "Tup")
    if m is None:
        ctx.anchor_lost(rule, "%s: dispatch match not found" % fn_name)
        return
    scr = A.sexpr(m["scrut"], env)
    ctx.check(scr == "(tuple $P0 $S0 $S1)", rule, "%s:scrutinee" % fn_name,
              "%s dispatches on %s, expected (tuple $P0 $S0 $S1)" % (fn_name, scr), [loc[0], m["ln"]], detail={"scrutinee": scr})
    arms = A.arms_by_variant(m, tuple_pos=0)
    for X in variants:
        a = arms.get(X)
        if a is None:
            ctx.violation(rule, "%s:%s:arm" % (fn_name, X), "%s has no arm for %s" % (fn_name, X), loc)
            continue
        pat = A.strip_or(a["pat"])
        want_shape = "(%s,Literal(%s(%s(_))),Literal(%s(%s(_))))" % (X, kind, X, kind, X)
        ctx.check(A.pat_shape(pat) == want_shape, rule, "%s:%s:pattern" % (fn_name, X),
                  "arm %s of %s matches %s, expected %s" % (X, fn_name, A.pat_shape(pat), want_shape), [loc[0], a["ln"]],
                  detail={"pattern": want_shape})
        e2 = A.Env()
        e2.names = dict(env.names)
        e2.bind_pat(pat)
        a1, a2 = lit_path("T1", X, kind), lit_path("T2", X, kind)
        got = A.sexpr(a["body"], e2)
        want = "(%s%s %s %s $P1)" % (IMPLS, cmp_fn, conv(X, a1), conv(X, a2))
        ctx.check(got == want, rule, "%s:%s" % (fn_name, X), "arm %s of %s evaluates %s, expected %s" % (X, fn_name, got, want),
                  [loc[0], a["ln"]], detail={"type": X, "is": want})
    # the final selection
    sel = [n for n, c in H.calls(h["body"]) if c == "zydeco_dynamics::impls::Branch::select"]
    ok = False
    got = None
    if len(sel) == 1:
        e3 = A.Env()
        e3.names = dict(env.names)
        # `condition` is the let binding of the dispatch match
        for st in H.walk(h["body"]):
            if H.kind(st) == "Let" and st.get("init") is m and H.kind(st["pat"]) == "Bind":
                e3.names[st["pat"]["local"]] = "$condition"
        got = A.sexpr(sel[0], e3)
        ok = got == "(zydeco_dynamics::impls::Branch::select $condition $S2 $S3)"
    ctx.check(ok, rule, "%s:select" % fn_name, "%s selects with %s, expected Branch::select(condition, args[2], args[3])" % (fn_name, got),
              loc, detail={"is": "Branch::select(condition, args[2], args[3])"})


def _param_env(h):
    e = A.Env()
    e.bind_params(h)
    return e


def rule_float_arithmetic(ctx):
    rule = "float-arith"
    ctx.rule(rule, "float_arithmetic: arm W converts both operands with <fW>::from_bits, applies the IEEE operator of fW in "
                   "operand order and stores result.to_bits() in FloatLiteral::W")
    fn = IMPLS + "float_arithmetic"
    h = ctx.need_hir(rule, fn)
    loc = ctx.facts.bodies()[fn]["loc"]
    m = A.find_match_on(h["body"], lambda n: H.kind(H.peel(n["scrut"])) == "Tup")
    if m is None:
        ctx.anchor_lost(rule, "dispatch match not found")
        return
    arms = A.arms_by_variant(m, tuple_pos=0)
    for X, f in (("Float32", "f32"), ("Float64", "f64")):
        a = arms.get(X)
        if a is None:
            ctx.violation(rule, "%s:arm" % X, "float_arithmetic has no arm for %s" % X, loc)
            continue
        pat = A.strip_or(a["pat"])
        want_shape = "(%s,[Literal(Float(%s(_))),Literal(Float(%s(_)))])" % (X, X, X)
        ctx.check(A.pat_shape(pat) == want_shape, rule, "%s:pattern" % X, "arm %s matches %s" % (X, A.pat_shape(pat)),
                  [loc[0], a["ln"]], detail={"pattern": want_shape})
        env = _param_env(h)
        env.bind_pat(pat)
        body = H.peel(a["body"])
        blk = body if "stmts" in body else None
        if blk is None:
            ctx.violation(rule, "%s:body" % X, "unexpected arm body shape", [loc[0], a["ln"]])
            continue
        env.bind_lets(blk)  # first/second := from_bits(..); result := match
        p0, p1 = lit_path("T1/S0", X, "Float"), lit_path("T1/S1", X, "Float")
        fb = "core::%s::<impl %s>::from_bits" % (f, f)
        inner = A.find_match_on(a["body"], lambda n: A.scrut_is_param(n, h, 1))
        if inner is None:
            ctx.violation(rule, "%s:operation-match" % X, "no dispatch on the operation parameter", [loc[0], a["ln"]])
            continue
        ops = A.arms_by_variant(inner)
        for op, hop in FLOAT_OPS.items():
            oa = ops.get(op)
            got = A.sexpr(oa["body"], env) if oa else "(missing)"
            want = "(%s (%s %s) (%s %s))" % (hop, fb, p0, fb, p1)
            ctx.check(got == want, rule, "%s:%s" % (X, op), "FloatOperation::%s at %s evaluates %s, expected %s" % (op, X, got, want),
                      [loc[0], (oa or a)["ln"]], detail={"type": X, "op": op, "is": want})
            if oa:
                b = H.peel(oa["body"])
                ctx.check(H.kind(b) == "Binary" and b.get("aty") == f and not b.get("fn", "").startswith("zydeco"), rule,
                          "%s:%s:width" % (X, op), "operator at %s is applied at type %s" % (X, b.get("aty")), [loc[0], oa["ln"]],
                          detail={"operand_type": f})
        res = [n for n, c in H.calls(a["body"]) if c == "zydeco_syntax::FloatLiteral::%s" % X]
        ok = False
        if len(res) == 1:
            arg = H.peel(res[0]["args"][0])
            ok = H.kind(arg) == "MethodCall" and arg.get("fn") == "core::%s::<impl %s>::to_bits" % (f, f)
            if ok:
                l = H.path_local(arg["recv"])
                ok = False
                for st in blk["stmts"]:
                    if H.kind(st) == "Let" and H.kind(st["pat"]) == "Bind" and l and st["pat"]["local"] == l[0]:
                        ok = st["init"] is inner or H.peel(st["init"]) is inner
        ctx.check(ok, rule, "%s:result" % X, "arm %s does not store <operation result>.to_bits() in FloatLiteral::%s" % (X, X),
                  [loc[0], a["ln"]], detail={"result": "FloatLiteral::%s(result.to_bits())" % X})


def rule_to_string(ctx, car):
    rule = "render"
    ctx.rule(rule, "to_string: floats render ToString of <fW>::from_bits(bits); integers render the exact i128 value "
                   "(IntegerLiteral::value widens each carrier with Into<i128>), guarded by integer_type() == Some(type)")
    fn = IMPLS + "float_to_string"
    h = ctx.need_hir(rule, fn)
    loc = ctx.facts.bodies()[fn]["loc"]
    m = A.find_match_on(h["body"], lambda n: H.kind(H.peel(n["scrut"])) == "Tup")
    arms = A.arms_by_variant(m, tuple_pos=0) if m else {}
    for X, f in (("Float32", "f32"), ("Float64", "f64")):
        a = arms.get(X)
        got = None
        if a:
            env = _param_env(h)
            env.bind_pat(A.strip_or(a["pat"]))
            got = A.sexpr(a["body"], env)
        want = "(<T as alloc::string::ToString>::to_string (core::%s::<impl %s>::from_bits %s))" % (f, f, lit_path("T1/S0", X, "Float"))
        ok = got == want
        if a and ok:
            call = H.peel(a["body"])
            ok = (call.get("gargs") or [None])[0] == f
        ctx.check(ok, rule, "float_to_string:%s" % X, "float_to_string %s renders %s, expected %s at %s" % (X, got, want, f),
                  [loc[0], (a or {"ln": loc[1]})["ln"]], detail={"type": X, "is": want})
    # integers
    fn = "zydeco_syntax::IntegerLiteral::value"
    h = ctx.need_hir(rule, fn)
    loc = ctx.facts.bodies()[fn]["loc"]
    m = A.find_match_on(h["body"], lambda n: True)
    arms = A.arms_by_variant(m) if m else {}
    for X, cty in sorted(car.items()):
        a = arms.get(X)
        ok = False
        got = None
        if a:
            b = H.peel(a["body"])
            env = A.Env()
            env.bind_pat(A.strip_or(a["pat"]))
            got = A.sexpr(b, env)
            ok = (H.kind(b) == "MethodCall" and b["name"] == "into" and (b.get("gargs") or []) == [cty, "i128"]
                  and got.endswith(" $%s.0)" % X))
        ctx.check(ok, rule, "value:%s" % X, "IntegerLiteral::value widens %s with %s, expected Into::<i128> of the %s payload" % (X, got, cty),
                  [loc[0], (a or {"ln": loc[1]})["ln"]], detail={"variant": X, "widening": "%s -> i128 (lossless)" % cty})
    for tr in ("core::fmt::Display", "core::fmt::Debug"):
        fn = "<zydeco_syntax::IntegerLiteral as %s>::fmt" % tr
        if fn in ctx.facts.bodies():
            h = ctx.need_hir(rule, fn)
            got = A.sexpr(h["body"], _param_env(h))
            ctx.check("zydeco_syntax::IntegerLiteral::value $P0" in got and "i128" in got, rule, "fmt:%s" % tr.rsplit("::", 1)[-1],
                      "IntegerLiteral %s is %s, expected value().fmt(f) at i128" % (tr, got), ctx.facts.bodies()[fn]["loc"],
                      detail={"is": "self.value().fmt(f)"})
    fn = IMPLS + "integer_to_string"
    h = ctx.need_hir(rule, fn)
    loc = ctx.facts.bodies()[fn]["loc"]
    m = A.find_match_on(h["body"], lambda n: True)
    ok = False
    got = None
    if m:
        for a in m["arms"]:
            if A.pat_shape(a["pat"]) == "[Literal(Integer(_))]":
                env = _param_env(h)
                env.bind_pat(A.strip_or(a["pat"]))
                g = A.sexpr(a.get("guard"), env) if a.get("guard") else "(no guard)"
                v = "$S0/Literal.0/Integer.0"
                guard_ok = g == "(Eq (zydeco_syntax::IntegerLiteral::integer_type %s) (core::option::Option::Some $P0))" % v
                got = A.sexpr(a["body"], env)
                ok = guard_ok and "(<T as alloc::string::ToString>::to_string %s)" % v in got
                got = "guard %s body %s" % (g, got)
    ctx.check(ok, rule, "integer_to_string", "integer_to_string is %s" % got, loc,
              detail={"is": "value.to_string() if value.integer_type() == Some(integer_type)"})
    # integer_type(): variant X -> IntegerType::X
    fn = "zydeco_syntax::IntegerLiteral::integer_type"
    h = ctx.need_hir(rule, fn)
    m = A.find_match_on(h["body"], lambda n: True)
    arms = A.arms_by_variant(m) if m else {}
    for X in sorted(car):
        a = arms.get(X)
        got = H.path_def(a["body"]) if a else None
        ctx.check(got == "zydeco_syntax::IntegerType::%s" % X, rule, "integer_type:%s" % X,
                  "IntegerLiteral::%s reports type %s" % (X, got), ctx.facts.bodies()[fn]["loc"], detail={"variant": X})


def rule_with_type(ctx, car):
    rule = "literal-range"
    ctx.rule(rule, "IntegerLiteral::with_type(X) = Self::X(value().try_into::<carrier(X)>().ok()?); FloatLiteral::with_type "
                   "accepts Float32 iff finite(v as f32) and stores (v as f32).to_bits(); Float64 stores v.to_bits()")
    fn = "zydeco_syntax::IntegerLiteral::with_type"
    h = ctx.need_hir(rule, fn)
    loc = ctx.facts.bodies()[fn]["loc"]
    env = _param_env(h)
    env.bind_lets(H.peel(h["body"]) if "stmts" in h["body"] else h["body"])
    m = A.find_match_on(h["body"], lambda n: A.scrut_is_param(n, h, 1))
    arms = A.arms_by_variant(m) if m else {}
    for X, cty in sorted(car.items()):
        a = arms.get(X)
        got = A.sexpr(a["body"], env) if a else "(missing)"
        want = ("(zydeco_syntax::IntegerLiteral::%s (? (core::result::Result::<T, E>::ok (<T as core::convert::TryInto<U>>::try_into "
                "(zydeco_syntax::IntegerLiteral::value $P0)))))" % X)
        ok = got == want
        if ok:
            tc = [n for n in H.walk(a["body"]) if H.kind(n) == "MethodCall" and n["name"] == "try_into"]
            ok = len(tc) == 1 and (tc[0].get("gargs") or []) == ["i128", cty]
        ctx.check(ok, rule, "int:%s" % X, "with_type(%s) is %s, expected TryInto::<%s> of the exact i128 value with .ok()?" % (X, got, cty),
                  [loc[0], (a or {"ln": loc[1]})["ln"]], detail={"type": X, "range_check": "i128 -> %s via TryInto (exact)" % cty})
    # no hand-written bound anywhere in the function
    cmps = [n for n in H.walk(h["body"]) if H.kind(n) == "Binary" and n["op"] in ("Lt", "Le", "Gt", "Ge")]
    ctx.check(not cmps, rule, "int:no-manual-bounds", "IntegerLiteral::with_type contains a hand-written comparison", loc,
              detail={"comparisons": 0})
    # floats
    fn = "zydeco_syntax::FloatLiteral::with_type"
    h = ctx.need_hir(rule, fn)
    loc = ctx.facts.bodies()[fn]["loc"]
    env = _param_env(h)
    env.bind_lets(h["body"])
    m = A.find_match_on(h["body"], lambda n: A.scrut_is_param(n, h, 1))
    arms = A.arms_by_variant(m) if m else {}
    v = "(zydeco_syntax::FloatLiteral::value $P0)"
    nar = "(as %s f64->f32)" % v
    a = arms.get("Float64")
    got = A.sexpr(a["body"], env) if a else "(missing)"
    want = "(core::option::Option::Some (zydeco_syntax::FloatLiteral::from_bits (core::f64::<impl f64>::to_bits %s)))" % v
    ctx.check(got == want, rule, "float:Float64", "with_type(Float64) is %s, expected %s" % (got, want), loc, detail={"is": want})
    a = arms.get("Float32")
    ok = False
    why = "arm missing"
    if a:
        sub = A.Env()
        sub.names = dict(env.names)
        body = H.peel(a["body"])
        if "stmts" in body:
            sub.bind_lets(body)
            tail = H.peel(body.get("expr"))
        else:
            tail = body
        # <predicate>.then(|| from_f32_bits(narrowed.to_bits()))
        if H.kind(tail) == "MethodCall" and tail["name"] == "then":
            pred = tail["recv"]
            atoms = {"(core::f64::<impl f64>::is_finite %s)" % v: "A", "(core::f32::<impl f32>::is_finite %s)" % nar: "B"}
            table = _truth_table(pred, sub, atoms)
            # the property: accepted at Float32 exactly when the value stays finite after narrowing. finite(v as f32) implies
            # finite(v), so `B` and `A && B` are the same predicate; `!A || B` (accept what is already infinite) is not
            want_tables = [{(x, y): y for x, y in itertools.product((False, True), repeat=2)},
                           {(x, y): (x and y) for x, y in itertools.product((False, True), repeat=2)}]
            store = A.sexpr(tail["args"][0], sub)
            want_store = "(closure (zydeco_syntax::FloatLiteral::from_f32_bits (core::f32::<impl f32>::to_bits %s)))" % nar
            if table is None:
                why = "the acceptance predicate %s is not a boolean combination of is_finite(value) and is_finite(value as f32)" % A.sexpr(pred, sub)
            elif table not in want_tables:
                why = ("the acceptance predicate %s has truth table %s over A = finite(v), B = finite(v as f32); expected B: a literal "
                       "is accepted at Float32 exactly when it stays finite after narrowing (`1e999 : Float32` must be rejected)"
                       % (A.sexpr(pred, sub), table))
            elif store != want_store:
                why = "the stored bits are %s, expected %s" % (store, want_store)
            else:
                ok = True
        else:
            why = "arm is %s" % A.sexpr(tail, sub)
    ctx.check(ok, rule, "float:Float32", "FloatLiteral::with_type(Float32): %s" % why, loc,
              detail={"predicate": "finite(v as f32)", "stored": "(v as f32).to_bits()"})
    # "the run-time value is exactly the literal": the Float32 value is obtained by narrowing the Float64 reading of the text, i.e. the
    # decimal text is rounded twice (text -> f64 -> f32). A literal just above an f32 midpoint comes out one ulp low.
    twice = a is not None and ("f64->f32" in A.sexpr(a["body"], env) or any(
        H.kind(x) == "Cast" and (x.get("from"), x.get("ty")) == ("f64", "f32") for x in H.walk(a["body"])))
    if twice:
        ctx.violation(rule, "float:Float32:narrowed-from-f64", "FloatLiteral::with_type(Float32) computes the Float32 value as "
                      "`(text parsed as f64) as f32`: the decimal text is rounded twice, so a literal just above the midpoint of two "
                      "Float32 values (1.00000005960464477539062500000001) becomes the lower one (1.0 instead of 1.0000001), and a "
                      "literal just below the Float32 overflow midpoint (3.4028235677973366e38) is rejected although it rounds to "
                      "f32::MAX", loc)


def _truth_table(expr, env, atoms):
    """Evaluate a boolean HIR expression over the given atoms; None when it contains anything else."""
    def ev(n, val):
        n = H.peel(n)
        k = H.kind(n)
        if k == "Binary" and n["op"] in ("Or", "And") and not n.get("fn"):
            a, b = ev(n["a"], val), ev(n["b"], val)
            if a is None or b is None:
                return None
            return (a or b) if n["op"] == "Or" else (a and b)
        if k == "Unary" and n["op"] == "Not":
            a = ev(n["e"], val)
            return None if a is None else (not a)
        s = A.sexpr(n, env)
        if s in atoms:
            return val[atoms[s]]
        return None
    table = {}
    for x, y in itertools.product((False, True), repeat=2):
        r = ev(expr, {"A": x, "B": y})
        if r is None:
            return None
        table[(x, y)] = r
    return table


def rule_checker_literals(ctx):
    rule = "checker-literal"
    ctx.rule(rule, "the checker stores an Integer/Float literal only from the Some edge of with_type(type), reports "
                   "Integer/FloatLiteralOutOfRange on the None edge, and its only default types are Int64 / Float64")
    sites = [
        ("<zydeco_statics::query::_::literal_syn_judgment_Configuration_ as salsa::function::Configuration>::execute::inner_", "synthesis"),
    ]
    # the analysis arm lives in the big term checker
    tc = TERM_CHECKER if TERM_CHECKER in ctx.facts.bodies() else None
    if tc is None:
        ctx.anchor_lost(rule, "term checker tyck_inner_k not found")
    else:
        sites.append((tc, "analysis"))
    for fn, mode in sites:
        h = ctx.need_hir(rule, fn)
        loc = ctx.facts.bodies()[fn]["loc"]
        for kind, err in (("Integer", "IntegerLiteralOutOfRange"), ("Float", "FloatLiteralOutOfRange")):
            wt = "zydeco_syntax::%sLiteral::with_type" % kind
            lets = [n for n in H.walk(h["body"]) if H.kind(n) == "Let" and n.get("els") is not None
                    and H.callee(H.peel(n["init"])) == wt]
            inst = "%s:%s" % (mode, kind)
            if not lets:
                ctx.violation(rule, inst, "%s: no `let Some(..) = <literal>.with_type(..) else {..}` for %s literals: the range "
                              "check is gone" % (fn, kind), loc)
                continue
            for let in lets:
                ok_pat = A.pat_shape(let["pat"]) == "Some(_)"
                errs = [n for n in H.walk(let["els"]) if H.kind(n) == "Struct" and (n["path"].get("def") or "").endswith("TyckError::" + err)]
                type_arg = H.path_local(H.peel(let["init"])["args"][0])
                same_ty = False
                if errs and type_arg:
                    for f in errs[0]["fields"]:
                        if f["name"] in ("integer_type", "float_type"):
                            l = H.path_local(f["e"])
                            same_ty = bool(l) and l[0] == type_arg[0]
                ctx.check(ok_pat and errs and same_ty and H.diverges(let["els"]), rule, inst + ":gate",
                          "%s: the with_type gate for %s literals is malformed (Some-pattern=%s, %s on None edge=%s, same type=%s)"
                          % (mode, kind, ok_pat, err, bool(errs), same_ty), [loc[0], let["ln"]],
                          detail={"mode": mode, "literal": kind, "none_edge": err})
                # the stored literal is the gated one
                bound = H.pat_bindings(let["pat"])
                ctor = "zydeco_syntax::Literal::%s" % kind
                uses = [n for n, c in H.calls(h["body"]) if c == ctor]
                good = [n for n in uses if bound and (H.path_local(n["args"][0]) or [None])[0] == bound[0]["local"]]
                ctx.check(bool(good), rule, inst + ":stored", "%s: Literal::%s is not built from the value returned by with_type" % (mode, kind),
                          [loc[0], let["ln"]], detail={"stored": "Literal::%s(<gated value>)" % kind})
        # default types: the only IntegerType / FloatType constants mentioned
        consts = set()
        for n in H.walk(h["body"]):
            if H.kind(n) == "Path":
                d = n.get("res", {}).get("def", "")
                if d.startswith("zydeco_syntax::IntegerType::") or d.startswith("zydeco_syntax::FloatType::"):
                    consts.add(d.split("::")[-1])
        ctx.check(consts <= {"Int64", "Float64"} and consts, rule, "%s:defaults" % mode,
                  "%s mentions numeric type constants %s; the only defaults are Int64 / Float64" % (mode, sorted(consts)), loc,
                  detail={"mode": mode, "defaults": sorted(consts)})
    # "Int64 / Float64 when NOTHING selects a type": an expected type that is a solved inference variable selects its solution
    if tc is not None:
        h = ctx.need_hir(rule, tc)
        env = A.ArmEnv(); env.strip = True; env.bind_params(h)
        found = False
        for m in H.walk(h["body"]):
            if H.kind(m) != "Match" or m.get("src") or "types_pre" not in A.sexpr(m["scrut"], env):
                continue
            for a in m["arms"]:
                if not A.pat_shape(a["pat"]).startswith("Fill"):
                    continue
                # the solution is read (statics.solus) in the arm's guard or in an `if let` of the arm, and that branch analyzes
                for holder in [a] + [x for x in H.walk(a["body"]) if H.kind(x) == "If"]:
                    cond = holder.get("guard") if holder is a else holder.get("c")
                    body = a["body"] if holder is a else holder.get("t")
                    if cond is None or body is None:
                        continue
                    reads_solution = any(H.kind(x) == "Field" and x.get("name") == "solus" for x in H.walk(cond))
                    analyses = any(H.kind(c) in ("Call", "MethodCall") and re.search(r"Action::<\w+>::ana$|Action::ana$", H.callee(c) or "")
                                   for c in H.walk(body))
                    if reads_solution and analyses:
                        found = True
        ctx.check(found, rule, "analysis:solved-variable-selects", "the term judgment synthesizes every term whose expected type is an "
                  "inference variable, even one that already has a solution: a literal then takes its default width and `! pick _ b 255` "
                  "with `b : UInt8` is rejected (`expected UInt8, found Int64`) although UInt8 is selected and 255 is in range; a solved "
                  "variable must hand its solution to the analysis mode", ctx.facts.bodies()[tc]["loc"],
                  detail={"prelude": "Fill arm with a guard on statics.solus analyzes against the solution"})
    # callers of with_type / from_value
    n = 0
    for c in ctx.facts.calls():
        if c["to"] in ("zydeco_syntax::IntegerLiteral::with_type", "zydeco_syntax::FloatLiteral::with_type",
                       "zydeco_syntax::IntegerLiteral::from_value"):
            n += 1
    ctx.note("with_type / from_value call sites in the workspace: %d" % n)


def rule_no_casts(ctx):
    rule = "no-cast"
    ctx.rule(rule, "no numeric `as` cast in the numeric role functions, Branch::select, the comparison helpers and "
                   "IntegerLiteral::{with_type,value,integer_type}; FloatLiteral::with_type has exactly the f64->f32 narrowing")
    fns = {IMPLS + f for f in ("integer_arithmetic", "integer_branch", "integer_comparison", "integer_to_string",
                               "float_arithmetic", "float_branch", "float_comparison", "float_to_string", "Branch::select")}
    fns |= {"zydeco_syntax::IntegerLiteral::with_type", "zydeco_syntax::IntegerLiteral::value",
            "zydeco_syntax::IntegerLiteral::integer_type", "zydeco_syntax::IntegerLiteral::from_value"}
    seen = 0
    for t in ctx.facts.tags():
        for k in ctx.facts.index(t).get("casts", []):
            owner = k["fn"].split("::{closure")[0]
            if k["ck"] in ("Transmute", "PtrToPtr"):
                continue
            if owner in fns:
                ctx.violation(rule, "%s:%s->%s" % (owner, k["from"], k["to"]), "numeric cast %s -> %s in %s" % (k["from"], k["to"], owner), k["loc"])
            elif owner == "zydeco_syntax::FloatLiteral::with_type":
                seen += 1
                ctx.check((k["from"], k["to"]) == ("f64", "f32"), rule, "FloatLiteral::with_type:%s->%s" % (k["from"], k["to"]),
                          "unexpected cast %s -> %s in FloatLiteral::with_type" % (k["from"], k["to"]), k["loc"],
                          detail={"cast": "f64 -> f32 (the narrowing whose finiteness is tested)"})
    ctx.ok(rule, "inventory", {"functions": len(fns), "casts_found": 0})


def rule_parser_literals(ctx):
    rule = "literal-parse"
    ctx.rule(rule, "grammar actions obtain literal values with str::parse::<i128> (IntegerLiteral::new) and str::parse::<f64>")
    got = set()
    for c in ctx.facts.calls():
        if c["from"].startswith("zydeco_surface::textual::parser::parser_impl::__action") and c["to"] == "core::str::<impl str>::parse":
            got.add((c.get("args") or ["?"])[0])
    ctx.check({"i128", "f64"} <= got, rule, "targets", "grammar actions parse literals at %s, expected i128 and f64" % sorted(got), None,
              detail={"parse_targets": sorted(got)})


def run(ctx):
    car, types = carriers(ctx, "carrier")
    ctx.rule("carrier", "IntegerLiteral::X carries the Rust primitive named by X (Int8 -> i8, UInt16 -> u16, ...)")
    if not car:
        return {}
    rule_integer_arithmetic(ctx, car)
    ctx.rule("compare", "integer_comparison / float_comparison: Eq -> first == second, Lt -> first < second, Gt -> first > second "
                        "with the carrier's own PartialEq / PartialOrd")
    rule_comparison(ctx, "integer_comparison", "IntegerOperation", True)
    rule_comparison(ctx, "float_comparison", "FloatOperation", False)
    rule_branch_select(ctx)
    ctx.rule("branch", "integer_branch / float_branch arm tables")
    rule_branches(ctx, car, "integer_branch", "integer_comparison", "Integer", sorted(car), lambda X, p: p)
    fb = {"Float32": "f32", "Float64": "f64"}
    rule_branches(ctx, car, "float_branch", "float_comparison", "Float", ["Float32", "Float64"],
                  lambda X, p: "(core::%s::<impl %s>::from_bits %s)" % (fb[X], fb[X], p))
    rule_float_arithmetic(ctx)
    rule_to_string(ctx, car)
    rule_with_type(ctx, car)
    rule_checker_literals(ctx)
    rule_no_casts(ctx)
    rule_parser_literals(ctx)
    ctx.assume("core's wrapping_*, PartialOrd on primitives, IEEE operators, TryInto and ToString are the specification")
    ctx.assume("generic comparison helpers are instantiated at the carrier of the arm's variant (checked through the arm patterns)")
    return {}
