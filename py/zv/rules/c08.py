"""C08 — block contributions are ordered by dependency, not by position (edge recording, SCC machinery, scheduling, elaboration)."""
import json
import os
import re

from .. import armlib as A
from .. import golden
from .. import hirlib as H
from .. import mirlib as M
from .. import order
from ..facts import VERIF

EXPLANATION = (
    "Permutation invariance of behaviour and 'exactly the SCCs' for every graph quantify over programs / graphs and are NOT "
    "decided by enumeration. Decided from the resolved HIR/MIR: (1) edge recording: every occurrence resolved while a "
    "contribution is being resolved is resolved under a scope whose `under` stack ends in that contribution's BindingSite "
    "(parameter binder, definition binder and bindee alike), resolve_reference calls add_dependency whenever the referent "
    "has a binding site, add_dependency adds user -> dependency for every enclosing site of the same block; (2) the block "
    "graph starts with every candidate as a node, is installed before any candidate or the body is resolved and is the "
    "graph handed to BindingContext::from_bindings; (3) Kosaraju: dfs_forward marks on entry and pushes its node on every "
    "path, dfs_backward labels before descending, run labels in reverse finishing order, the condensation adds an edge for "
    "every cross-component dependency; release/top keep members, membership, both edge directions and roots in step "
    "(audited traces, rules/golden_graph.json); (4) scheduling: members of a group and each ready layer are sorted by "
    "source_order, a group is recursive iff it has more than one member or a self edge, layers are released before being "
    "emitted; every hash-ordered iteration in these files is neutralised or audited (engine of C16); (5) elaboration: an "
    "acyclic parameter becomes Abs, an acyclic definition Let, a recursive group RecGroup of definitions and a parameter in "
    "a cycle is ResolveError::RecursiveParameter; the fold runs over the reversed topological order from the residual body; "
    "(6) the checker accepts a recursive group only as sealed, annotated type definitions (MissingSeal / MissingAnnotation "
    "/ SortMismatch otherwise)."
)

G = "zydeco_utils::graph::"
BLOCKS = "zydeco_surface::scoped::blocks::"
ARENA = "zydeco_surface::scoped::arena::BindingContext::"
RESOLVER = "zydeco_surface::scoped::resolver::Resolver::<'_>::"


def _env(h, lets=True):
    env = A.Env()
    env.strip = True
    env.bind_params(h)
    if lets:
        env.bind_lets(h["body"])
    return env


def rule_edges(ctx):
    rule = "edge-recording"
    facts = ctx.facts
    ctx.rule(rule, "MobileCandidate::resolve pushes BindingSite{owner: block, id: binding_id()} on a clone of the block scope and "
                   "resolves EVERY binder and bindee under that clone; resolve_reference / add_dependency record user -> "
                   "dependency (audited traces shared with C07)")
    golden.check(ctx, rule, "golden_scope.json", only={"MobileCandidate::resolve", "resolve_reference", "add_dependency"})
    fn = BLOCKS + "MobileCandidate::resolve"
    h = ctx.need_hir(rule, fn)
    loc = facts.bodies()[fn]["loc"]
    # the local(s) whose `.under` receives push_back(BindingSite{..})
    pushed = set()
    site_ok = False
    for n in H.walk(h["body"]):
        if H.kind(n) == "MethodCall" and n["name"] == "push_back":
            r = H.peel(n["recv"])
            if H.kind(r) == "Field" and r["name"] == "under":
                l = H.path_local(r["e"])
                if l:
                    pushed.add(l[0])
                a = H.peel(n["args"][0])
                if H.kind(a) == "Struct" and (a["path"].get("def") or "").endswith("BindingSite"):
                    env = _env(h)
                    f = {x["name"]: A.sexpr(x["e"], env) for x in a["fields"]}
                    site_ok = f.get("owner") == "$P2" and "binding_id" in f.get("id", "")
    ctx.check(len(pushed) == 1 and site_ok, rule, "resolve:site", "MobileCandidate::resolve does not push exactly one BindingSite{owner: "
              "block, id: self.binding_id()} (scopes pushed on: %d, site ok: %s)" % (len(pushed), site_ok), loc,
              detail={"site": "BindingSite{owner: block, id: binding_id()}"})
    n = 0
    for node in H.walk(h["body"]):
        if H.kind(node) == "MethodCall" and node["name"] == "resolve" and (node.get("fn") or "").endswith("Resolve>::resolve"):
            n += 1
            lookup = H.peel(node["args"][1])
            first = H.peel(lookup["es"][0]) if H.kind(lookup) == "Tup" and lookup.get("es") else None
            while first is not None and H.kind(first) == "MethodCall" and first["name"] == "clone":
                first = H.peel(first["recv"])
            l = H.path_local(first) if first is not None else None
            who = A.sexpr(node["recv"], _env(h, lets=False))
            ctx.check(bool(l) and l[0] in pushed, rule, "resolve:under:%d" % n,
                      "MobileCandidate::resolve resolves %s under a scope that does not carry the contribution's binding site: "
                      "references made there record no dependency edge" % who, [loc[0], node.get("ln")],
                      detail={"resolved": who, "scope": "the clone with the site pushed"})
    ctx.floor(rule, "resolve calls in MobileCandidate::resolve", n, 3)
    # resolve_reference: add_dependency on the Some edge of the referent's site, for local and global referents
    fn = RESOLVER + "resolve_reference"
    if fn not in facts.bodies():
        fn = next((p for p in facts.bodies() if p.endswith("::resolve_reference")), fn)
    h = ctx.need_hir(rule, fn)
    cs = [c.split("::")[-1] for _, c in H.calls(h["body"])]
    reads = [n["name"] for n in H.walk(h["body"]) if H.kind(n) == "Field" and n["name"] == "under_map"]
    ctx.check("add_dependency" in cs and len(reads) >= 2, rule, "resolve_reference", "resolve_reference no longer looks up the binding "
              "site of local and global referents (under_map reads: %d) and records the dependency" % len(reads),
              facts.bodies()[fn]["loc"], detail={"under_map_reads": len(reads)})
    # a reference from a binder's annotation to an earlier, already resolved component of the same binder is not a dependency
    par = {}
    stack = [h["body"]]
    while stack:
        p_ = stack.pop()
        for c in H.children(p_):
            if isinstance(c, dict):
                par[id(c)] = p_
                stack.append(c)
    guarded = False
    genv = A.ArmEnv()
    genv.strip = True
    genv.bind_params(h)
    genv.absorb(h["body"])
    for c in H.walk(h["body"]):
        if H.kind(c) in ("Call", "MethodCall") and (H.callee(c) or "").endswith("::add_dependency"):
            cur = c
            while id(cur) in par:
                cur = par[id(cur)]
                if H.kind(cur) == "If":
                    sx = A.sexpr(cur.get("c") or {}, genv)
                    if re.search(r"\(\. \$P0 defs\)", sx) and re.search(r"\(\. \$P\d under\)", sx):
                        guarded = True
    ctx.check(guarded, rule, "resolve_reference:own-earlier-component", "resolve_reference records a dependency for EVERY referent with a "
              "binding site: the annotation of `let (Carrier, held : Carrier, ..) = pkg that` names an earlier component of its own "
              "pattern, whose block-wide site is the binding itself, so the binding depends on itself, becomes a recursive group and "
              "is rejected (`Missing seal`), while the same pattern under `in` is accepted: pattern components bind left to right",
              facts.bodies()[fn]["loc"])
    # add_dependency: every enclosing site of the same block records user -> dependency
    fn = next((p for p in facts.bodies() if p.endswith("::add_dependency")), None)
    if fn is None:
        ctx.anchor_lost(rule, "add_dependency not found")
    else:
        h = ctx.need_hir(rule, fn)
        env = _env(h, lets=False)
        fe = next((n for n in H.walk(h["body"]) if H.kind(n) == "MethodCall" and n["name"] == "for_each"), None)
        recv = A.sexpr(fe["recv"], env) if fe else "(no for_each)"
        adapters = [x["name"] for x in H.walk(fe["recv"]) if H.kind(x) == "MethodCall"] if fe else []
        cenv = A.ArmEnv()
        cenv.strip = True
        cenv.names = dict(env.names)
        if fe is not None:
            clo = H.peel(fe["args"][0])
            for l, pth in A.pat_paths(clo["params"][0]).items():
                cenv.names[l] = "$site"
        adds = [A.sexpr(n, cenv) for n in H.walk(h["body"]) if H.kind(n) == "MethodCall" and (n.get("fn") or "").endswith("DepGraph::<Id>::add")]
        ok = recv == "(core::iter::traits::iterator::Iterator::filter (. $P1 under) (closure (Eq (. $c0.0 owner) (. $P2 owner))))" \
            and sorted(adapters) == ["copied", "filter", "iter"] \
            and adds == ["(zydeco_utils::graph::DepGraph::<Id>::add ([] (. $P0 block_deps) (. $site owner)) (. $site id) (array (. $P2 id)))"]
        ctx.check(ok, rule, "add_dependency", "add_dependency iterates %s (adapters %s) and records %s; expected every site of `local.under` "
                  "with the dependency's owner to record block_deps[owner].add(site.id, [dependency.id])" % (recv[:140], adapters, adds),
                  facts.bodies()[fn]["loc"], detail={"over": "local.under filtered by owner", "records": "block_deps[owner].add(site.id, [dependency.id])"})
    callers = sorted(set(c["from"].split("::{closure")[0] for k, v in facts.calls_to().items() if k.endswith("::resolve_reference") for c in v))
    ctx.check(len(callers) >= 1, rule, "resolve_reference:callers", "no resolver arm calls resolve_reference", None,
              detail={"callers": [c.split("scoped::")[-1] for c in callers]})


def rule_block_graph(ctx):
    rule = "block-graph"
    facts = ctx.facts
    ctx.rule(rule, "resolve_block: the dependency graph gets a node per candidate (unfiltered fold over the candidate list), is "
                   "installed in block_deps before candidates and body are resolved, removed afterwards and handed unchanged to "
                   "BindingContext::from_bindings, whose result is elaborated by ContextElaboration::build")
    fn = next((p for p in facts.bodies() if p.endswith("::resolve_block")), None)
    if fn is None:
        ctx.anchor_lost(rule, "resolve_block not found")
        return
    h = ctx.need_hir(rule, fn)
    loc = facts.bodies()[fn]["loc"]
    body = h["body"]
    stmts = list(body.get("stmts") or []) + ([body["expr"]] if body.get("expr") is not None else [])
    pos = {}
    for i, st in enumerate(stmts):
        for node, c in H.calls(st):
            tail = c.split("::")[-1]
            key = None
            if tail == "insert_new" and "block_deps" in A.sexpr(H.call_args(node)[0]):
                key = "install"
            elif tail == "remove" and "block_deps" in A.sexpr(H.call_args(node)[0]):
                key = "remove"
            elif c.endswith("MobileCandidate::resolve"):
                key = "candidates"
            elif c.endswith("Resolve>::resolve"):
                key = "body"
            elif c.endswith("BindingContext::from_bindings"):
                key = "from_bindings"
            elif c.endswith("::build") and "ContextElaboration" in c:
                key = "build"
            elif c.endswith("DepGraph::<Id>::add"):
                key = "add-node"
            if key and key not in pos:
                pos[key] = i
    want = ["add-node", "install", "candidates", "body", "remove", "from_bindings", "build"]
    got = [k for k in sorted(pos, key=lambda k: (pos[k], want.index(k) if k in want else 99))]
    ok = all(k in pos for k in want) and all(pos[a] <= pos[b] for a, b in zip(want, want[1:])) and pos["install"] < pos["candidates"] \
        and pos["body"] < pos["remove"]
    ctx.check(ok, rule, "resolve_block:order", "resolve_block performs %s; expected %s" % (got, want), loc, detail={"order": want})
    env = _env(h)
    # node per candidate: fold over candidates.iter() without filter/skip/take
    fold = next((n for n in H.walk(body) if H.kind(n) == "MethodCall" and n["name"] == "fold"
                 and any(c.endswith("DepGraph::<Id>::add") for _, c in H.calls(n))), None)
    adapters = [x["name"] for x in H.walk(fold["recv"]) if H.kind(x) == "MethodCall"] if fold else ["(no fold)"]
    uncond = False
    if fold is not None:
        clo = H.peel(fold["args"][1])
        cb = clo["body"]
        cst = list(cb.get("stmts") or []) + ([cb["expr"]] if cb.get("expr") is not None else []) if H.kind(cb) == "Block" else [cb]
        top = [H.peel(x.get("e", x)) if H.kind(x) in ("Semi", "Expr") else x for x in cst]
        uncond = any(H.kind(x) == "MethodCall" and (x.get("fn") or "").endswith("DepGraph::<Id>::add") for x in top) \
            and not any(H.kind(x) in ("If", "Match", "Ret") for x in H.walk(cb))
    ctx.check(fold is not None and uncond and set(adapters) <= {"iter", "into_iter"} and "BlockCandidateCollector" in A.sexpr(fold["recv"], env),
              rule, "resolve_block:nodes", "the dependency graph is not seeded with every candidate (fold over %s)" % adapters, loc,
              detail={"nodes": "candidates.iter().fold(DepGraph::new(), add(binding_id, []))"})
    fb = next((n for n, c in H.calls(body) if c.endswith("BindingContext::from_bindings")), None)
    if fb is not None:
        a = A.sexpr(H.call_args(fb)[2], env)
        ctx.check("block_deps" in a and "remove" in a, rule, "resolve_block:graph-arg", "from_bindings receives %s, not the graph removed from "
                  "block_deps" % a[:120], loc, detail={"graph": "block_deps.remove(block)"})


def rule_scc(ctx):
    rule = "scc"
    facts = ctx.facts
    ctx.rule(rule, "audited traces of DepGraph / SrcGraph / Kosaraju / SccGraph::{new, top, release} and of the scheduler "
                   "(rules/golden_graph.json); MIR path rules: dfs_forward inserts into `visited` before anything else and pushes "
                   "its node on every path to its return; dfs_backward inserts into `belongs` before anything else")
    golden.check(ctx, rule, "golden_graph.json")
    for f, first, last in (("dfs_forward", r"HashSet::<T, S(, A)?>::insert$", r"Vec::<T, A>::push$"),
                           ("dfs_backward", r"HashMap::<K, V, S(, A)?>::insert$", None)):
        fn = G + "Kosaraju::<'a, Id>::" + f
        b = ctx.need_mir(rule, fn)
        loc = facts.bodies()[fn]["loc"]
        firsts = [bb for bb, t in b.calls() if re.search(first, t["fn"])]
        others = [bb for bb, t in b.calls() if not re.search(first, t["fn"]) and not t["fn"].endswith("Clone>::clone") and not t["fn"].endswith("Clone::clone")]
        ok = bool(firsts) and all(any(b.dominates(x, o) for x in firsts) for o in others)
        ctx.check(ok, rule, "%s:mark-first" % f, "%s does not mark its node before visiting anything (a cycle would recurse forever)" % f,
                  loc, detail={"fn": f, "first": first.split("::")[-1].rstrip("$")})
        if last:
            pushes = [bb for bb, t in b.calls() if re.search(last, t["fn"])]
            reach = b.reachable(0, avoid=set(pushes))
            rets = [r for r in b.returns() if r in reach]
            ctx.check(bool(pushes) and not rets, rule, "%s:push-on-every-path" % f,
                      "%s can return without pushing its node on the finishing stack: the node is never assigned a component "
                      "(SccGraph::new then fails on `belongs[&d]`)" % f, loc, detail={"fn": f, "must_pass": "stack.push(id)"})
    # recursion only on unvisited nodes, over query()
    for f, q in (("dfs_forward", "DepGraph::<Id>::query"), ("dfs_backward", "SrcGraph::<Id>::query")):
        fn = G + "Kosaraju::<'a, Id>::" + f
        h = ctx.need_hir(rule, fn)
        cs = [c for _, c in H.calls(h["body"])]
        ctx.check(sum(1 for c in cs if c.endswith(q)) == 1 and sum(1 for c in cs if c.endswith("::" + f)) == 1, rule, "%s:successors" % f,
                  "%s does not enumerate successors through %s exactly once" % (f, q), facts.bodies()[fn]["loc"],
                  detail={"fn": f, "successors": q})


def rule_schedule(ctx):
    rule = "schedule"
    facts = ctx.facts
    ctx.rule(rule, "from_bindings sorts the members of each group by source_order and classifies a group as recursive iff "
                   "len > 1 or it has a self edge; ready() sorts each layer by source_order; topological_order releases a layer, "
                   "reverses it once and pops; hash-order sources of graph.rs / arena.rs / blocks.rs are all neutralised or audited")
    fn = ARENA + "from_bindings"
    h = ctx.need_hir(rule, fn)
    loc = facts.bodies()[fn]["loc"]
    env = _env(h)
    sorts = [n for n in H.walk(h["body"]) if H.kind(n) == "MethodCall" and n["name"] in ("sort_by_key", "sort_by", "sort_unstable_by_key")]
    keyed = [n for n in sorts if any(c.endswith("::source_order") for _, c in H.calls(n["args"][0]))]
    ctx.check(len(keyed) == 1, rule, "from_bindings:member-order", "from_bindings does not sort the members of a group by source_order "
              "(sorts: %s)" % [A.sexpr(n, env)[:80] for n in sorts], loc, detail={"sort_key": "bindings[id].source_order()"})
    aenv = A.ArmEnv()
    aenv.strip = True
    aenv.bind_params(h)
    aenv.absorb(h["body"])
    iff = next((n for n in H.walk(h["body"]) if H.kind(n) == "If" and H.path_local(n["c"]) and "ContextNode::Recursive" in A.sexpr(n["t"], aenv)), None)
    if iff is None:
        ctx.anchor_lost(rule, "from_bindings: `if recursive { ContextNode::Recursive(..) }` not found")
    else:
        s = aenv.names.get(H.path_local(iff["c"])[0], "?")
        m = re.match(r"^\(Or \(Gt \(alloc::vec::Vec::<T, A>::len (?P<ids>\(.*\))\) 1\) \(core::option::Option::<T>::is_some_and \(core::slice::<impl \[T\]>::first (?P<ids2>\(.*\))\) "
                     r"\(closure \(core::iter::traits::iterator::Iterator::any \(zydeco_utils::graph::DepGraph::<Id>::query \$P2 (?P<id>\$c\d+\.0)\) "
                     r"\(closure \(Eq \(each \(zydeco_utils::graph::DepGraph::<Id>::query \$P2 (?P=id)\)\) (?P=id)\)\)\)\)\)\)$", s)
        ok = m is not None and m.group("ids") == m.group("ids2")
        ctx.check(ok, rule, "from_bindings:recursive", "a group is classified recursive by %s; expected `ids.len() > 1 || dependencies.query(id)"
                  ".any(|dep| dep == id)` for the first member" % s[:260], loc, detail={"recursive_iff": "len > 1 or self edge"})
        ctx.check("ContextNode::Acyclic" in A.sexpr(iff["e"], aenv), rule, "from_bindings:node-kind",
                  "from_bindings no longer builds ContextNode::Recursive for recursive groups and ::Acyclic otherwise", loc,
                  detail={"if_recursive": "Recursive(members)", "else": "Acyclic(first member)"})
    fn = ARENA + "ready"
    h = ctx.need_hir(rule, fn)
    sorts = [n for n in H.walk(h["body"]) if H.kind(n) == "MethodCall" and n["name"].startswith("sort")]
    ok = len(sorts) == 1 and any(c.endswith("::source_order") for _, c in H.calls(sorts[0]["args"][0]))
    tail = H.peel(h["body"]["expr"]) if h["body"].get("expr") is not None else None
    ctx.check(ok and tail is not None and H.path_local(tail) is not None and H.path_local(tail)[0] == (H.path_local(sorts[0]["recv"]) or [None])[0],
              rule, "ready:layer-order", "ready() does not return the layer sorted by source_order", facts.bodies()[fn]["loc"],
              detail={"sort_key": "nodes[node].source_order()"})
    fn = ARENA + "topological_order"
    h = ctx.need_hir(rule, fn)
    names = [n["name"] for n in H.walk(h["body"]) if H.kind(n) == "MethodCall"]
    seq = [x for x in names if x in ("ready", "release", "reverse", "pop", "is_empty")]
    ctx.check(seq == ["pop", "ready", "is_empty", "release", "reverse", "pop"], rule, "topological_order:shape",
              "topological_order is %s; expected pop / ready / is_empty / release / reverse / pop" % seq, facts.bodies()[fn]["loc"],
              detail={"calls": seq})
    # hash-order engine restricted to the anchored files
    with open(os.path.join(VERIF, "rules", "order_exempt.json")) as fh:
        exempt = {e["key"]: e for e in json.load(fh)["exempt"]}
    eng = order.Engine(facts)
    n_src = 0
    for f, ba in sorted(eng.run().items()):
        file = facts.bodies()[f]["loc"][0]
        if file not in ("lang/utils/src/graph.rs", "lang/surface/src/scoped/arena.rs", "lang/surface/src/scoped/blocks.rs",
                        "lang/surface/src/scoped/resolver.rs"):
            continue
        for src, how in ba.discharged:
            n_src += 1
            ctx.ok(rule, "order:%s|%s" % (f, src), {"fn": f, "source": src, "consumer": how})
        for x in ba.findings:
            n_src += 1
            key = x.key()
            if key in exempt:
                ctx.ok(rule, "order:" + key, {"fn": f, "source": x.source, "sink": x.sink, "audited": exempt[key]["reason"][:120]})
            else:
                ctx.violation(rule, "order:" + key, "hash order decides an ordered result in the dependency machinery: in %s, %s => %s"
                              % (f, x.source, x.sink), [file, x.line])
    ctx.floor(rule, "hash-order sources in the dependency machinery", n_src, 8)


def rule_elaboration(ctx):
    rule = "elaboration"
    facts = ctx.facts
    ctx.rule(rule, "ContextElaboration::build folds the reversed topological order from the residual body: Acyclic+Parameter => "
                   "Abs(binder, tail); Acyclic+Definition => Let{binder, bindee, tail}; Recursive => RecGroup{definitions, tail} with "
                   "one RecursiveDefinition{binder, bindee} per Definition and Err(RecursiveParameter) for a Parameter")
    fn = BLOCKS + "ContextElaboration::<'a>::build"
    h = ctx.need_hir(rule, fn)
    loc = facts.bodies()[fn]["loc"]
    env = _env(h)
    tf = next((n for n in H.walk(h["body"]) if H.kind(n) == "MethodCall" and n["name"] == "try_fold"), None)
    if tf is None:
        ctx.anchor_lost(rule, "build: try_fold not found")
        return
    recv = A.sexpr(tf["recv"], env)
    ctx.check(recv == "(core::iter::traits::iterator::Iterator::rev (zydeco_surface::scoped::arena::BindingContext::topological_order (. $P0 context)))"
              and A.sexpr(tf["args"][0], env) == "$P2", rule, "build:fold", "build folds %s from %s; expected topological_order().rev() from "
              "the residual" % (recv[:120], A.sexpr(tf["args"][0], env)), loc, detail={"fold": "topological_order().rev(), init residual"})
    clo = H.peel(tf["args"][1])
    cbody = clo["body"]
    cenv = A.ArmEnv()
    cenv.strip = True
    cenv.names = dict(env.names)
    ps = clo.get("params") or []
    if len(ps) == 2:
        for l, p in A.pat_paths(ps[0]).items():
            cenv.names[l] = "$tail"
        for l, p in A.pat_paths(ps[1]).items():
            cenv.names[l] = "$node"
    m = A.find_match_on(cbody, lambda n: True)
    table = {}
    for a in m["arms"]:
        v = (H.top_variant(A.strip_or(a["pat"])) or "_").split("::")[-1]
        e2 = A.ArmEnv()
        e2.strip = True
        e2.names = dict(cenv.names)
        e2.bind_pat(A.strip_or(a["pat"]))
        e2.absorb(a["body"])
        inner = A.find_match_on(a["body"], lambda n: True)
        for ia in (inner["arms"] if inner else []):
            iv = (H.top_variant(A.strip_or(ia["pat"])) or "_").split("::")[-1]
            e3 = A.ArmEnv()
            e3.strip = True
            e3.names = dict(e2.names)
            e3.bind_pat(A.strip_or(ia["pat"]), "B")
            table[(v, iv)] = A.sexpr(ia["body"], e3)
        if v == "Recursive":
            rg = next((n for n in H.walk(a["body"]) if H.kind(n) == "Struct" and (n["path"].get("def") or "").endswith("RecGroup")), None)
            table[(v, "group")] = A.sexpr(rg, e2) if rg else None
    want = {
        ("Acyclic", "Parameter"): r"^\(zydeco_syntax::Abs \$B/Parameter\.0/Parameter\.binder \$tail\)$",
        ("Acyclic", "Definition"): r"^\(zydeco_syntax::Let binder=\$B/Definition\.0/Definition\.binder bindee=\$B/Definition\.0/Definition\.bindee tail=\$tail\)$",
        ("Recursive", "Definition"): r"^\(core::result::Result::Ok \(zydeco_surface::bitter::syntax::RecursiveDefinition binder=\$B/Definition\.0/Definition\.binder bindee=\$B/Definition\.0/Definition\.bindee\)\)$",
        ("Recursive", "Parameter"): r"^\(core::result::Result::Err \(zydeco_surface::scoped::err::ResolveError::RecursiveParameter ",
        ("Recursive", "group"): r"^\(zydeco_surface::bitter::syntax::RecGroup definitions=.* tail=\$tail\)$",
    }
    for k, rx in want.items():
        got = table.get(k)
        ctx.check(got is not None and re.search(rx, got) is not None, rule, "build:%s:%s" % k,
                  "ContextElaboration::build, %s / %s: builds %s" % (k[0], k[1], (got or "(arm missing)")[:160]), loc,
                  detail={"node": k[0], "form": k[1], "builds": rx.split("::")[-1][:40]})
    ctx.check(set(table) == set(want), rule, "build:arms", "build has arms %s, expected %s" % (sorted(table), sorted(want)), loc,
              detail={"arms": sorted("%s/%s" % k for k in table)})


def rule_fixpoint(ctx):
    rule = "recursive-types-only"
    facts = ctx.facts
    ctx.rule(rule, "the checker's FixPoint judgment: a member that is not syntactically sealed => MissingSeal, not annotated => "
                   "MissingAnnotation, annotation not a kind / bindee not a type => SortMismatch; each propagated with `?`")
    fn = next((p for p in facts.bodies() if re.search(r"FixPoint<.*Binding>>> as zydeco_statics::check::Tyck<'a>>::tyck_inner_k$", p)), None)
    if fn is None:
        ctx.anchor_lost(rule, "Tyck for FixPoint not found")
        return
    h = ctx.need_hir(rule, fn)
    loc = facts.bodies()[fn]["loc"]
    env = _env(h, lets=False)
    gates = {}
    for n in H.walk(h["body"]):
        if H.kind(n) == "Let" and n.get("els") is not None and n.get("init") is not None:
            c = [x.split("::")[-1] for _, x in H.calls(n["init"])]
            errs = [A.sexpr(H.call_args(e)[1], env) for e, x in H.calls(n["els"]) if x.endswith("::err_k")]
            for g in ("syntactically_sealed", "syntactically_annotated"):
                if g in c and errs:
                    gates.setdefault(g, []).append((errs[0].split("::")[-1], H.diverges(n["els"])))
    ok = gates.get("syntactically_sealed", [None])[0] == ("MissingSeal", True) and gates.get("syntactically_annotated") == [("MissingAnnotation", True)]
    ctx.check(ok, rule, "fixpoint:syntactic-gates", "FixPoint: seal/annotation gates are %s" % gates, loc, detail={"gates": {k: v[0][0] for k, v in gates.items() if v}})
    tried = []
    for n in H.walk(h["body"]):
        if H.is_try(n):
            inner = H.try_inner(n)
            c = H.callee(inner) or (inner.get("fn") if H.kind(inner) == "MethodCall" else "") or ""
            if c.endswith("try_as_kind") or c.endswith("try_as_type"):
                args = H.call_args(inner)
                tried.append((c.split("::")[-1], A.sexpr(args[2], env).split("::")[-1]))
    ctx.check(("try_as_kind", "SortMismatch") in tried and ("try_as_type", "SortMismatch") in tried, rule, "fixpoint:sort-gates",
              "FixPoint: sort gates propagated with `?` are %s; expected try_as_kind and try_as_type with SortMismatch" % tried, loc,
              detail={"sort_gates": tried})
    # the only producer of FixPoint judgments is the RecGroup arm
    users = sorted(set(a["fn"].split("::{closure")[0] for t in facts.tags() for a in facts.index(t).get("aggs", [])
                       if (a.get("adt") or "").endswith("check::FixPoint")))
    ctx.check(len(users) == 1, rule, "fixpoint:producers", "FixPoint judgments are built in %s" % users, None, detail={"built_in": users})


def run(ctx):
    rule_edges(ctx)
    rule_block_graph(ctx)
    rule_scc(ctx)
    rule_schedule(ctx)
    rule_elaboration(ctx)
    rule_fixpoint(ctx)
    ctx.assume("Kosaraju's algorithm as audited computes exactly the SCCs (textbook argument); permutation invariance of behaviour "
               "follows from the schedule depending only on the graph and on source_order among independent nodes; neither theorem "
               "is decided here")
    ctx.assume("parameters in different dependency layers are ordered by layer (documented: 'source order only breaks ties')")
    return {}
