"""C09 — imports are hygienic splices over an acyclic, deduplicated source graph (loader / graph walkers / assembly)."""
import re

from .. import armlib as A
from .. import golden
from .. import hirlib as H
from .. import mirlib as M
from . import c01
from . import c07
from . import c15

EXPLANATION = (
    "Equivalence of an import with hand-inlining quantifies over programs and runs and is NOT decided. Decided, all from the "
    "resolved HIR/MIR of lang/session/src/source and textual/source.rs: (1) canonical identity: every key of the dedup map "
    "`seen`, every path handed to the provider and every argument of load_canonical / load_template derives from "
    "SourcePath::identity (or is the caller's own canonical parameter); (2) dedup before recursion: load_template inserts "
    "into `seen` unconditionally before the first load_import / load_signature, and both load_canonical and load_template "
    "return the stored id on a hit; (3) companion edges: load_signature answers `no signature` only when the file has no "
    "companion path or the provider has no such file - a companion already in the graph still yields its edge; (4) gate: "
    "SourceGraph is constructed only in load_root and returned only on the Ok edge of ensure_acyclic(); ensure_acyclic is "
    "Err exactly when the detector returns Some; (5) one successor function: cycle detector and provider order enumerate "
    "successors only through SourceGraph::dependencies, which chains the signature edge and every import edge, and "
    "SourceDependency::target maps each edge kind to its provider; (6) audited flow-sensitive traces (rules/"
    "golden_loader.json) of the loader, the DFS cycle detector (Active/Complete states, path stack and edge stack pushed "
    "and popped in step, the reported cycle is the edge stack from the position of the re-entered source plus the closing "
    "edge, a source is marked Complete only when no cycle was found below it), the post-order provider walk and "
    "ImportSite::decode; (7) assembly: TextualProgramBuilder::import wraps a fresh `source(imported)` in a SourceBoundary per "
    "occurrence and `source` wraps a signature in SignatureBoundary and pairs an implementation with Ann{tm, ty}; the "
    "builder keeps no per-source cache (shared with C07)."
)

LOADER = "zydeco_session::source::loader::SourceGraphLoader::<Provider>::"
GRAPH = "zydeco_session::source::graph::"
IDENTITY = "zydeco_session::source::graph::SourcePath::identity"
CANON_PARAM = {"load_canonical": 1, "load_template": 1}   # fn -> index of the parameter that must be canonical


def _env(h):
    env = A.Env()
    env.strip = True
    env.bind_params(h)
    env.bind_lets(h["body"])
    return env


def _derives_from_identity(s, fn):
    """s: stripped S-expression of a path argument inside loader fn `fn`."""
    s = s.strip()
    while s.startswith("(AddrOf ") or s.startswith("(& "):
        s = s.split(" ", 1)[1][:-1]
    if fn in CANON_PARAM and s == "$P%d" % CANON_PARAM[fn]:
        return True
    m = re.match(r"^\(\? \((?:core::result::Result::<T, E>::map_err )?\(%s " % re.escape(IDENTITY), s)
    if m:
        return True
    return bool(re.match(r"^\(\? \(%s " % re.escape(IDENTITY), s))


def rule_canonical(ctx):
    rule = "canonical-keys"
    facts = ctx.facts
    ctx.rule(rule, "in SourceGraphLoader every key of `seen`, every provider path and every path handed to load_canonical / "
                   "load_template is `SourcePath::identity(..)?` or the function's own canonical parameter")
    n = 0
    for f in ("load_root", "load_canonical", "load_template", "load_signature", "load_import"):
        fn = LOADER + f
        h = ctx.need_hir(rule, fn)
        env = _env(h)
        loc = facts.bodies()[fn]["loc"]
        for node in H.walk(h["body"]):
            k = H.kind(node)
            if k not in ("MethodCall", "Call"):
                continue
            c = H.callee(node) or ""
            args = H.call_args(node)
            arg = None
            what = None
            if re.search(r"HashMap::<K, V, S(, A)?>::(get|insert|contains_key|entry|remove)$", c):
                recv = A.sexpr(args[0], env)
                if recv.endswith(" seen)"):
                    arg, what = args[1], "seen." + c.split("::")[-1]
            elif re.search(r"SourceProvider(>)?::(load|load_optional)$", c):
                arg, what = args[1], "provider." + c.split("::")[-1]
            elif c.endswith("::load_canonical") or c.endswith("::load_template"):
                arg, what = args[1], c.split("::")[-1]
            if arg is None:
                continue
            n += 1
            s = A.sexpr(arg, env)
            ctx.check(_derives_from_identity(s, f), rule, "%s:%s" % (f, what),
                      "%s: the path given to %s is %s, which is not the canonical identity of the file: the same file reached under "
                      "two spellings would be loaded twice" % (f, what, s[:160]), [loc[0], node.get("ln")],
                      detail={"fn": f, "site": what, "path": "identity" if "identity" in s else s})
    ctx.floor(rule, "path uses", n, 9)
    # SourcePath::identity itself: canonicalize first, else canonical ancestor + suffix
    fn = IDENTITY
    h = ctx.need_hir(rule, fn)
    names = [x["name"] for x in H.walk(h["body"]) if H.kind(x) == "MethodCall"]
    ctx.check(names.count("canonicalize") >= 2 and "or_else" in names and "file_name" in names and "parent" in names, rule,
              "identity:shape", "SourcePath::identity no longer canonicalises the path and, failing that, its nearest existing "
              "ancestor (calls: %s)" % names, facts.bodies()[fn]["loc"], detail={"calls": sorted(set(names))})


def rule_dedup(ctx):
    rule = "dedup-before-recursion"
    facts = ctx.facts
    ctx.rule(rule, "load_template stores the new SourceId in `seen` in a top-level statement that precedes every statement "
                   "calling load_import / load_signature (a cyclic import finds its importer instead of recursing forever); "
                   "load_canonical and load_template return the stored id on a hit")
    fn = LOADER + "load_template"
    h = ctx.need_hir(rule, fn)
    loc = facts.bodies()[fn]["loc"]
    body = h["body"]
    while H.kind(body) in ("Use", "Type") or (H.kind(body) == "Block" and not body.get("stmts") and body.get("expr") is not None):
        body = H.peel(body) if H.kind(body) != "Block" else body["expr"]
    stmts = list(body.get("stmts") or []) + ([body["expr"]] if body.get("expr") is not None else [])
    ins = rec = None
    alloc = None
    env = _env(h)
    for i, st in enumerate(stmts):
        for _, c in H.calls(st):
            if re.search(r"HashMap::<K, V, S(, A)?>::insert$", c) and ins is None:
                ins = i
            if (c.endswith("::load_import") or c.endswith("::load_signature")) and rec is None:
                rec = i
            if c.endswith("::alloc") and alloc is None:
                alloc = i
    ctx.check(ins is not None and rec is not None and ins < rec, rule, "load_template:insert-first",
              "load_template: `seen.insert` is statement %s, the first recursive load is statement %s: a file that (transitively) "
              "imports itself is re-entered before it is registered" % (ins, rec), loc, detail={"insert_stmt": ins, "first_recursion_stmt": rec})
    # the inserted value is the id just allocated for this path
    for node in H.walk(h["body"]):
        if H.kind(node) == "MethodCall" and node["name"] == "insert" and A.sexpr(node["recv"], env).endswith(" seen)"):
            v = A.sexpr(node["args"][1], env)
            ctx.check(re.match(r"^\(zydeco_utils::arena::impls::<impl zydeco_utils::arena::ArenaDense<Scope, Id>>::alloc \(\. \$P0 sources\) ", v) is not None,
                      rule, "load_template:insert-value", "load_template registers %s for the path, not the id it allocated" % v[:120],
                      [loc[0], node.get("ln")], detail={"value": "sources.alloc(SourceFile{..})"})
    # hit => return Ok(*stored)
    for f in ("load_canonical", "load_template"):
        fn = LOADER + f
        h = ctx.need_hir(rule, fn)
        env = _env(h)
        hit = None
        for node in H.walk(h["body"]):
            if H.kind(node) == "If" and H.kind(H.peel(node["c"])) == "LetExpr":
                le = H.peel(node["c"])
                init = A.sexpr(le["init"], env)
                if re.search(r"HashMap::<K, V, S(, A)?>::get \(\. \$P0 seen\) \$P1\)$", init):
                    rets = [r for r in H.walk(node["t"]) if H.kind(r) == "Ret"]
                    vals = [A.sexpr(r["e"], _bind(env, le["pat"], init)) for r in rets]
                    hit = vals
        ok = hit is not None and len(hit) == 1 and re.match(r"^\(core::result::Result::Ok \(std::collections::hash::map::HashMap::<K, V, S(, A)?>::get \(\. \$P0 seen\) \$P1\)/Some\.0\)$", hit[0] or "") is not None
        ctx.check(ok, rule, "%s:hit" % f, "%s: a path already in `seen` does not return the stored SourceId (returns %s)" % (f, hit),
                  facts.bodies()[fn]["loc"], detail={"fn": f, "on_hit": "Ok(*stored)"})


def _bind(env, pat, base):
    e = A.Env()
    e.strip = True
    e.names = dict(env.names)
    for loc, path in A.pat_paths(pat).items():
        e.names[loc] = base + "/" + path
    return e


def rule_signature(ctx):
    rule = "signature-edge"
    facts = ctx.facts
    ctx.rule(rule, "load_signature returns Ok(None) only from the else-branch of `let Some(..) = SourceKind::companion(..)` or of "
                   "`let Some(..) = provider.load_optional(..)?`; a hit in `seen` returns Ok(Some(*stored)); otherwise the result is "
                   "load_template(..).map(Some)")
    fn = LOADER + "load_signature"
    h = ctx.need_hir(rule, fn)
    loc = facts.bodies()[fn]["loc"]
    env = _env(h)
    par = {}
    st = [(h["body"], None)]
    while st:
        n, p = st.pop()
        if not isinstance(n, dict):
            continue
        par[id(n)] = p
        for c in H.children(n):
            st.append((c, n))
    nones = 0
    for node in H.walk(h["body"]):
        if H.kind(node) != "Ret" or node.get("e") is None:
            continue
        e = H.peel(node["e"])
        if (H.callee(e) or "").endswith("from_residual"):
            continue
        s = A.sexpr(e, env)
        if s == "(core::result::Result::Ok core::option::Option::None)":
            nones += 1
            # climb to the enclosing let-else
            cur = node
            let = None
            while cur is not None:
                p = par.get(id(cur))
                if p is not None and H.kind(p) == "Let" and p.get("els") is not None and _contains(p["els"], node):
                    let = p
                    break
                cur = p
            src = A.sexpr(let["init"], env) if let is not None else "(not in a let-else)"
            ok = let is not None and (re.match(r"^\(zydeco_session::source::graph::SourceKind::companion \$P1\)$", src)
                                      or re.match(r"^\(\? \(.*SourceProvider(>)?::load_optional \(\. \$P0 provider\) ", src))
            ctx.check(bool(ok), rule, "load_signature:none:%d" % nones,
                      "load_signature answers `no signature` when %s has no value: a companion that exists is dropped from the graph"
                      % src[:140], [loc[0], node.get("ln")], detail={"none_when_absent": src[:90]})
        elif "seen" in s:
            ok = re.match(r"^\(core::result::Result::Ok \(core::option::Option::Some \(Deref ", s) is not None
            ctx.check(ok, rule, "load_signature:hit", "load_signature: a companion already loaded yields %s instead of Some(*stored): "
                      "its signature edge is lost" % s[:140], [loc[0], node.get("ln")], detail={"on_hit": "Ok(Some(*stored))"})
    ctx.check(nones == 2, rule, "load_signature:none-count", "load_signature has %d `Ok(None)` exits, expected 2 (no companion path; "
              "no companion file)" % nones, loc, detail={"none_exits": nones})
    outs = [A.sexpr(o, env) for o in c07._results(h["body"])]
    tail = [o for o in outs if "load_template" in o]
    ctx.check(len(tail) == 1 and tail[0].startswith("(core::result::Result::<T, E>::map (zydeco_session::source::loader::SourceGraphLoader::<Provider>::load_template $P0 "),
              rule, "load_signature:tail", "load_signature does not end in load_template(..).map(Some): %s" % [o[:100] for o in outs], loc,
              detail={"tail": "load_template(identity, template).map(Some)"})


def _contains(root, node):
    return any(x is node for x in H.walk(root))


def rule_gate(ctx):
    rule = "acyclic-gate"
    facts = ctx.facts
    ctx.rule(rule, "SourceGraph is constructed only in SourceGraphLoader::load_root; load_root's Ok return is dominated by the Ok edge "
                   "of ensure_acyclic(); ensure_acyclic is Err exactly when SourceCycleDetector::run() is Some; source_graph (the query) "
                   "obtains graphs only through load_root")
    SG = "zydeco_session::source::graph::SourceGraph"
    sites = _who_constructs(facts, SG)
    ctx.check(sites == [LOADER + "load_root"], rule, "SourceGraph:constructors", "SourceGraph is constructed in %s: only load_root "
              "checks acyclicity" % sites, None, detail={"constructed_in": sites})
    fn = LOADER + "load_root"
    b = ctx.need_mir(rule, fn)
    calls = [bb for bb, t in b.calls() if t["fn"].endswith("::ensure_acyclic")]
    ok_ret = [bb for bb, k, s in b.assignments() if s["d"] == 0 and s["rv"]["k"] == "agg" and s["rv"].get("variant") == "Ok"]
    good = bool(calls) and bool(ok_ret)
    for rb in ok_ret:
        dom = False
        for cb in calls:
            sb = b.success_blocks(cb)
            if sb is not None and b.dominates(sb[0], rb):
                dom = True
        good = good and dom
    ctx.check(good, rule, "load_root:ensure_acyclic", "load_root can return Ok(graph) on a path that is not the success edge of "
              "ensure_acyclic(): a cyclic source graph reaches assembly, which recurses without bound", facts.bodies()[fn]["loc"],
              detail={"ok_returns": len(ok_ret), "dominated_by": "Ok edge of ensure_acyclic"})
    fn = GRAPH + "SourceGraph::ensure_acyclic"
    h = ctx.need_hir(rule, fn)
    m = A.find_match_on(h["body"], lambda n: True)
    env = _env(h)
    scr = A.sexpr(m["scrut"], env) if m else ""
    arms = {}
    for a in (m["arms"] if m else []):
        v = (H.top_variant(A.strip_or(a["pat"])) or "_").split("::")[-1]
        body = H.peel(a["body"])
        arms[v] = (H.callee(body) or A.sexpr(body, env)).split("::")[-1] if H.kind(body) in ("Call", "Struct", "Path") else H.kind(body)
    ok = "SourceCycleDetector" in scr and "::run " in scr and arms.get("Some") == "Err" and arms.get("None") == "Ok" and len(arms) == 2
    ctx.check(ok, rule, "ensure_acyclic:arms", "ensure_acyclic: %s -> %s; expected Some(cycle) => Err, None => Ok over "
              "SourceCycleDetector::new(self).run()" % (scr[:80], arms), facts.bodies()[fn]["loc"], detail={"arms": arms})
    # the steps of the report are a 1:1 map of the detector's edges
    maps = [n for n in H.walk(h["body"]) if H.kind(n) == "MethodCall" and n["name"] in ("map", "filter", "filter_map", "skip", "take", "rev", "flat_map", "chain", "step_by", "skip_while", "take_while")]
    ctx.check([n["name"] for n in maps] == ["map"], rule, "ensure_acyclic:steps", "ensure_acyclic reshapes the detector's edge list with %s "
              "instead of mapping each edge to one step" % [n["name"] for n in maps], facts.bodies()[fn]["loc"],
              detail={"adapters": [n["name"] for n in maps]})
    # callers of load_root / with_provider
    callers = sorted(set(c["from"] for k, cs in facts.calls_to().items() if k.endswith("::load_root") and "SourceGraphLoader" in k
                         for c in cs if c["from"] in facts.bodies() and not facts.bodies()[c["from"]]["tag"].endswith("-test")))
    ctx.check(len(callers) >= 1, rule, "load_root:callers", "load_root has no caller", None, detail={"callers": callers})


def _who_constructs(facts, adt):
    return sorted(c01.who_constructs(facts, adt))


def rule_successors(ctx):
    rule = "one-successor-function"
    facts = ctx.facts
    ctx.rule(rule, "SourceCycleDetector::visit and ProviderOrder::visit enumerate successors only via SourceGraph::dependencies + "
                   "SourceDependency::target and never read SourceFile.imports / .signature themselves; dependencies reads both "
                   "fields; every read of those two fields in non-test code is in an audited function")
    deps = GRAPH + "SourceGraph::dependencies"
    for w in ("SourceCycleDetector::<'graph>::visit", "ProviderOrder::<'graph>::visit"):
        fn = GRAPH + w
        h = ctx.need_hir(rule, fn)
        cs = [c for _, c in H.calls(h["body"])]
        reads = [n["name"] for n in H.walk(h["body"]) if H.kind(n) == "Field" and n["name"] in ("imports", "signature", "imported")]
        ctx.check(cs.count(deps) == 1 and (GRAPH + "SourceDependency::target") in cs and not reads, rule, w.split("::")[0] + ":successors",
                  "%s: successors are not exactly SourceGraph::dependencies(source) mapped through SourceDependency::target "
                  "(dependencies calls=%d, direct field reads=%s)" % (w, cs.count(deps), reads), facts.bodies()[fn]["loc"],
                  detail={"walker": w.split("::")[0], "successors": "dependencies(source).target(graph)"})
    h = ctx.need_hir(rule, deps)
    reads = sorted(set(n["name"] for n in H.walk(h["body"]) if H.kind(n) == "Field" and n["name"] in ("imports", "signature")))
    adapters = [n["name"] for n in H.walk(h["body"]) if H.kind(n) == "MethodCall" and n["name"] in ("filter", "filter_map", "skip", "take", "step_by", "take_while", "skip_while")]
    ctx.check(reads == ["imports", "signature"] and not adapters, rule, "dependencies:both-kinds",
              "SourceGraph::dependencies reads %s with adapters %s: it must yield the signature edge and every import edge" % (reads, adapters),
              facts.bodies()[deps]["loc"], detail={"reads": reads})
    # inventory of readers of SourceFile.imports / .signature
    allowed = {
        deps: "the successor function",
        LOADER + "load_template": "writes the two fields after loading the children",
        "zydeco_session::source::program::TextualProgramBuilder::<'graph>::source": "assembly: pairs the implementation with its signature",
        "zydeco_session::source::program::TextualProgramBuilder::<'graph>::import": "assembly: finds the edge of one import site",
    }
    readers = {}
    for p, bd in facts.bodies().items():
        if bd["tag"] != "zydeco_session" or bd.get("expn"):
            continue
        h = facts.hir(p)
        if h is None:
            continue
        for n in H.walk(h["body"]):
            if H.kind(n) == "Field" and n["name"] in ("imports", "signature"):
                t = (n.get("recv_ty") or H.peel(n["e"]).get("ty") or "")
                if "SourceFile" in t:
                    readers.setdefault(p, set()).add(n["name"])
    ctx.note("%s: readers of SourceFile.imports/.signature: %s" % (rule, {k.split("::")[-1]: sorted(v) for k, v in readers.items()}))
    for p in sorted(readers):
        ctx.check(p in allowed, rule, "reader:%s" % p.split("source::")[-1], "%s reads SourceFile.%s: a second enumeration of graph edges can "
                  "disagree with SourceGraph::dependencies" % (p, sorted(readers[p])), facts.bodies()[p]["loc"],
                  detail={"reader": p.split("source::")[-1], "audited": allowed.get(p)})
    ctx.floor(rule, "readers of the edge fields", len(readers), 2)


def run(ctx):
    ctx.rule("loader-trace", "every audited function of the loader, the graph walkers and ImportSite::decode performs the audited "
                             "sequence of operations (rules/golden_loader.json)")
    golden.check(ctx, "loader-trace", "golden_loader.json")
    ctx.rule("assembly-trace", "TextualProgramBuilder::import / ::source build SourceBoundary(source(imported)) per occurrence and "
                               "Ann{tm: implementation, ty: SignatureBoundary(signature)} (rules/golden_scope.json, shared with C07)")
    golden.check(ctx, "assembly-trace", "golden_scope.json", only={"TextualProgramBuilder::import", "TextualProgramBuilder::source"})
    rule_canonical(ctx)
    c15.rule_path_spelling(ctx)
    rule_dedup(ctx)
    rule_signature(ctx)
    rule_gate(ctx)
    rule_successors(ctx)
    rule_error_attribution(ctx)
    c07.rule_fresh_clone(ctx)
    ctx.assume("`import = inlining` as a behavioural equivalence is NOT decided; scoping at the boundary is C07; the file system "
               "behaviour of Path::canonicalize is trusted")
    return {}


def rule_error_attribution(ctx):
    rule = "error-attribution"
    facts = ctx.facts
    ctx.rule(rule, "an edge that cannot be followed is reported for the import site where it was written: load_import rewraps as ITS OWN "
                   "import error only the provider's `Read` failure (the file this site names could not be read); every other error of "
                   "the provider's load — an ImportPath / ImportInput of a deeper site, a cycle — passes through unchanged. Rewrapping "
                   "those re-attributes a file missing deep in the graph at every hop, and the report names an importer and a path that "
                   "exist")
    fn = next((k for k in facts.bodies() if k.endswith("::load_import") and "SourceGraphLoader" in k and "{closure" not in k), None)
    if fn is None:
        ctx.anchor_lost(rule, "SourceGraphLoader::load_import not found")
        return
    h = ctx.need_hir(rule, fn)
    found = False
    for c in H.walk(h["body"]):
        if not (H.kind(c) == "MethodCall" and c["name"] == "map_err" and any(H.kind(y) in ("Call", "MethodCall") and (H.callee(y) or "").endswith("::load_canonical")
                                                                               for y in H.walk(c["recv"]))):
            continue
        for m in H.walk(c["args"][0]):
            if H.kind(m) != "Match":
                continue
            found = True
            rewrapped = set()
            passthrough = False
            for a in m["arms"]:
                vs = {v.split("::")[-1] for v in H.pat_variants(a["pat"]) if "SourceLoadError::" in v}
                calls_wrap = any(H.kind(y) == "Call" and H.kind(y.get("f") or {}) == "Path" and (y["f"].get("res") or {}).get("name") == "import_error"
                                 for y in H.walk(a["body"]))
                if vs and calls_wrap:
                    rewrapped |= vs
                    g = a.get("guard")
                    own_path = g is not None and any(H.kind(y) == "Binary" and y.get("op") == "Eq" for y in H.walk(g)) and \
                        any(b.get("name") == "path" for b in H.pat_bindings(a["pat"]))
                    ctx.check(own_path, rule, "load_import:read-of-the-requested-path", "load_import rewraps EVERY Read failure of the provider's "
                              "load as its own import error: the provider's companion `.zyi` is read by the same load, and an unreadable "
                              "companion (a directory `lib.zyi`) is reported as `cannot resolve import lib.zy`, a file that is fine; the arm "
                              "must compare the error's path with the requested one", [facts.bodies()[fn]["loc"][0], a.get("ln")])
                if not vs and H.kind(H.peel(a["body"])) == "Path":
                    passthrough = True
            ctx.check(rewrapped == {"Read"} and passthrough, rule, "load_import:only-read-rewrapped", "load_import rewraps %s of the provider's load as "
                      "its own import error (pass-through arm: %s); only `Read` is this site's failure" % (sorted(rewrapped), passthrough),
                      [facts.bodies()[fn]["loc"][0], m.get("ln")], detail={"rewrapped": sorted(rewrapped)})
    if not found:
        ctx.anchor_lost(rule, "no map_err over load_canonical(..) in load_import")
