"""BuiltinClassifierMatcher arm obligations (shared by C01 and C06): a host role attaches only to its ABI classifier."""
import re

from .. import armlib as A
from .. import hirlib as H

B = "zydeco_statics::builtin::BuiltinClassifierMatcher::<'a>::"
W = r"\(zydeco_statics::arena::BuiltinRoles::witness \(\. \(\. \$P0 statics\) builtin_roles\) "

# function -> pattern shape -> regex the arm body's canonical form must match (either operand order of Eq/And accepted)
OBLIGATIONS = {
    "matches_value": {
        "(Some(Primitive(PrimitiveTy(_))),Atom(_))": [
            r"^\(Eq \(zydeco_statics::builtin::BuiltinValueAtom::primitive \$T1/Atom\.0\) \(core::option::Option::Some \$T0/Some\.0/Primitive\.0/PrimitiveTy\.0\)\)$",
            r"^\(Eq \(core::option::Option::Some \$T0/Some\.0/Primitive\.0/PrimitiveTy\.0\) \(zydeco_statics::builtin::BuiltinValueAtom::primitive \$T1/Atom\.0\)\)$"],
        "(Some(Abst(_)),Atom(_))": [
            r"^\(core::option::Option::<T>::is_some_and \(zydeco_statics::builtin::BuiltinValueAtom::capability_role \$T1/Atom\.0\) "
            r"\(closure \(Eq " + W + r"\$T0/Some\.0/Abst\.0\) \(core::option::Option::Some \(zydeco_syntax::BuiltinRole::Type \$c0\.0\)\)\)\)\)$"],
        "(Some(App(App(_,_))),Thunk(_))": [
            r"^\(And \(" + re.escape(B) + r"matches_constructor \$P0 \$T0/Some\.0/App\.0/App\.0 zydeco_statics::builtin::IntrinsicConstructor::Thunk\) "
            r"\(" + re.escape(B) + r"matches_computation \$P0 \$T0/Some\.0/App\.0/App\.1 \$T1/Thunk\.0\)\)$"],
    },
    "matches_computation": {
        "(Some(Abst(_)),OS)": [
            r"^\(Eq " + W + r"\$T0/Some\.0/Abst\.0\) \(core::option::Option::Some \(zydeco_syntax::BuiltinRole::Type zydeco_syntax::BuiltinTypeRole::OS\)\)\)$"],
        "(Some(Abst(_)),Bound(_))": [
            r"^\(core::option::Option::<T>::is_some_and \(.*::nth \(.*rev \(core::slice::<impl \[T\]>::iter \(\. \$P0 computation_binders\)\)\) \$T1/Bound\.0\) "
            r"\(closure \(Eq \$c0\.0 \$T0/Some\.0/Abst\.0\)\)\)$"],
        "(Some(App(App(_,_))),Return(_))": [
            r"^\(And \(" + re.escape(B) + r"matches_constructor \$P0 \$T0/Some\.0/App\.0/App\.0 zydeco_statics::builtin::IntrinsicConstructor::Return\) "
            r"\(" + re.escape(B) + r"matches_value \$P0 \$T0/Some\.0/App\.0/App\.1 \$T1/Return\.0\)\)$"],
        "(Some(Arrow(Arrow(_,_))),Arrow(_,_))": [
            r"^\(And \(" + re.escape(B) + r"matches_value \$P0 \$T0/Some\.0/Arrow\.0/Arrow\.0 \$T1/Arrow\.0\) "
            r"\(" + re.escape(B) + r"matches_computation \$P0 \$T0/Some\.0/Arrow\.0/Arrow\.1 \$T1/Arrow\.1\)\)$"],
        "(Some(Forall(Forall(_,_))),ForallCType(_))": [
            r"^\(if \(" + re.escape(B) + r"witness_is_ctype \$P0 \(\. \$T0/Some\.0/Forall\.0/Forall\.0 witness\)\) \(block \.\.\.\) False\)$"],
    },
    "matches_constructor": {
        "Some(Thk(_))": [r"^\(Eq \$P2 zydeco_statics::builtin::IntrinsicConstructor::Thunk\)$", r"^\(Eq zydeco_statics::builtin::IntrinsicConstructor::Thunk \$P2\)$"],
        "Some(Ret(_))": [r"^\(Eq \$P2 zydeco_statics::builtin::IntrinsicConstructor::Return\)$", r"^\(Eq zydeco_statics::builtin::IntrinsicConstructor::Return \$P2\)$"],
    },
    "matches_entry": {
        "Some(Label(Label(_,_)))": [r"^\(" + re.escape(B) + r"matches_value \$P0 \$Some\.0/Label\.0/Label\.1 \$P2\)$"],
    },
}


def check_matcher(ctx, rule):
    ctx.rule(rule, "BuiltinClassifierMatcher: every decisive arm compares the actual type with the expected classifier "
                   "(primitive = expected primitive, capability witness role = expected role, OS witness = OS role, bound "
                   "variable = the binder at that index, constructor and body both match, both sides of an arrow match); "
                   "transparent arms (Named, Var) recurse with the same expectation; every other case is `false`")
    facts = ctx.facts
    for f, table in OBLIGATIONS.items():
        fn = B + f
        h = ctx.need_hir(rule, fn)
        loc = facts.bodies()[fn]["loc"]
        env = A.Env()
        env.bind_params(h)
        m = next((n for n in H.walk(h["body"]) if H.kind(n) == "Match" and not n.get("src")), None)
        if m is None:
            ctx.anchor_lost(rule, "%s: no match" % f)
            continue
        seen = set()
        has_default = False
        for a in m["arms"]:
            shape = A.pat_shape(a["pat"])
            e = A.Env()
            e.names = dict(env.names)
            e.bind_pat(A.strip_or(a["pat"]))
            body = A.sexpr(a["body"], e)
            if shape in table:
                seen.add(shape)
                ok = any(re.match(rx, body) for rx in table[shape])
                ctx.check(ok, rule, "%s:%s" % (f, shape),
                          "%s arm %s decides with %s: it no longer compares the actual type with the role's expected classifier"
                          % (f, shape, body[:300]), [loc[0], a["ln"]], detail={"fn": f, "arm": shape, "decides": body[:200]})
            elif H.pat_is_catch_all(A.strip_or(a["pat"])):
                has_default = True
                ctx.check(body == "False", rule, "%s:default" % f, "%s accepts by default (%s)" % (f, body[:100]), [loc[0], a["ln"]],
                          detail={"fn": f, "default": "false"})
            else:
                # transparent arm: must recurse into the same matcher family passing the same expectation ($P2)
                calls = [c for _, c in H.calls(a["body"]) if c.startswith(B + "matches_")]
                ok = bool(calls) and "$P2" in body and not re.search(r"\bTrue\b", body)
                ctx.check(ok or body == "False", rule, "%s:%s" % (f, shape),
                          "%s arm %s (%s) neither rejects nor recurses with the unchanged expectation" % (f, shape, body[:200]),
                          [loc[0], a["ln"]], detail={"fn": f, "arm": shape, "transparent": True})
        for shape in table:
            if shape not in seen:
                ctx.violation(rule, "%s:%s:missing" % (f, shape), "%s has no arm %s any more" % (f, shape), loc)
        ctx.check(has_default, rule, "%s:has-default" % f, "%s has no rejecting default arm" % f, loc, detail={"fn": f})
    # the validator is on the linking path: BuiltinPackagePlan::for_executable calls validate with `?`
    callers = [c["from"] for c in facts.calls() if c["to"].endswith("BuiltinSignatureValidator::<'a>::validate")]
    ctx.check(any("BuiltinPackagePlan" in c for c in callers), rule, "validator-on-link-path",
              "BuiltinSignatureValidator::validate is not called from BuiltinPackagePlan (callers: %s)" % callers[:4], None,
              detail={"callers": sorted(set(callers))[:4]})
