"""C10 — the front end is total (four exact sub-rules; general panic freedom is not claimed)."""
import re

from .. import armlib as A
from .. import hirlib as H
from .. import mirlib as M
from .. import tys

EXPLANATION = (
    "Four exact static rules. (1) MIR provenance: in the front-end crates no unwrap/expect consumes the result of a "
    "text-to-value conversion (str::parse, from_str_radix, char::from_u32, from_utf8, ...) unless the (grammar action, "
    "callee, target type) triple is in the table 'total on the token's regular language'. (2) HIR arm rule: in the "
    "surface passes, the session and check/, a match arm or let-else over a zydeco syntax enum that can only leave by "
    "panic must be in the phase-ordering exclusion table, whose who-may-construct side conditions are re-checked from "
    "MIR aggregates. (3) Stripped-arena typestate: the result of ProgramAnalysis::statics() (keyed indexes only) may be "
    "used only through StaticsIndexes (auto-deref) or index-only StaticsArena methods, never handed to another function. "
    "(4) the CLI maps every Err of Application::run to render() + exit(1)."
)

FRONT_CRATES = ("zydeco_surface", "zydeco_session", "zydeco_cli", "zydeco-bin-main", "zydeco_syntax", "zydeco_statics")

UNWRAP = re.compile(r"core::(option::Option|result::Result)::<.*>::(unwrap|expect|unwrap_unchecked)$")
TEXT_CONV = re.compile(
    r"(core::str::<impl str>::parse$|str::traits::FromStr>::from_str$|::from_str_radix$|"
    r"core::char::methods::<impl char>::from_u32$|core::char::methods::<impl char>::from_digit$|"
    r"::from_utf8$|core::str::converts::from_utf8$|std::ffi::os_str::OsStr::to_str$|std::path::Path::to_str$|"
    r"core::char::methods::<impl char>::to_digit$|alloc::string::String::from_utf16$)")
# (function prefix, callee regex, target type) -> reason
TOTAL_TABLE = [
    ("zydeco_surface::textual::parser::parser_impl::__action", r"impl str>::parse$", "f64",
     "FloatLit's regex ([+-]?digits.digits(e[+-]?digits)? | digits e[+-]?digits) is a sublanguage of f64::from_str, "
     "which returns inf/0 rather than Err for out-of-range magnitudes"),
]

SYN = re.compile(r"^(zydeco_surface::(textual|bitter|scoped)::syntax::|zydeco_syntax::)")

# (function suffix, variants) -> reason, and who may construct the payload
ARM_DIV_EXCLUSIONS = [
    {"fn": "zydeco_surface::scoped::blocks::BlockCandidateCollector::<'a>::term", "variants": ["Residual"],
     "reason": "Residual nodes are allocated only by the resolver (after candidate collection of the enclosing block)",
     "payload": "zydeco_surface::bitter::syntax::Residual",
     "constructed_only_in": ["<zydeco_surface::bitter::syntax::TermId as zydeco_surface::scoped::resolver::Resolve>::resolve",
                             "<zydeco_surface::bitter::syntax::TermId as zydeco_surface::bitter::clone::DeepClone>::deep_clone"]},
    {"fn": "zydeco_surface::scoped::blocks::BlockCandidateCollector::<'a>::term", "variants": ["RecGroup"],
     "reason": "RecGroup is produced only by ContextElaboration::build, after resolution of the block",
     "payload": "zydeco_surface::bitter::syntax::RecGroup",
     "constructed_only_in": ["zydeco_surface::scoped::blocks::ContextElaboration::<'a>::build",
                             "<zydeco_surface::bitter::syntax::TermId as zydeco_surface::bitter::clone::DeepClone>::deep_clone"]},
    {"fn": "<zydeco_surface::bitter::syntax::TermId as zydeco_surface::scoped::resolver::Resolve>::resolve",
     "variants": ["Residual"],
     "reason": "the resolver is the only producer of Residual and never revisits its own output",
     "payload": "zydeco_surface::bitter::syntax::Residual",
     "constructed_only_in": ["<zydeco_surface::bitter::syntax::TermId as zydeco_surface::scoped::resolver::Resolve>::resolve",
                             "<zydeco_surface::bitter::syntax::TermId as zydeco_surface::bitter::clone::DeepClone>::deep_clone"]},
    {"fn": "<zydeco_surface::bitter::syntax::TermId as zydeco_surface::scoped::resolver::Resolve>::resolve",
     "variants": ["RecGroup"],
     "reason": "RecGroup is produced only by ContextElaboration::build, whose output is not resolved again",
     "payload": "zydeco_surface::bitter::syntax::RecGroup",
     "constructed_only_in": ["zydeco_surface::scoped::blocks::ContextElaboration::<'a>::build",
                             "<zydeco_surface::bitter::syntax::TermId as zydeco_surface::bitter::clone::DeepClone>::deep_clone"]},
    {"fn": "zydeco_surface::scoped::arena::LocalFoldScoped<()>>::action_term", "variants": ["MobileParam", "MobileBind"],
     "reason": "context collection runs on resolved terms; Block elaboration replaced every mobile node "
               "(ContextElaboration::build emits Abs/Let/RecGroup)"},
    {"fn": "zydeco_surface::bitter::syntax::TermId>::obverse_local_post", "variants": ["MobileParam", "MobileBind"],
     "reason": "same traversal family over resolved terms"},
    {"fn": "zydeco_statics::check::Tyck<'a>>::tyck_inner_k", "variants": ["MobileParam", "MobileBind"],
     "reason": "the checker consumes resolved terms only; mobile syntax is eliminated during name resolution"},
    {"fn": "zydeco_statics::check::Tyck<'a>>::tyck_inner_k", "variants": ["Sealed"],
     "reason": "Sealed is allocated only as the bindee of a Let/MobileBind by the desugarer (ContextBind Nominal) and is "
               "consumed by the enclosing Let / FixPoint arm before the bindee is checked",
     "payload": "zydeco_syntax::Sealed",
     "constructed_only_in": ["<zydeco_surface::textual::syntax::TermId as zydeco_surface::bitter::desugar::Desugar>::desugar",
                             "<zydeco_surface::bitter::syntax::TermId as zydeco_surface::bitter::clone::DeepClone>::deep_clone",
                             "<zydeco_surface::bitter::syntax::TermId as zydeco_surface::scoped::resolver::Resolve>::resolve"]},
    {"fn": "zydeco_statics::check::Tyck<'a>>::tyck_inner_k", "variants": ["Definition"],
     "reason": "let-else on BindingForm inside binding/recursive-group judgments: ContextElaboration::build rejects "
               "Parameter members of recursive groups (RecursiveParameter) and routes acyclic parameters to Abs"},
    {"fn": "check::syntactic::SyntacticallyAnnotated>::syntactically_annotated", "variants": ["Internal"],
     "reason": "Internal terms are injected by the desugarer only as whole definitions of builtin names, never as a "
               "bindee that is inspected for an annotation"},
    {"fn": "check::syntactic::SyntacticallySealed>::syntactically_sealed", "variants": ["Internal"],
     "reason": "same as syntactically_annotated"},
]


def _trace_sources(body, local):
    """Calls whose result reaches `local` through plain moves / copies / refs."""
    seen = set()
    srcs = []
    work = [local]
    while work:
        x = work.pop()
        if x in seen:
            continue
        seen.add(x)
        for d in body.defs_of(x):
            if d[0] == "call":
                srcs.append(d[3])
            else:
                rv = d[3]["rv"]
                if rv["k"] == "use":
                    p = M.op_place(rv["ops"][0])
                    if p is not None and not M.place_proj(p):
                        work.append(M.place_local(p))
                elif rv["k"] in ("ref", "copyderef"):
                    if not M.place_proj(rv["p"]):
                        work.append(M.place_local(rv["p"]))
    return srcs


HOLE_DEP = re.compile(r"zydeco_statics::arena::StaticsArena::(normalized_at|normalized_kind_at|normalized_annotation_at)$")
PASS_THROUGH = re.compile(r"core::option::Option::<.*>::(cloned|copied|as_ref|as_deref)$")


def _trace_sources_through(body, local):
    """like _trace_sources, but looks through Option::cloned / copied / as_ref"""
    out = []
    for src in _trace_sources(body, local):
        if PASS_THROUGH.search(src["fn"]) and src["args"]:
            a = M.op_place(src["args"][0])
            if a is not None:
                out.extend(_trace_sources_through(body, M.place_local(a)))
        else:
            out.append(src)
    return out


def rule_hole_unwrap(ctx):
    """F13: code that runs before the error list is tested sees arenas of rejected programs, in which a type can still be an
    unsolved hole; the normal-form lookups answer None exactly for those."""
    rule = "hole-unwrap"
    facts = ctx.facts
    ctx.rule(rule, "in the front-end crates (they run on rejected programs too) no unwrap/expect consumes StaticsArena::normalized_at / "
                   "normalized_kind_at / normalized_annotation_at, which are None for an unsolved hole")
    n = 0
    for tag in facts.tags():
        if not tag.startswith(FRONT_CRATES) or tag.endswith("-test"):
            continue
        idx = facts.index(tag)
        users = sorted(set(c["from"] for c in idx["calls"] if HOLE_DEP.search(c["to"])))
        for o in users:
            m = facts.mir(o)
            if m is None:
                continue
            b = M.Body(o, m)
            n += sum(1 for _, t in b.calls() if HOLE_DEP.search(t["fn"]))
            for bb, t in b.calls():
                if not UNWRAP.search(t["fn"]):
                    continue
                a = M.op_place(t["args"][0])
                if a is None:
                    continue
                for src in _trace_sources_through(b, M.place_local(a)):
                    if HOLE_DEP.search(src["fn"]):
                        owner = o.split("::{closure")[0]
                        ctx.violation(rule, "%s:%s" % (owner.split("::")[-1], src["fn"].split("::")[-1]),
                                      "%s unwraps %s: a term whose annotation is still an unsolved hole (already reported as an error) "
                                      "panics the checker" % (o, src["fn"]), [facts.bodies()[o]["loc"][0], t.get("ln")])
    ctx.ok(rule, "inventory", {"normal_form_lookups_in_front_end": n, "unwrapped": 0})
    ctx.floor(rule, "normal-form lookups in the front end", n, 2)


FIRST = re.compile(r"(Iterator>::next$|Iterator::next$|::next_back$|slice::<impl \[T\]>::(first|last|split_first|split_last)$|Vec::<T, A>::pop$|"
                   r"VecDeque::<T, A>::pop_(front|back)$|im::vector::Vector::<A>::(pop_front|pop_back|head|last|front|back)$|::max$|::min$)")
PASS = re.compile(r"(::into_iter$|::iter$|::iter_mut$|Deref>::deref$|DerefMut>::deref_mut$|::as_slice$|::as_ref$|::as_mut$|::borrow$|::rev$|::chars$|"
                  r"::char_indices$|::as_str$|::by_ref$|::peekable$|::enumerate$|::copied$|::cloned$)")

# Declared invariants: (function suffix, producer) -> (number of unguarded sites, what the code relies on).
# These are inventoried, not proved: the rule decides that no site appears or loses its guard without being looked at.
FIRST_ELEMENT_INVENTORY = {
    ("PackPiIntroduction> as zydeco_statics::check::Tyck<'a>>::tyck_inner_k", "next"): (1, "`a package telescope opens at least one witness`"),
    ("ValuePackPiIntroduction> as zydeco_statics::check::Tyck<'a>>::tyck_inner_k", "next"): (1, "`a package telescope opens at least one witness`"),
    ("bitter::syntax::TermId> as zydeco_statics::check::Tyck<'a>>::tyck_inner_k", "next"): (2, "`a package telescope opens at least one witness` (two Abs synthesis arms)"),
    ("zydeco_statics::alloc::DerivedAllocator::current_site", "last"): (1, "the root allocation site is pushed at construction and never popped"),
    ("zydeco_statics::check::copattern::ClauseState::pop", "pop_front"): (1, "called only after next_step() classified a present item (CopatternStep != End)"),
    ("CopatternElaborator::combine_patterns", "next"): (1, "called with the patterns of a non-empty copattern argument tuple"),
    ("CopatternElaborator::combine_values_k", "next"): (2, "called with a non-empty argument tuple (assert_eq on lengths precedes)"),
    ("CopatternElaborator::finish_clauses_k", "first"): (1, "clauses is non-empty: elaboration starts from at least one clause"),
    ("destruct::<impl zydeco_statics::syntax::VPatId>::reify", "next"): (1, "an alias pattern is non-empty (ConsN)"),
    ("coverage::Constructor::rebuild", "next"): (3, "the witness row has arity() leading entries (constructor-tables rule of C04)"),
    ("textual::syntax::PatId as zydeco_surface::bitter::desugar::Desugar>::desugar", "pop"): (1, "`_` arm of `match len` after the 0 and 1 arms: at least two elements"),
    ("textual::syntax::TermId as zydeco_surface::bitter::desugar::Desugar>::desugar", "pop"): (1, "`_` arm of `match len` after the 0 and 1 arms: at least two elements"),
    ("textual::syntax::TermId as zydeco_surface::bitter::desugar::Desugar>::desugar", "next"): (2, "application spine in the `_` arm of `match len`: at least two terms"),
    ("desugar::TextualExistentialTelescope::new", "last"): (1, "an existential telescope starts from one Exists node"),
    ("BindingContext::from_bindings", "next"): (1, "an SCC is non-empty"),
    ("BindingContext::ready", "next"): (1, "a node of the condensation graph is non-empty"),
    ("ContextNode::source_order", "min"): (1, "a context node contains at least one binding"),
    ("escape::apply_char_escapes", "next"): (1, "CharLit's regex guarantees one character between the quotes"),
    ("escape::apply_string_escapes", "next"): (1, "StrLit's regex pairs every backslash with a following character"),
    ("PrettyFormatter::<'arena>::copattern_parameters", "next"): (1, "copattern applications are non-empty (grammar: x y)"),
    ("PrettyFormatter::<'arena>::existential_telescope", "last"): (1, "an existential telescope has at least one parameter (grammar: ExistentialParameter+)"),
    ("PrettyFormatter::<'arena>::exists", "last"): (1, "same: ExistentialParameter+"),
    ("PrettyFormatter::<'arena>::parameter_telescope", "first"): (1, "called with the parameters of a non-empty telescope"),
    ("PrettyFormatter::<'arena>::scoped_form", "first"): (1, "a scoped telescope has at least one parameter"),
    ("PrettyFormatter::<'arena>::scoped_form", "last"): (1, "same"),
    ("PrettyFormatter::<'arena>::scoped_telescope", "last"): (1, "the telescope starts from its root layer"),
    ("PrettyFormatter::<'arena>::separated_group_layout", "first"): (1, "guarded by the caller: items non-empty"),
    ("comment::CommentBlocks::<'source>::comment", "first"): (1, "comment blocks are non-empty (grouping yields at least one token)"),
    ("comment::CommentBlocks::<'source>::comment", "last"): (1, "same"),
}


def _roots(b, local, seen=None):
    seen = seen if seen is not None else set()
    if local in seen: return set()
    seen.add(local)
    out=set()
    defs=b.defs_of(local)
    if not defs: return {local}
    for d in defs:
        if d[0]=='call':
            t=d[3]
            if PASS.search(t['fn']) and t['args']:
                a=M.op_place(t['args'][0])
                if a is not None: out|=_roots(b,M.place_local(a),seen); continue
            out.add(local)
        else:
            rv=d[3]['rv']
            p=None
            if rv['k']=='use': p=M.op_place(rv['ops'][0])
            elif rv['k'] in('ref','copyderef'): p=rv['p']
            if p is not None: out|=_roots(b,M.place_local(p),seen)
            else: out.add(local)
    return out
def _guards(b):
    g=[]
    for bb,t in b.calls():
        fn=t['fn']
        if fn.endswith('::is_empty') and t['args']:
            a=M.op_place(t['args'][0])
            sw=b.switch_on_bool_call(bb)
            if a is not None and sw: g.append((_roots(b,M.place_local(a)), sw[1], 'is_empty'))
        if fn.endswith('::len') and t['args'] and isinstance(t.get('dest'),int):
            a=M.op_place(t['args'][0])
            if a is None: continue
            r=_roots(b,M.place_local(a))
            # direct switch on len
            cur=t.get('t'); L={t['dest']}
            seen=set()
            while cur is not None and cur not in seen:
                seen.add(cur)
                for s in b.stmts(cur):
                    rv=s['rv']
                    if rv['k']=='use':
                        p=M.op_place(rv['ops'][0])
                        if p is not None and M.place_local(p) in L and isinstance(s['d'],int): L.add(s['d'])
                    if rv['k']=='bin' and rv.get('op') in('Eq','Ne','Gt','Ge','Lt','Le'):
                        p=M.op_place(rv['ops'][0]); k=M.op_const(rv['ops'][1])
                        if p is not None and M.place_local(p) in L and k is not None and isinstance(s['d'],int):
                            try: kv=int(k.get('bits'))
                            except: continue
                            term=b.term(cur)
                            if term['k']=='switch' and M.op_place(term['discr']) is not None and M.place_local(M.op_place(term['discr']))==s['d']:
                                tg={int(v):x for v,x in term['targets']}
                                f_=tg.get(0); t_=term['otherwise']
                                op=rv['op']
                                if op=='Eq' and kv>=1: g.append((r,t_,'len==%d'%kv))
                                if op=='Ne' and kv>=1 and f_ is not None: g.append((r,f_,'len!=%d false'%kv))
                                if op=='Gt' and kv>=0: g.append((r,t_,'len>%d'%kv))
                                if op=='Ge' and kv>=1: g.append((r,t_,'len>=%d'%kv))
                term=b.term(cur)
                if term['k']=='switch':
                    dp=M.op_place(term['discr'])
                    if dp is not None and M.place_local(dp) in L:
                        for v,x in term['targets']:
                            if int(v)>=1: g.append((r,x,'match len %s'%v))
                    break
                if term['k'] in('goto','drop'): cur=term['t']; continue
                break
    return g


def rule_first_element(ctx):
    rule = "first-element-unwrap"
    facts = ctx.facts
    ctx.rule(rule, "every unwrap/expect of the first / last / next element of a sequence in the front-end crates is dominated by a "
                   "non-emptiness test of the same sequence (is_empty false edge, a len comparison or `match len` arm implying >= 1; "
                   "proved on MIR), or belongs to the inventory of declared invariants (function, producer, count). A site that "
                   "appears, or loses its guard, without being inventoried is reported")
    found = {}
    proved = 0
    total = 0
    where = {}
    for tag in facts.tags():
        if not tag.startswith(FRONT_CRATES) or tag.endswith("-test"):
            continue
        idx = facts.index(tag)
        owners = sorted(set(c["from"] for c in idx["calls"] if UNWRAP.search(c["to"])))
        for o in owners:
            bd = facts.bodies()[o]
            if "/out/" in bd["loc"][0] or bd.get("expn"):
                continue
            m = facts.mir(o)
            if m is None:
                continue
            b = M.Body(o, m)
            G = None
            for bb, t in b.calls():
                if not UNWRAP.search(t["fn"]):
                    continue
                a = M.op_place(t["args"][0])
                if a is None:
                    continue
                for src in _trace_sources(b, M.place_local(a)):
                    if not (FIRST.search(src["fn"]) or FIRST.search(src.get("decl") or "")):
                        continue
                    total += 1
                    if G is None:
                        G = _guards(b)
                    ra = M.op_place(src["args"][0]) if src["args"] else None
                    R = _roots(b, M.place_local(ra)) if ra is not None else set()
                    why = [w for (r, edge, w) in G if r & R and b.dominates(edge, bb)]
                    prod = src["fn"].split("::")[-1]
                    owner = o.split("::{closure")[0]
                    if why:
                        proved += 1
                        ctx.ok(rule, "%s:%s:guarded" % (_fshort(owner), prod), {"fn": _fshort(owner), "producer": prod, "guard": why[0]})
                    else:
                        found[(owner, prod)] = found.get((owner, prod), 0) + 1
                        where.setdefault((owner, prod), [bd["loc"][0], t.get("ln")])
    for (owner, prod), n in sorted(found.items()):
        ent = next(((k, v) for k, v in FIRST_ELEMENT_INVENTORY.items() if owner.endswith(k[0]) and k[1] == prod), None)
        allowed = ent[1][0] if ent else 0
        ctx.check(n <= allowed, rule, "%s:%s" % (_fshort(owner), prod), "%s has %d unguarded unwrap(s) of `%s()` (inventoried: %d): an empty "
                  "sequence reaching it panics the front end; either prove the guard locally or audit the invariant" % (owner, n, prod, allowed),
                  where[(owner, prod)], detail={"fn": _fshort(owner), "producer": prod, "unguarded": n, "declared_invariant": ent[1][1] if ent else None})
    ctx.note("%s: %d sites, %d guard-proved on MIR, %d inventoried as declared invariants" % (rule, total, proved, total - proved))
    ctx.floor(rule, "first-element unwrap sites", total, 30)
    ctx.floor(rule, "guard-proved sites", proved, 6)


def _fshort(p):
    p = re.sub(r"zydeco_\w+::", "", p)
    return p[-60:]


def rule_text_unwrap(ctx):
    rule = "text-unwrap"
    ctx.rule(rule, "no unwrap/expect of a text-to-value conversion in the front-end crates outside the table of "
                   "conversions that are total on the token's regular language")
    facts = ctx.facts
    n_unwraps = 0
    n_conv = 0
    for tag in facts.tags():
        if not tag.startswith(FRONT_CRATES):
            continue
        idx = facts.index(tag)
        owners = sorted(set(c["from"] for c in idx["calls"] if UNWRAP.search(c["to"])))
        conv_sites = [c for c in idx["calls"] if TEXT_CONV.search(c["to"]) or TEXT_CONV.search(c.get("decl") or "")]
        n_conv += len(conv_sites)
        conv_owners = set(c["from"] for c in conv_sites)
        for o in owners:
            if o not in conv_owners:
                n_unwraps += sum(1 for c in idx["calls"] if c["from"] == o and UNWRAP.search(c["to"]))
                continue
            m = facts.mir(o)
            if m is None:
                continue
            ctx.fn(o)
            b = M.Body(o, m)
            for bb, t in b.calls():
                if not UNWRAP.search(t["fn"]):
                    continue
                n_unwraps += 1
                a = M.op_place(t["args"][0])
                if a is None:
                    continue
                for src in _trace_sources(b, M.place_local(a)):
                    fn = src["fn"]
                    decl = src.get("decl") or ""
                    if not (TEXT_CONV.search(fn) or TEXT_CONV.search(decl)):
                        continue
                    target = (src.get("gargs") or ["?"])[0]
                    reason = None
                    for pre, cre, tgt, why in TOTAL_TABLE:
                        if o.startswith(pre) and re.search(cre, fn) and tgt == target:
                            reason = why
                    inst = "%s:%s::<%s>" % (re.sub(r"__action\d+", "__action", o), fn.split("::")[-1], target)
                    ctx.check(reason is not None, rule, inst,
                              "%s unwraps %s::<%s> of input text: an out-of-range or malformed token panics instead of "
                              "being diagnosed" % (o, fn, target),
                              [facts.bodies()[o]["loc"][0], t.get("ln")],
                              detail={"fn": o, "conversion": fn, "target": target, "total_because": reason})
    ctx.note("%s: %d unwrap/expect call sites and %d text conversions inspected" % (rule, n_unwraps, n_conv))
    ctx.floor(rule, "text conversion call sites in front-end crates", n_conv, 3)


def _front_file(f):
    if not (f.startswith("lang/surface/src") or f.startswith("lang/session/src")
            or f.startswith("lang/statics/src/check") or f.startswith("cli/src")):
        return False
    if "pretty" in f or f.endswith(("fmt.rs", "ugly.rs", "tests.rs")):
        return False
    return True


def rule_arm_div(ctx):
    rule = "arm-div"
    ctx.rule(rule, "a match arm / let-else over a zydeco syntax enum whose only exit is a panic must be a listed "
                   "phase-ordering exclusion; the listed payloads are constructed only by the listed producers")
    facts = ctx.facts
    n_matches = 0
    used = set()
    for b in facts.bodies().values():
        f = b["loc"][0]
        if not _front_file(f) or b.get("expn"):
            continue
        h = facts.hir(b["def"])
        if not h:
            continue
        for m in H.walk(h["body"]):
            k = H.kind(m)
            if k == "Match" and not m.get("src") and SYN.match(tys.strip_refs(m.get("scrut_ty", ""))):
                n_matches += 1
                for a in m["arms"]:
                    if H.exits_by_panic_only(a["body"]):
                        _judge(ctx, rule, b, tys.strip_refs(m["scrut_ty"]), a["pat"], a["ln"], used)
            elif k == "Let" and m.get("els") is not None and isinstance(m.get("init"), dict):
                ity = tys.strip_refs(m["init"].get("ty", ""))
                if SYN.match(ity):
                    n_matches += 1
                    if H.exits_by_panic_only(m["els"]):
                        _judge(ctx, rule, b, ity, m["pat"], m["ln"], used)
    ctx.note("%s: %d matches / let-else over syntax enums inspected" % (rule, n_matches))
    ctx.floor(rule, "matches over syntax enums", n_matches, 60)
    # who-may-construct side conditions
    producers = {}
    for t in facts.tags():
        for a in facts.index(t).get("aggs", []):
            if "adt" in a and not (a.get("expn") and a["expn"][0] in ("Clone", "Debug")):
                producers.setdefault(a["adt"], set()).add(a["fn"].split("::{closure")[0])
    for i in sorted(used):
        e = ARM_DIV_EXCLUSIONS[i]
        if "payload" not in e:
            continue
        allowed = set(e["constructed_only_in"])
        got = producers.get(e["payload"], set())
        extra = sorted(got - allowed)
        ctx.check(not extra, "arm-div-producer", "%s:%s" % (e["payload"], ",".join(extra) or "ok"),
                  "exclusion for %s relies on %s being constructed only in %s, but it is also constructed in %s"
                  % (e["variants"], e["payload"], sorted(allowed), extra), None,
                  detail={"payload": e["payload"], "producers": sorted(got)})


def _judge(ctx, rule, body, enum_ty, pat, ln, used):
    variants = [v.split("::")[-1] for v in H.pat_variants(pat)]
    head = tys.split_generic(enum_ty)[0]
    fn = body["def"]
    hit = None
    for i, e in enumerate(ARM_DIV_EXCLUSIONS):
        if fn.endswith(e["fn"]) and variants and all(v in e["variants"] for v in set(variants)):
            hit = i
            break
    inst = "%s:%s::%s" % (fn, head.split("::")[-1], "|".join(sorted(set(variants))) or H.kind(pat))
    if hit is not None:
        used.add(hit)
        ctx.ok(rule, inst, {"fn": fn, "enum": head, "variants": variants,
                            "excluded_because": ARM_DIV_EXCLUSIONS[hit]["reason"]})
    else:
        ctx.violation(rule, inst,
                      "%s: arm over %s::{%s} can only exit by panic and is not a listed phase-ordering exclusion "
                      "(input syntax reaching it crashes the front end)" % (fn, head, ",".join(variants)),
                      [body["loc"][0], ln])


def rule_stripped_arena(ctx):
    rule = "stripped-arena"
    ctx.rule(rule, "ProgramAnalysis::statics() is the payload-stripped arena (clone_keyed_indexes): its result may be "
                   "used only through StaticsIndexes fields (auto-deref) or index-only StaticsArena methods")
    facts = ctx.facts
    ARENA = "zydeco_statics::arena::StaticsArena"
    adt = facts.adts().get(ARENA)
    if adt is None:
        ctx.anchor_lost(rule, "StaticsArena not found")
        return
    fields = [f["name"] for f in adt["variants"][0]["fields"]]
    if "indexes" not in fields:
        ctx.anchor_lost(rule, "StaticsArena has no `indexes` field")
        return
    payload = {"f%d:%s" % (i, n) for i, n in enumerate(fields) if n != "indexes"}
    # the accessor really is the stripped clone
    acc = "zydeco_session::source::query::ProgramAnalysis::statics"
    ctx.need_body(rule, acc)
    producers = [c for c in facts.calls() if c["to"].endswith("StaticsArena::clone_keyed_indexes")]
    ctx.note("%s: clone_keyed_indexes called from %s" % (rule, sorted(set(c["from"] for c in producers))))
    # index-only methods: no payload field projected from self, only index-only self-calls
    cache = {}

    def index_only(fn, depth=0):
        if fn in cache:
            return cache[fn]
        cache[fn] = False
        m = facts.mir(fn)
        if m is None or depth > 4:
            return False
        b = M.Body(fn, m)
        for bb in range(b.n):
            for s in b.stmts(bb):
                for pl in _places_of_stmt(s):
                    if any(p in payload for p in M.place_proj(pl)):
                        return False
        for bb, t in b.calls():
            c = t["fn"]
            if c.startswith("zydeco_statics::arena::") and "StaticsArena" in c and c != fn:
                if not c.endswith("::deref") and not index_only(c, depth + 1):
                    return False
            for a in t["args"]:
                pl = M.op_place(a)
                if pl is not None and any(p in payload for p in M.place_proj(pl)):
                    return False
        cache[fn] = True
        return True

    n = 0
    for c in facts.calls():
        if c["to"] != acc:
            continue
        owner = c["from"]
        # salsa wraps tracked fns: HIR lives in the user-written fn; find it through the closure/inner path
        n += 1
        m = facts.mir(owner)
        if m is None:
            ctx.anchor_lost(rule, "no MIR for %s" % owner)
            continue
        ctx.fn(owner)
        b = M.Body(owner, m)
        for bb, t in b.calls():
            if t["fn"] != acc:
                continue
            tracked = {M.place_local(t["dest"])}
            # forward propagation through moves/reborrows
            changed = True
            while changed:
                changed = False
                for i, k, s in b.assignments():
                    rv = s["rv"]
                    src = None
                    if rv["k"] == "use":
                        src = M.op_place(rv["ops"][0])
                    elif rv["k"] in ("ref", "copyderef"):
                        src = rv["p"]
                    if src is not None and M.place_local(src) in tracked and M.place_local(s["d"]) not in tracked \
                            and not any(p.startswith("f") for p in M.place_proj(src)):
                        tracked.add(M.place_local(s["d"]))
                        changed = True
            bad = []
            for i, k, s in b.assignments():
                for pl in _places_of_stmt(s):
                    if M.place_local(pl) in tracked and any(p in payload for p in M.place_proj(pl)):
                        bad.append("reads payload table `%s`" % [p for p in M.place_proj(pl) if p in payload][0])
            for bb2, t2 in b.calls():
                if bb2 == bb:
                    continue
                for ai, a in enumerate(t2["args"]):
                    pl = M.op_place(a)
                    if pl is None or M.place_local(pl) not in tracked:
                        continue
                    callee = t2["fn"]
                    if callee.endswith("StaticsArena as core::ops::deref::Deref>::deref"):
                        continue
                    if "StaticsArena" in callee and callee.startswith("zydeco_statics::arena::") and ai == 0:
                        if index_only(callee):
                            continue
                        bad.append("calls %s, which reads payload tables" % callee)
                        continue
                    bad.append("hands the stripped arena to %s" % callee)
            inst = owner.replace("::execute::inner_", "")
            ctx.check(not bad, rule, inst,
                      "%s uses the payload-stripped arena from ProgramAnalysis::statics(): %s (indexing an empty "
                      "payload table panics)" % (owner, "; ".join(sorted(set(bad)))), c["loc"],
                      detail={"fn": owner, "uses": "StaticsIndexes only"})
    ctx.floor(rule, "callers of ProgramAnalysis::statics", n, 4)


def _places_of_stmt(s):
    out = [s["d"]]
    rv = s["rv"]
    if "p" in rv:
        out.append(rv["p"])
    for o in rv.get("ops", []):
        p = M.op_place(o)
        if p is not None:
            out.append(p)
    return out


# readers of StaticsArena::seals (abstract id -> the definition it seals). A user program can make this table cyclic
# (`def L : VType = L`), so a reader that follows an entry into a recursive call of itself must carry a visited set.
SEAL_READERS = {
    "zydeco_statics::normalize::<impl zydeco_statics::syntax::TypeId>::unroll_opening": "recursive: guarded by `opened`",
    "zydeco_statics::normalize::<impl zydeco_statics::syntax::TypeId>::unroll": "recursive when it reads the table itself: the guard is checked",
    "zydeco_statics::fmt::SealedTypeEquation::new": "reads one entry, no recursion",
    "<zydeco_statics::fmt::SealedTypeEquation as zydeco_syntax::fmt::Pretty<'a, zydeco_statics::fmt::Formatter<'a>>>::pretty":
        "prints one definition; an abstract type inside it prints as its name, not through the table",
    "zydeco_statics::elaborate::monadic::type_translation": "a sealed type is an error there (NotInlinableSeal)",
    "zydeco_statics::check::Tycker::<'a>::record_seal": "writer",
    "zydeco_statics::normalize::TypeSupportCollector::visit": "recursive (the escape check opens seals): guarded by `visiting_seals`",
}


def rule_seal_cycle(ctx):
    rule = "seal-cycle"
    facts = ctx.facts
    ctx.rule(rule, "every function that reads StaticsArena::seals is inventoried, and one that hands a value read from the table to a "
                   "recursive call of itself does so only under a membership test (`contains` / `insert`) of the seal id in a "
                   "collection that the same branch extends with it: a seal that leads back to itself (`def L : VType = L`) must not "
                   "be opened forever (stack overflow = abort instead of a diagnostic)")
    n = 0
    for fn, bd in sorted(facts.bodies().items()):
        if "zydeco_" not in fn or "::tests::" in fn:
            continue
        base = fn.split("::{closure")[0]
        h = facts.hir(fn) if "{closure" not in fn else None
        if not h:
            continue
        reads = [x for x in H.walk(h["body"]) if H.kind(x) == "Field" and x.get("name") == "seals"
                 and re.search(r"StaticsArena", tys.strip_refs((x.get("e") or x.get("base") or {}).get("ty", "") if isinstance(x.get("e") or x.get("base"), dict) else ""))]
        if not reads:
            continue
        n += 1
        if base not in SEAL_READERS:
            ctx.violation(rule, "%s:uninventoried-reader" % M.short_fn(base), "%s reads StaticsArena::seals but is not in the audited "
                          "inventory of its readers: the table can be cyclic, the new reader has to be audited for termination" % base,
                          [bd["loc"][0], reads[0].get("ln")])
            continue
        ctx.fn(base)
        # recursive use: a call of this very function inside a branch that binds the entry
        rec = [c for c in H.walk(h["body"]) if H.kind(c) in ("Call", "MethodCall") and (H.callee(c) or "") == base]
        par = {}
        stack = [h["body"]]
        while stack:
            p = stack.pop()
            for c in H.children(p):
                if isinstance(c, dict):
                    par[id(c)] = p
                    stack.append(c)
        for m in H.walk(h["body"]):
            if not (H.kind(m) == "Match" and not m.get("src") and any(r is y for r in reads for y in H.walk(m["scrut"]))):
                continue
            for a in m["arms"]:
                inner = [c for c in rec if any(c is y for y in H.walk(a["body"]))]
                if not inner:
                    continue
                g = a.get("guard")
                tests = [y for y in (H.walk(g) if g is not None else []) if H.kind(y) == "MethodCall" and y["name"] in ("contains", "insert", "contains_key")]
                grows = [y for y in H.walk(a["body"]) if H.kind(y) == "MethodCall" and y["name"] in ("push", "insert")]
                same = bool(tests) and bool(grows) and any(
                    (H.path_local(t["recv"]) or [None])[0] is not None and (H.path_local(t["recv"]) or [None])[0] == (H.path_local(gw["recv"]) or [None])[0]
                    for t in tests for gw in grows) or (bool(tests) and any(t["name"] == "insert" for t in tests))
                ctx.check(same, rule, "%s:recursion-guard" % M.short_fn(base),
                          "%s follows an entry of the seals table into a recursive call of itself without a visited-set test on the seal "
                          "id: `def L : VType = L` makes it recurse until the stack overflows" % base, [bd["loc"][0], a["ln"]],
                          detail={"guard": "contains + push on the same collection"})
        # the same obligation when the entry is bound by a `let` first: a recursive call whose argument derives from the table
        # must sit under an `if` whose condition tests / extends a visited set
        env = A.ArmEnv()
        env.strip = True
        env.bind_params(h)
        env.absorb(h["body"])
        covered = {id(c) for m in H.walk(h["body"]) if H.kind(m) == "Match" and not m.get("src")
                   and any(r is y for r in reads for y in H.walk(m["scrut"])) for a in m["arms"] for c in H.walk(a["body"])}
        for c in rec:
            if id(c) in covered or not re.search(r"[ (]seals\)", A.sexpr(c, env)):
                continue
            guarded = False
            cur = c
            while id(cur) in par:
                cur = par[id(cur)]
                if H.kind(cur) == "If" and any(H.kind(y) == "MethodCall" and y["name"] in ("contains", "insert", "contains_key")
                                               for y in H.walk(cur.get("c") or cur.get("cond") or {})):
                    guarded = True
                    break
            ctx.check(guarded, rule, "%s:recursion-guard" % M.short_fn(base),
                      "%s follows an entry of the seals table into a recursive call of itself without a visited-set test on the seal "
                      "id: `def L : VType = L` makes it recurse until the stack overflows" % base, [bd["loc"][0], c.get("ln")],
                      detail={"guard": "if .. insert(seal id) around the recursive call"})
    ctx.floor(rule, "readers of the seals table", n, 4)


# str slices whose byte bounds mention a non-zero constant: each is audited (the constant is not a byte offset, or the
# bytes skipped are ASCII by the token definition). key = function -> (constants, reason)
SLICE_CONSTANTS = {
    "zydeco_syntax::impls::remove_prefix": ({"1"}, "strips the one-byte ASCII sigil (`+` / `.`) that the Ctor / Dtor token definitions require"),
    "zydeco_surface::textual::trivia::comment::CommentBlocks::<'source>::opening_indentation":
        ({"10", "1"}, "rfind('\\n') + 1: the byte after an ASCII newline"),
    "zydeco_surface::textual::trivia::comment::LineSeparation::whitespace_prefix": ({"1"}, "the constant is the closure-capture arity, the bound is a char_indices index"),
    "zydeco_surface::textual::trivia::comment::LineSeparation::whitespace_suffix": ({"1"}, "index + len_utf8 of the character found by char_indices"),
    "zydeco_utils::span::FileInfo::trans_span1": ({"1"}, "`line + 1` indexes line_starts; the bounds are recorded line starts"),
}
_STR_SLICE = (r"str::traits::<impl core::ops::index::Index<.*> for str>::index$|core::str::<impl str>::split_at$|"
              r"for alloc::string::String>::index$")


def rule_str_slices(ctx):
    from .. import symval
    rule = "str-slices"
    facts = ctx.facts
    ctx.rule(rule, "the byte bounds of every panicking string slice (`&s[a..b]`, split_at) in non-test code come from the text itself "
                   "(lengths, search results, char_indices, token spans): the symbolic value of the range that reaches the slice "
                   "(value flow over MIR) mentions no non-zero constant, except at the audited sites. A constant byte offset after a "
                   "character-class test splits a multi-byte character and panics (`&line[1..]` after `starts_with(char::is_whitespace)`)")
    ct = facts.calls_to()
    fns = set()
    for k, cs in ct.items():
        if re.search(_STR_SLICE, k):
            for c in cs:
                if "::tests::" in c["from"] or c["loc"][0].endswith("tests.rs") or "/out/" in c["loc"][0] or not c["loc"][0].startswith(("lang/", "cli/", "editor/")):
                    continue
                fns.add(c["from"])
    n = 0
    for fn in sorted(fns):
        m = facts.mir(fn)
        if m is None:
            continue
        sv = symval.SymValues(M.Body(fn, m))
        base = fn.split("::{closure")[0]
        for bb, f, args in sv.call_args(lambda f: re.search(_STR_SLICE, f)):
            n += 1
            t = " ".join(args[1:])
            nz = set(x for x in re.findall(r"(?<![\w.$@#])(\d+)(?![\w.])", t) if x != "0") | \
                set(x.split("::")[-1] for x in re.findall(r"const:([^\s()]+)", t) if not x.startswith("?"))
            loc = [facts.bodies()[fn]["loc"][0], M.Body(fn, m).term(bb).get("ln")]
            inv = SLICE_CONSTANTS.get(base)
            if not sv.stable or "phi@" in t:
                ctx.violation(rule, "%s:unknown-bound" % M.short_fn(base), "%s slices a string with a bound that differs between paths "
                              "(%s): not classified" % (fn, t[:160]), loc)
            elif not nz:
                ctx.ok(rule, "%s@%s" % (M.short_fn(base), n), {"bounds": t[:200]})
            elif inv and nz <= inv[0]:
                ctx.ok(rule, "%s@%s" % (M.short_fn(base), n), {"constants": sorted(nz), "audited": inv[1]})
            else:
                ctx.violation(rule, "%s:constant-offset:%s" % (M.short_fn(base), "+".join(sorted(nz - (inv[0] if inv else set())))),
                              "%s slices a string at a bound built from the constant(s) %s (%s): a byte offset that does not come "
                              "from the text can fall inside a multi-byte character and panic" % (fn, sorted(nz), t[:200]), loc)
    ctx.floor(rule, "string slices classified", n, 12)


# partial helpers of the shared syntax layer (zydeco_syntax: names, literals, text, spans): functions with a panic path of their own.
# The front end may call only the audited ones; the others are meant for values the interpreter has already made fit.
PARTIAL_OK = {
    "zydeco_syntax::fmt::Ugly::ugly": "renders a typed-syntax document at unbounded width into a String: fmt::Write on String cannot fail",
    "zydeco_syntax::span::span_via_back": "every id of a phase arena has a textual back-map entry (allocation inserts it)",
}


def rule_partial_helpers(ctx):
    rule = "partial-helpers"
    facts = ctx.facts
    ctx.rule(rule, "functions of zydeco_syntax that can panic on some argument (an unwrap / expect / panic / arithmetic assert in their own "
                   "body; Index impls excluded) are called from the front end (surface, statics, session, cli) only if audited: a "
                   "conversion helper that `expect`s its value to fit (IntegerLiteral::from_value is for results of integer primitives) "
                   "must not be handed a user literal")
    partial = {}
    for fn, bd in facts.bodies().items():
        if not bd["loc"][0].startswith("lang/syntax/") or "::tests::" in fn or "{closure" in fn:
            continue
        if "ops::index::Index" in fn:
            continue
        m = facts.mir(fn)
        if m is None:
            continue
        b = M.Body(fn, m)
        why = []
        for bb in range(b.n):
            if b.is_cleanup(bb):
                continue
            t = b.term(bb)
            if t["k"] == "assert" and t.get("msg") != "other":
                why.append("assert:%s" % t.get("msg"))
            elif t["k"] == "call" and (t["fn"].startswith("core::panicking::") or re.search(r"(Option|Result)::<.*>::(unwrap|expect)$", t["fn"])):
                why.append(t["fn"].split("::")[-1])
        if why:
            partial[fn] = why
    ctx.floor(rule, "partial functions in zydeco_syntax", len(partial), 3)
    ct = facts.calls_to()
    n = 0
    for fn in sorted(partial):
        callers = sorted(set(c["from"].split("::{closure")[0] for c in ct.get(fn, [])
                             if re.search(r"zydeco_(surface|statics|session|cli)\b|^zydeco::|cajun", c["from"])
                             and "::tests::" not in c["from"] and not c["loc"][0].endswith("tests.rs")))
        if not callers:
            continue
        n += 1
        ctx.check(fn in PARTIAL_OK, rule, "%s:front-end-caller" % M.short_fn(fn),
                  "%s can panic (%s) and is called from the front end by %s: an input that makes it panic is a crash instead of a "
                  "diagnostic" % (fn, sorted(set(partial[fn])), [M.short_fn(c) for c in callers][:4]),
                  [facts.bodies()[fn]["loc"][0], facts.bodies()[fn]["loc"][1]],
                  detail={"callee": fn, "audited": PARTIAL_OK.get(fn), "callers": len(callers)})
    ctx.floor(rule, "partial helpers reached from the front end", n, 2)


def rule_exit_path(ctx):
    rule = "exit-path"
    ctx.rule(rule, "zydeco::main maps Err of Application::run to render() followed by exit(1); no other "
                   "process::exit / abort in the front-end crates")
    b = ctx.need_mir(rule, "zydeco::main")
    run_calls = [(bb, t) for bb, t in b.calls() if t["fn"].endswith("Application::run")]
    if not run_calls:
        ctx.anchor_lost(rule, "main does not call Application::run")
        return
    exits = [(bb, t) for bb, t in b.calls() if t["fn"] == "std::process::exit"]
    renders = [(bb, t) for bb, t in b.calls() if t["fn"].endswith("ApplicationError::render")]
    ok = False
    for bb, t in exits:
        a = M.op_const(t["args"][0])
        if a is not None and a.get("bits") == "1":
            # dominated by a render call
            if any(b.dominates(rb, bb) for rb, _ in renders):
                ok = True
    ctx.check(ok, rule, "zydeco::main", "the error exit `exit(1)` of main is not dominated by ApplicationError::render",
              None, detail={"exit_calls": len(exits), "render_calls": len(renders)})
    # other exits
    for c in ctx.facts.calls():
        if c["to"] in ("std::process::exit", "std::process::abort", "core::intrinsics::abort"):
            owner = c["from"]
            if owner == "zydeco::main" or owner.startswith(("cajun", "zydeco_tui", "zydeco_dynamics")):
                continue
            ctx.violation(rule, "%s:%s" % (owner, c["to"]), "%s terminates the process directly" % owner, c["loc"])
    for c in ctx.facts.calls():
        if c["to"].startswith("std::panic::catch_unwind") or c["to"].startswith("std::panicking::try"):
            owner = c["from"]
            if owner.startswith(("cajun", "zydeco_tui")) or "salsa" in owner:
                continue
            if owner.startswith(("zydeco_surface", "zydeco_statics", "zydeco_cli", "zydeco::")):
                ctx.violation(rule, "%s:catch_unwind" % owner, "%s swallows panics" % owner, c["loc"])


def run(ctx):
    rule_text_unwrap(ctx)
    rule_hole_unwrap(ctx)
    rule_first_element(ctx)
    rule_arm_div(ctx)
    rule_stripped_arena(ctx)
    rule_seal_cycle(ctx)
    rule_str_slices(ctx)
    rule_partial_helpers(ctx)
    from . import fmtrules
    fmtrules.rule_directive_bounds(ctx)
    rule_exit_path(ctx)
    rule_index_sites(ctx)
    from . import c04
    c04.rule_monadic_translation(ctx)
    rule_checker_panic_sites(ctx)
    rule_report_spans(ctx)
    ctx.assume("capacity conversions (usize -> u32 ids/offsets) are out of scope: inputs are below 4 GiB")
    ctx.assume("the ~100 `let .. else { unreachable!(..query-produced..) }` tests of query results in check/mod.rs, "
               "termination, and 'locations lie inside the file' are NOT decided (run-time quantities)")
    return {}


# positional indexing (`v[i]`, `v[a..b]`, `s[a..b]` on Vec / slice / array / str / String) in the hand-written front end: each
# site panics when the index is out of range (or not a character boundary). key = short function name -> (sites, why in range)
INDEX_SITES = {
    "zydeco_session::source::graph::SourceCycleDetector::<'graph>::visit":
        (1, "start = position() of an element of `sources`; `dependencies` holds one edge per source below the top, so start <= len"),
    "zydeco_session::source::documentation::RepositoryDocumentationEntry::<'_>::term_source":
        (1, "cursor pair of a span the parser recorded for this very source text"),
    "zydeco_session::source::warning::SourceWarningSite::<'_>::warning_source":
        (1, "range of a warning computed from this very source text (lexer token range)"),
    "zydeco_statics::arena::KindArena::value":
        (1, "offset minted by this arena's own push"),
    "zydeco_statics::arena::NormalizedAnnotations::with_parallel":
        (2, "windows(2) yields slices of length 2"),
    "zydeco_statics::arena::SourceProvenance::<Source, Typed>::record_compact":
        (1, "category.index() < the fixed number of categories the array is built with"),
    "zydeco_statics::arena::SourceProvenance::<Source, Typed>::source_compact":
        (1, "as record_compact"),
    "zydeco_statics::arena::TermFactsArena::get":
        (1, "index minted by upsert's push"),
    "zydeco_statics::arena::TermFactsArena::iter":
        (1, "index minted by upsert's push"),
    "zydeco_statics::arena::TermFactsArena::upsert":
        (1, "index minted by upsert's push"),
    "<zydeco_utils::with::With<zydeco_statics::environment::TyEnv, zydeco_surface::bitter::syntax::PatId> as zydeco_statics::check::Tyck<'a>>::tyck_inner_k":
        (1, "body_index starts at items.len() and is only set to an enumerate() index of items"),
    "<zydeco_utils::with::With<zydeco_statics::environment::TyEnv, zydeco_surface::bitter::syntax::TermId> as zydeco_statics::check::Tyck<'a>>::tyck_inner_k":
        (1, "as the pattern judgment"),
    "zydeco_statics::check::DeferredValueFieldCandidate::materialize_k":
        (1, "position numbered by FieldProjectionResolver::product_components_k along the same Prod spine that materialized_product_components_k enumerates (erasure-arity rule; F49 was the disagreement)"),
    "zydeco_statics::check::ExistentialProjectionPattern::check_k":
        (3, "slot_index is an enumerate() index of opening.slots; body_patterns[0] under len() == 1"),
    "zydeco_statics::normalize::<impl zydeco_statics::syntax::TypeId>::subst_absts":
        (2, "position() of an element of assignments; position + 1 <= len"),
    "zydeco_surface::bitter::desugar::ExistentialParameterForm::desugar":
        (1, "patterns[0] under the guard patterns.len() == 1"),
    "zydeco_surface::textual::arena::impl_span_arena::<impl core::ops::index::Index<&zydeco_surface::textual::syntax::EntityId> for zydeco_surface::textual::arena::SpanArena>::index":
        (1, "index_of(..).expect: a missing span id is the documented panic of this accessor, ids come from the same parse"),
    "zydeco_surface::textual::arena::impl_span_arena::<impl zydeco_surface::textual::arena::SpanArena>::replace":
        (1, "as SpanArena::index"),
    "zydeco_surface::textual::intention::SurfaceIntentions::record_source_layout":
        (1, "source_id was minted from source_layouts.len() just before the push"),
    "zydeco_surface::textual::pretty::PrettyFormatter::<'arena>::infix_chain":
        (4, "operands receives the left operand before the loop, so operands[0] and operands[1..] exist"),
    "zydeco_surface::textual::trivia::comment::CommentBlocks::<'source>::block_text":
        (1, "min(indentation(line), ..) <= line.len() and counts ASCII / one-byte whitespace"),
    "zydeco_surface::textual::trivia::comment::CommentBlocks::<'source>::line_text":
        (1, "range of a lexer token of this source"),
    "zydeco_surface::textual::trivia::comment::CommentBlocks::<'source>::opening_indentation":
        (2, "rfind('\\n') + 1 and a token start: both character boundaries of this source, in order"),
    "zydeco_surface::textual::trivia::comment::CommentCapture::new":
        (6, "first_trailing = position() in anchors (same length as comments) or comments.len(); index from enumerate() of the prefix"),
    "zydeco_surface::textual::trivia::comment::LineSeparation::whitespace_prefix":
        (1, "end found by char_indices of this string"),
    "zydeco_surface::textual::trivia::comment::LineSeparation::whitespace_suffix":
        (1, "start = index + len_utf8 of a character found by char_indices"),
    "zydeco_syntax::impls::remove_prefix":
        (1, "strips the one-byte ASCII sigil the token definition requires (str-slices rule)"),
    "zydeco_utils::arena::impls::<impl zydeco_utils::arena::ArenaAccess<&Id, <Scope as zydeco_utils::arena::ArenaSchema<Id>>::Item> for zydeco_utils::arena::ArenaIndexed<Scope, Id>>::get":
        (1, "arena-internal: the id's offset is bounds-tested first"),
    "zydeco_utils::arena::impls::<impl zydeco_utils::arena::ArenaIndexed<Scope, Id>>::iter":
        (1, "arena-internal: enumerate() index"),
    "zydeco_utils::arena::impls::<impl zydeco_utils::arena::ArenaIndexed<Scope, Id>>::replace_existing":
        (1, "arena-internal: documented panic for an id this arena did not mint"),
    "zydeco_utils::arena::impls::<impl zydeco_utils::arena::ArenaPaged<Scope, Id>>::insert_new":
        (2, "arena-internal: the page is pushed before it is indexed"),
    "zydeco_utils::arena::impls::<impl zydeco_utils::arena::ArenaPagedAssoc<Id, T>>::insert_new":
        (2, "arena-internal: the page is pushed before it is indexed"),
    "zydeco_utils::span::FileInfo::trans_span1":
        (1, "str-slices rule (line starts recorded from this text)"),
    "zydeco_utils::span::FileInfo::trans_span2":
        (2, "binary search result - 1 over line_starts, which always holds the start 0"),
}


def rule_index_sites(ctx):
    rule = "index-sites"
    facts = ctx.facts
    ctx.rule(rule, "every positional index or range slice (`v[i]`, `v[a..]`, `s[a..b]` on Vec / slice / array / str / String) in the "
                   "hand-written code of the front-end crates (syntax, surface, statics, session, utils; generated lexer / parser / query "
                   "code excluded) is inventoried with the reason its index is in range; a new site, or one more site in an inventoried "
                   "function, is reported: an out-of-range index is a panic, not a diagnostic")
    seen, locs = {}, {}
    n_fns = 0
    for fn, bd in sorted(facts.bodies().items()):
        if "::tests::" in fn or "{closure" in fn:
            continue
        f0 = bd["loc"][0]
        if not f0.startswith(("lang/syntax/", "lang/surface/", "lang/statics/", "lang/session/", "lang/utils/")) or " as logos::Logos" in fn:
            continue
        if bd.get("expn") or re.search(r"::_::|builder::Builder_|update_fields$", fn):
            continue
        h = facts.hir(fn)
        if not h:
            continue
        n_fns += 1
        for x in H.walk(h["body"]):
            if H.kind(x) != "Index":
                continue
            base = x.get("base") if isinstance(x.get("base"), dict) else x.get("e") if isinstance(x.get("e"), dict) else {}
            t0 = re.sub(r"^&(mut )?", "", base.get("ty") or "?")
            if not re.match(r"(alloc::vec::Vec|\[|alloc::collections::vec_deque|im::vector|smallvec|str\b|alloc::string::String|alloc::boxed::Box<\[)", t0):
                continue
            key = M.short_fn(fn)
            seen[key] = seen.get(key, 0) + 1
            locs.setdefault(key, [f0, x.get("ln")])
    for key, cnt in sorted(seen.items()):
        want = INDEX_SITES.get(key)
        if want is None or cnt > want[0]:
            ctx.violation(rule, key + (":extra" if want else ""), "%s indexes a vector / slice / string by position at a site that is not in "
                          "the audited inventory (%d site(s), %d audited): an index out of range, or a byte offset inside a character, "
                          "panics instead of reporting a diagnostic" % (key, cnt, want[0] if want else 0), locs[key])
        else:
            ctx.ok(rule, key, {"sites": cnt, "in_range_because": want[1]})
    ctx.floor(rule, "front-end functions inspected", n_fns, 1500)
    ctx.floor(rule, "positional index sites classified", sum(seen.values()), 40)


def _checker_panic_sites(facts):
    """(key -> count, key -> loc) for the panic sites of lang/statics/src/check/ and elaborate/ that are NOT the `query-produced` idiom"""
    from . import c01
    seen, locs = {}, {}
    n_fns = 0

    def lits(n):
        out = []
        for y in H.walk(n):
            if H.kind(y) == "Lit":
                v = y.get("lit") or y.get("v")
                out.append(v.get("str") if isinstance(v, dict) else v)
        return [x for x in out if isinstance(x, str)]
    for fn, bd in sorted(facts.bodies().items()):
        f0 = bd["loc"][0]
        if not f0.startswith(("lang/statics/src/check/", "lang/statics/src/elaborate/")) or "::tests::" in fn or "{closure" in fn:
            continue
        if "/dump/" in f0 or f0.endswith("error.rs"):
            continue    # printing of diagnostics and debug dumps: exit-path rule
        h = facts.hir(fn)
        if not h:
            continue
        n_fns += 1
        owner = c01._short_owner(fn)
        par = c01._parents(h["body"])

        def arms_of(x):
            out, cur = [], x
            while id(cur) in par:
                p = par[id(cur)]
                if H.kind(p) == "Match" and not p.get("src"):
                    for a in p["arms"]:
                        if a is cur or a["body"] is cur or a.get("guard") is cur:
                            out.append(re.sub(r"[({].*", "", A.pat_shape(a["pat"]).split("|")[0]))
                cur = p
            return "/".join(reversed(out))[-60:]
        for x in H.walk(h["body"]):
            k = H.kind(x)
            key = None
            if k == "MethodCall" and x["name"] in ("expect", "unwrap") and re.search(r"(Option|Result)<", x.get("recv_ty") or ""):
                key = "%s:%s:%s" % (owner, arms_of(x), x["name"])
            elif k == "Call" and (H.callee(x) or "").startswith(("core::panicking::", "std::rt::begin_panic")):
                ex = x.get("expn") or []
                msg = " ".join(l for a in x["args"] for l in lits(a))
                if "query-produced" in msg:
                    continue
                kind = "unreachable" if "unreachable" in ex else "assert" if any("assert" in e for e in ex) else "panic"
                key = "%s:%s:%s" % (owner, arms_of(x), kind)
            if key:
                seen[key] = seen.get(key, 0) + 1
                locs.setdefault(key, [f0, x.get("ln")])
    return seen, locs, n_fns


def rule_checker_panic_sites(ctx):
    import json
    import os
    rule = "checker-panic-sites"
    facts = ctx.facts
    ctx.rule(rule, "the checker (lang/statics/src/check, elaborate) can panic only at the inventoried sites (panic! / unreachable! / assert! "
                   "/ expect / unwrap outside the `query-produced` idiom), keyed by function, enclosing match arms and kind "
                   "(rules/checker_panic_sites.json; each is an invariant the source declares, not proved here); a NEW site — or one "
                   "more in an inventoried place — is reported: a lookup that a program can make fail must be a diagnostic (F55: unwrap "
                   "of a destructor lookup in the monadic translation; F58: panic! on a variable without an annotation)")
    path = os.path.join(os.path.dirname(os.path.dirname(os.path.dirname(os.path.dirname(os.path.abspath(__file__))))), "rules", "checker_panic_sites.json")
    try:
        table = json.load(open(path))
    except OSError:
        ctx.anchor_lost(rule, "rules/checker_panic_sites.json missing")
        return
    seen, locs, n_fns = _checker_panic_sites(facts)
    for key, cnt in sorted(seen.items()):
        want = table.get(key)
        if want is None or cnt > want:
            ctx.violation(rule, key + (":extra" if want else ""), "the checker can panic at a site that is not in the audited inventory (%s, "
                          "%d site(s), %d inventoried): if a program can reach it, `zydeco check` aborts instead of reporting a diagnostic"
                          % (key, cnt, want or 0), locs[key])
        else:
            ctx.ok(rule, key, {"sites": cnt})
    ctx.floor(rule, "checker functions inspected", n_fns, 300)
    ctx.floor(rule, "checker panic sites classified", sum(seen.values()), 40)


def rule_report_spans(ctx):
    rule = "report-spans"
    facts = ctx.facts
    ctx.rule(rule, "every ariadne report is built with the shared configuration whose index type is Byte: all spans of the front end "
                   "(lexer ranges, lalrpop locations, Span cursors) are BYTE ranges, ariadne counts characters by default, and a report "
                   "built without the configuration points at a later line / column after any non-ASCII text, or loses its location "
                   "(`every location a diagnostic mentions lies inside the file`)")
    cfg = next((p for p in facts.bodies() if p.endswith("::report_config") and p.startswith("zydeco_surface::")), None)
    if cfg is not None:
        h = facts.hir(cfg)
        byte = any(H.kind(x) == "Path" and str((x.get("res") or {}).get("def") or "").endswith("IndexType::Byte") for x in H.walk(h["body"]))
        ctx.check(byte, rule, "report_config:byte", "report_config() does not select ariadne::IndexType::Byte", facts.bodies()[cfg]["loc"])
    # without the shared configuration every construction site below is reported
    n = 0
    for p, bd in sorted(facts.bodies().items()):
        if "::tests::" in p or "{closure" in p or not bd["loc"][0].startswith(("lang/", "cli/", "editor/", "tui/")):
            continue
        h = facts.hir(p)
        if h is None:
            continue
        builds = [x for x in H.walk(h["body"]) if H.kind(x) in ("Call", "MethodCall") and re.search(r"^ariadne::Report::<.*>::build$", H.callee(x) or "")]
        if not builds:
            continue
        configured = [x for x in H.walk(h["body"]) if H.kind(x) == "MethodCall" and x["name"] == "with_config"
                      and any(H.kind(y) in ("Call", "MethodCall") and (H.callee(y) or "").endswith("::report_config") for y in H.walk(x["args"][0]))
                      and any(b is y for b in builds for y in H.walk(x["recv"]))]
        n += len(builds)
        ctx.check(len(configured) >= len(builds), rule, "%s:configured" % M.short_fn(p), "%s builds %d report(s) and configures %d with "
                  "report_config(): a report with ariadne's default (character) index type misplaces byte spans after non-ASCII text"
                  % (p, len(builds), len(configured)), [bd["loc"][0], builds[0].get("ln")], detail={"reports": len(builds)})
    ctx.floor(rule, "report construction sites", n, 8)
