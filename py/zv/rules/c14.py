"""C14 — formatting is idempotent and canonical (one renderer, header boundaries, trailing newline, escape tables)."""
from .. import golden
from . import fmtrules as R

EXPLANATION = (
    "Idempotence and canonicity quantify over all sources and starting layouts and are NOT decided. Decided necessary "
    "conditions: (1) fmt, fmt --check and the language server use one renderer built the same way (with the source text) "
    "and check_path / format_path compare the same pair of texts, so --check reports `unchanged` exactly when fmt would not "
    "write; the rendered unit ends in exactly one hardline; (2) for the four arm kinds the break before the payload is "
    "measured from the last header entity that can wrap, never from the `|` line when the header has parameters (the "
    "printer's own wrapping would be read back as an intention: creeping layout); (3) the string-literal writer is the "
    "inverse of the reader (a literal is a fixed point); (4) grammar-owned parentheses of existential parameters are "
    "printed (the output re-parses, so a second run exists at all)."
)


def run(ctx):
    R.rule_tool_formatter(ctx)
    R.rule_write_after_render(ctx)
    R.rule_directive_scope(ctx)
    R.rule_arm_printers(ctx, want_anchor=False, want_boundary=True)
    R.rule_literal_escapes(ctx)
    R.rule_exists_parens(ctx)
    R.rule_comment_indentation(ctx)
    R.rule_transparent_groups(ctx)
    R.rule_intention_policy(ctx)
    R.rule_text_block_line_start(ctx)
    ctx.rule("intention-table", "which source line of which entity is compared at each kind of layout boundary, and how two lines become Joined / "
                                "Broken / BlankLine (rules/golden_intent.json): the printer's own output must read back as the same intention")
    golden.check(ctx, "intention-table", "golden_intent.json")
    ctx.assume("the Preserve policy's feedback of intentions at every other declared boundary, vertical separation bounds and pun/parenthesis "
               "canonicalisation are NOT analysed; known non-idempotent inputs remain (see DESIGN.md, findings/candidates/C14)")
    return {}
