"""C12 — formatting is total and preserves meaning (grammar-class agreement, write gate, fallible rendering, escape tables)."""
from . import fmtrules as R

EXPLANATION = (
    "That formatted output re-parses to the same desugared term for every source and directive nesting quantifies over "
    "programs and is NOT decided. Decided: (1) the formatter's precedence class of every term / pattern former equals the "
    "level at which parser.lalrpop (read on every run) produces it, infix operand and scoped-body precedences follow level "
    "and associativity, the requirement test is the audited order test - a necessary condition of 'only redundant "
    "parentheses are dropped'; (2) the CLI writes a file only in format_path, only on the Ok edge of parsing+rendering, only "
    "the rendered text and only when it differs; (3) a render failure is a value on every tool path (no reachable unwrap of "
    "RcDoc::render_fmt): `never panics` for the one panic the layout algebra can raise by design; (4) the string-literal "
    "writer is the inverse of the parser's escape decoder and the printer does not use Debug escaping on text."
)


def run(ctx):
    R.rule_grammar_classes(ctx)
    R.rule_binder_requirements(ctx)
    R.rule_block_construct_comments(ctx)
    R.rule_verbatim(ctx)
    R.rule_write_after_render(ctx)
    R.rule_render_fallible(ctx)
    R.rule_literal_escapes(ctx)
    R.rule_exists_parens(ctx)
    R.rule_manifest_binder_group(ctx)
    R.rule_ctor_gap(ctx)
    R.rule_directive_bounds(ctx)
    ctx.assume("child-position requirements of the printer (term_through(child, P)) are NOT cross-checked against the grammar's "
               "child nonterminals; punning and telescope merging are NOT decided; layout guards other than render failure are not "
               "analysed; some parseable sources still have no admissible layout (F14): they are reported as an error, the file is "
               "left unchanged")
    return {}
