"""Definitional equality is total on fields: per-arm comparison tables for Lub (C01 rule 3, C03)."""
import json
import os
import re

from .. import armlib as A
from .. import hirlib as H
from ..facts import VERIF

DEBRUIJN = "zydeco_statics::check::lub::Debruijn::lub_inner"
KIND_LUB = "<zydeco_statics::syntax::KindId as zydeco_statics::check::lub::Lub>::lub_inner"
ANN_LUB = "<zydeco_statics::syntax::AnnId as zydeco_statics::check::lub::Lub>::lub_inner"


def swap_side(s):
    s = s.replace("$T0/", "$\0/").replace("$T1/", "$T0/").replace("$\0/", "$T1/")
    s = s.replace("$P1", "$\0").replace("$P2", "$P1").replace("$\0", "$P2")   # lhs_id / rhs_id
    s = s.replace("lookup_lhs", "\0").replace("lookup_rhs", "lookup_lhs").replace("\0", "lookup_rhs")
    return s


class ArmEnv(A.Env):
    """Names every local of an arm by its provenance: pattern paths, destructuring lets, simple lets."""

    def absorb_lets(self, node):
        for st in H.walk(node):
            if H.kind(st) != "Let" or st.get("init") is None:
                continue
            init = st["init"]
            pat = st["pat"]
            base = A.sexpr(init, self)
            if H.kind(pat) == "Bind" and pat.get("sub") is None:
                self.names[pat["local"]] = base
            else:
                for l, p in A.pat_paths(pat).items():
                    self.names[l] = "%s/%s" % (base, p) if p else base
        for n in H.walk(node):
            if H.is_for(n):
                pat, it, body = H.for_parts(n)
                if pat is not None:
                    base = "(each %s)" % A.sexpr(it, self)
                    for l, p in A.pat_paths(pat).items():
                        self.names[l] = "%s/%s" % (base, p) if p else base
        # let-else bound values after the loops are known (second pass)
        for st in H.walk(node):
            if H.kind(st) == "Let" and st.get("init") is not None and st.get("els") is not None:
                base = A.sexpr(st["init"], self)
                for l, p in A.pat_paths(st["pat"]).items():
                    self.names[l] = "%s/%s" % (base, p) if p else base
        # closure parameters of zip/try_fold over paired collections: name them by position
        for n in H.walk(node):
            if H.kind(n) == "Closure":
                for i, p in enumerate(n["params"]):
                    for l, pth in A.pat_paths(p, "C%d" % i).items():
                        self.names.setdefault(l, "$" + pth)


def comparisons(arm_node, env):
    """Set of canonical lhs-side names that are compared with their rhs counterpart somewhere in the arm."""
    out = set()
    for n in H.walk(arm_node):
        k = H.kind(n)
        if k == "Binary" and n["op"] in ("Eq", "Ne"):
            a, b = A.sexpr(n["a"], env), A.sexpr(n["b"], env)
            if a != b and swap_side(a) == b:
                out.add("%s:%s" % ("cmp", a if ("$T0/" in a or "$P1" in a or "lookup_lhs" in a) else b))
        elif k in ("Call", "MethodCall"):
            args = H.call_args(n)
            names = [A.sexpr(x, env) for x in args]
            c = (H.callee(n) or "?")
            short = re.sub(r"<.*?>", "", c).split("::")[-1]
            for i in range(len(names)):
                for j in range(i + 1, len(names)):
                    if names[i] != names[j] and swap_side(names[i]) == names[j] and ("$T0/" in names[i] or "$T1/" in names[i]):
                        lhs = names[i] if "$T0/" in names[i] else names[j]
                        out.add("%s:%s" % (short, lhs))
    # keyed collections: `for (k, l) in lhs { let Some(r) = rhs.get(&k) else { err }; lub(l, r) }`
    for n, c in H.calls(arm_node):
        if c.endswith("::lub") or c.endswith("::lub_inner"):
            names = [A.sexpr(x, env) for x in H.call_args(n)]
            ls = [x for x in names if x.startswith("(each ") and "$T0/" in x and "$T1/" not in x]
            rs = [x for x in names if "::get " in x and "$T1/" in x]
            if ls and rs:
                out.add("keyed-lub:%s" % ls[0])
    return out


def arm_key(pat):
    return A.pat_shape(pat)


def extract(facts, fn, pick):
    h = facts.hir(fn)
    if h is None:
        return None
    env0 = A.Env()
    env0.bind_params(h)
    m = pick(h, env0)
    if m is None:
        return None
    table = {}
    for a in m["arms"]:
        env = ArmEnv()
        env.names = dict(env0.names)
        env.bind_pat(A.strip_or(a["pat"]))
        env.absorb_lets(a["body"])
        node = {"k": "Tup", "es": [x for x in (a.get("guard"), a["body"]) if x is not None]}
        comps = comparisons(node, env)
        errs = [n for n, c in H.calls(a["body"]) if c.endswith("::err")]
        body = H.peel(a["body"])
        table[arm_key(a["pat"])] = {
            "arm": a, "env": env, "compares": sorted(comps),
            "is_error": bool(errs) and H.kind(body) == "Match" and H.is_try(body),
            "ln": a["ln"],
        }
    return h, m, table


def pick_inner(h, env):
    def two_locals(x):
        x = H.peel(x)
        return H.kind(x) == "Tup" and len(x["es"]) == 2 and all(H.path_local(e) is not None for e in x["es"])
    ms = [m for m in H.walk(h["body"]) if H.kind(m) == "Match" and not m.get("src") and two_locals(m["scrut"])]
    # the inner match over (Done(lhs), Done(rhs)) payloads is the one with the most arms
    return max(ms, key=lambda m: len(m["arms"])) if ms else None


def variants_of(facts, adt):
    a = facts.adts().get(adt)
    return [v["name"] for v in a["variants"]] if a else []


def check_lub(ctx, rule):
    facts = ctx.facts
    ctx.rule(rule, "Lub (definitional equality): every type/kind former has a diagonal arm; every off-diagonal arm is an "
                   "error; in each diagonal arm every comparison of a field with its counterpart recorded in the audited "
                   "table (rules/lub_table.json) is still performed and propagated with `?`; leaf arms that accept must be "
                   "guarded by an equality of the two sides")
    with open(os.path.join(VERIF, "rules", "lub_table.json")) as fh:
        ref = json.load(fh)
    for fn, adt, label in ((DEBRUIJN, "zydeco_statics::syntax::Type", "type"), (KIND_LUB, "zydeco_statics::syntax::Kind", "kind")):
        r = extract(facts, fn, pick_inner)
        if r is None:
            ctx.anchor_lost(rule, "%s: inner match not found" % fn)
            continue
        ctx.fn(fn)
        h, m, table = r
        loc = facts.bodies()[fn]["loc"]
        vs = variants_of(facts, adt)
        diag = {}
        for key, row in table.items():
            mm = re.match(r"^\((\w+)[({,].*,(\w+)[({)].*\)$|^\((\w+)\(.*\),_\)$|^\((\w+),_\)$", key)
        for V in vs:
            dkeys = [k for k in table if re.match(r"^\(%s\b.*,%s\b" % (V, V), k)]
            okeys = [k for k in table if re.match(r"^\(%s(\(.*\))?,_\)(\|.*)?$" % V, k) or ("(%s(_),_)" % V) in k]
            ctx.check(bool(dkeys), rule, "%s:%s:diagonal" % (label, V), "%s lub has no (%s, %s) arm" % (label, V, V), loc,
                      detail={"former": V})
            off_ok = any(table[k]["is_error"] for k in okeys)
            ctx.check(off_ok, rule, "%s:%s:off-diagonal" % (label, V),
                      "%s lub: (%s, _) is not an error arm (a %s would be equal to a different former)" % (label, V, V), loc,
                      detail={"former": V, "off_diagonal": "err(..Mismatch)?"})
            for k in dkeys:
                row = table[k]
                want = ref.get(label, {}).get(V)
                if want is None:
                    ctx.violation(rule, "%s:%s:untabled" % (label, V), "%s former %s has no audited row in lub_table.json" % (label, V),
                                  [loc[0], row["ln"]])
                    continue
                missing = [c for c in want["compares"] if c not in row["compares"]]
                ctx.check(not missing, rule, "%s:%s:fields" % (label, V),
                          "%s lub (%s, %s) no longer compares %s with its counterpart: two %s types that differ there are now equal"
                          % (label, V, V, missing, V), [loc[0], row["ln"]],
                          detail={"former": V, "compares": row["compares"][:8]})
                # every comparison call returning Result is propagated
                _check_propagation(ctx, rule, "%s:%s" % (label, V), row, loc)
                # leaf acceptance needs a guard when the former has payload
                gs_now = _guards(row)
                extra = [g for g in gs_now if g.endswith("unguarded") and g not in want.get("accepting_unguarded", [])]
                ctx.check(not extra, rule, "%s:%s:new-accepting-case" % (label, V),
                          "%s lub (%s, %s) accepts a new case without comparing the two sides: %s" % (label, V, V, extra),
                          [loc[0], row["ln"]], detail={"former": V})
                if want.get("closed"):
                    added = sorted(set(gs_now) - set(want.get("guards", [])) - set(want.get("accepting_unguarded", [])))
                    ctx.check(not added, rule, "%s:%s:closed-cases" % (label, V),
                              "%s lub (%s, %s): a new accepting case %s was added to a leaf former whose equality is by identity / "
                              "binder level only" % (label, V, V, added), [loc[0], row["ln"]], detail={"former": V, "cases": sorted(gs_now)})
                for g in want.get("guards", []):
                    gs = gs_now
                    ctx.check(g in gs, rule, "%s:%s:guard" % (label, V),
                              "%s lub (%s, %s): accepting case is no longer guarded by %s (guards now: %s)" % (label, V, V, g, sorted(gs)),
                              [loc[0], row["ln"]], detail={"former": V, "guard": g})
        ctx.note("%s lub: %d arms, %d formers" % (label, len(table), len(vs)))
    _check_inner_matches(ctx, rule)
    _check_ann(ctx, rule)
    check_debruijn(ctx, "binder-levels")


def check_debruijn(ctx, rule):
    """The binder correspondence of alpha-equivalence: each binder pair entered gets its own level."""
    from .. import mirlib as M, symval
    facts = ctx.facts
    ctx.rule(rule, "Debruijn (the binder correspondence used by definitional equality): on every path `insert` returns a "
                   "correspondence whose level is the old level + 1 and records the left binder in `lhs` and the right binder in "
                   "`rhs`, both at the OLD level; lookup_lhs reads `lhs` and lookup_rhs reads `rhs` (symbolic value flow over MIR): "
                   "two bound variables are equal only when bound by the same pair of binders")
    base = "zydeco_statics::check::lub::Debruijn::"
    m = facts.mir(base + "insert")
    if m is None:
        ctx.anchor_lost(rule, base + "insert not found")
        return
    ctx.fn(base + "insert")
    loc = facts.bodies()[base + "insert"]["loc"]
    sv = symval.SymValues(M.Body(base + "insert", m))
    rets = sv.at_returns(("f0:level",))
    ctx.check(sv.stable and rets and all(v == "(+ (. $P0 level) 1)" for v in rets.values()), rule, "insert:level",
              "Debruijn::insert returns level = %s (must be the old level + 1 on every path): nested binders are paired at the "
              "same level, so ANY bound variable of the left type equals ANY bound variable of the right type"
              % sorted(set(rets.values())), loc, detail={"level_at_return": sorted(set(rets.values()))})
    ins = sv.call_args(lambda f: f.endswith("HashMap::<K, V, S, A>::insert"))
    sides = {}
    for bb, fn, args in ins:
        side = "lhs" if "(. $P0 lhs)" in args[0] else "rhs" if "(. $P0 rhs)" in args[0] else "?"
        sides.setdefault(side, []).append(args)
    for side, param in (("lhs", "$P1"), ("rhs", "$P2")):
        a = sides.get(side, [])
        ok = len(a) == 1 and param in a[0][1] and a[0][2] == "(. $P0 level)"
        ctx.check(ok, rule, "insert:%s" % side,
                  "Debruijn::insert must record the %s binder (%s) in `%s` at the old level; it records %s" % (side, param, side, a),
                  loc, detail={"records": a})
    ctx.check("?" not in sides, rule, "insert:other-map", "Debruijn::insert writes a map other than lhs / rhs: %s" % sides.get("?"), loc)
    for side in ("lhs", "rhs"):
        fn = base + "lookup_" + side
        m = facts.mir(fn)
        if m is None:
            ctx.anchor_lost(rule, fn + " not found")
            continue
        ctx.fn(fn)
        sv = symval.SymValues(M.Body(fn, m))
        gets = sv.call_args(lambda f: f.endswith("HashMap::<K, V, S, A>::get"))
        ok = len(gets) == 1 and ("(. (. $P0 *) %s)" % side) in gets[0][2][0] and "$P1" in gets[0][2][1]
        r = sv.at_returns(())
        ok = ok and all("HashMap::<K, V, S, A>::get" in v for v in r.values())
        ctx.check(ok, rule, "lookup_%s" % side, "Debruijn::lookup_%s must return the level recorded for its argument in `%s`; it "
                  "reads %s" % (side, side, [g[2] for g in gets]), facts.bodies()[fn]["loc"], detail={"reads": [g[2] for g in gets]})


def _guards(row):
    """Equality guards of accepting arms inside nested matches / arm guards, canonical."""
    env = row["env"]
    out = set()
    a = row["arm"]
    if a.get("guard") is not None:
        out.add(A.sexpr(a["guard"], env))
    for m in H.walk(a["body"]):
        if H.kind(m) == "Match" and not m.get("src"):
            for ia in m["arms"]:
                e2 = ArmEnv()
                e2.names = dict(env.names)
                e2.bind_pat(A.strip_or(ia["pat"]), prefix="I")
                if ia.get("guard") is not None:
                    out.add("%s if %s" % (A.pat_shape(ia["pat"]), A.sexpr(ia["guard"], e2)))
                elif not any(c.endswith("::err") for _, c in H.calls(ia["body"])):
                    out.add("%s unguarded" % A.pat_shape(ia["pat"]))
        if H.kind(m) == "If":
            out.add("if %s" % A.sexpr(m["c"], env))
    return out


def _check_propagation(ctx, rule, inst, row, loc):
    a = row["arm"]
    par = {}
    stack = [(a["body"], None)]
    while stack:
        n, p = stack.pop()
        if not isinstance(n, dict):
            continue
        par[id(n)] = p
        for c in H.children(n):
            stack.append((c, n))
    for n, c in H.calls(a["body"]):
        if not (c.endswith("::lub") or c.endswith("::lub_inner")):
            continue
        if not (n.get("ty") or "").startswith("core::result::Result<"):
            continue
        p = par.get(id(n))
        ok = p is not None and H.kind(p) == "Call" and (H.callee(p) or "").endswith("::branch")
        ctx.check(ok, rule, "%s:propagates" % inst, "a recursive lub result in arm %s is not propagated with `?`" % inst,
                  [loc[0], n.get("ln")])


def _check_inner_matches(ctx, rule):
    """Exists mode table."""
    facts = ctx.facts
    h = facts.hir(DEBRUIJN)
    env = A.Env()
    env.bind_params(h)
    m = next((x for x in H.walk(h["body"]) if H.kind(x) == "Match" and not x.get("src") and A.sexpr(x["scrut"], env).startswith("(tuple $lmode $rmode)")), None)
    if m is None:
        m = next((x for x in H.walk(h["body"]) if H.kind(x) == "Match" and not x.get("src")
                  and any("ExistsMode" in v for a in x["arms"] for v in H.pat_variants(a["pat"]))), None)
    if m is None:
        ctx.anchor_lost(rule, "Exists mode match not found")
        return
    table = {}
    for a in m["arms"]:
        p = A.strip_or(a["pat"])
        pats = p["pats"] if H.kind(p) == "Or" else [p]
        is_err = any(c.endswith("::err") for _, c in H.calls(a["body"]))
        for q in pats:
            table[A.pat_shape(q)] = "err" if is_err else "ok"
    want = {"(Abstract,Abstract)": "ok", "(Manifest(_),Manifest(_))": "ok", "(Abstract,Manifest(_))": "err", "(Manifest(_),Abstract)": "err"}
    ctx.check(table == want, rule, "type:Exists:mode-table", "existential mode table is %s, expected %s" % (table, want),
              facts.bodies()[DEBRUIJN]["loc"], detail={"modes": table})


def _check_ann(ctx, rule):
    facts = ctx.facts
    h = ctx.need_hir(rule, ANN_LUB)
    m = next((x for x in H.walk(h["body"]) if H.kind(x) == "Match" and not x.get("src")), None)
    table = {}
    for a in m["arms"]:
        p = A.strip_or(a["pat"])
        pats = p["pats"] if H.kind(p) == "Or" else [p]
        is_err = any(c.endswith("::err") for _, c in H.calls(a["body"]))
        for q in pats:
            table[A.pat_shape(q)] = "err" if is_err else "ok"
    want = {"(Set,Set)": "ok", "(Set,_)": "err", "(_,Set)": "err", "(Kind(_),Kind(_))": "ok", "(Kind(_),_)": "err",
            "(_,Kind(_))": "err", "(Type(_),Type(_))": "ok"}
    ctx.check(table == want, rule, "ann:sort-table", "AnnId lub table is %s, expected %s" % (table, want),
              facts.bodies()[ANN_LUB]["loc"], detail={"sorts": table})


def dump_reference(facts):
    """Helper used once to print the table for auditing (python3 -m zv.rules.lubarms)."""
    out = {}
    for fn, adt, label in ((DEBRUIJN, "zydeco_statics::syntax::Type", "type"), (KIND_LUB, "zydeco_statics::syntax::Kind", "kind")):
        h, m, table = extract(facts, fn, pick_inner)
        out[label] = {}
        for V in variants_of(facts, adt):
            for k, row in table.items():
                if re.match(r"^\(%s\b.*,%s\b" % (V, V), k):
                    gs = sorted(g for g in _guards(row) if "unguarded" not in g or True)
                    out[label][V] = {"arm": k, "compares": row["compares"], "guards": gs}
    return out


if __name__ == "__main__":
    from .. import facts as fm
    F = fm.Facts(fm.ensure())
    print(json.dumps(dump_reference(F), indent=1))
