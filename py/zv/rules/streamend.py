"""Stream-end rule (shared by C11 and C13).

An `Iterator::next` wrapper around a logos `SpannedIter` may make the token stream end (return
`None`) only on the `None` edge of the underlying `inner.next()`: MIR path rule.
"""
from .. import mirlib as M


def _variant_map(body, bb_idx, discr_local):
    """variants map of the `discr` rvalue assigning discr_local in block bb_idx (value -> name)."""
    for s in body.stmts(bb_idx):
        if s["d"] == discr_local and s["rv"]["k"] == "discr":
            return {int(v): n for v, n in (s["rv"].get("variants") or [])}, s["rv"]["p"]
    return None, None


def _edge_labels(body):
    """(bb, succ) -> label describing the variant set selected by that switch edge."""
    labels = {}
    for bb in range(body.n):
        t = body.term(bb)
        if t["k"] != "switch":
            continue
        dp = M.op_place(t["discr"])
        if dp is None:
            continue
        vm, place = _variant_map(body, bb, M.place_local(dp))
        if not vm:
            # boolean / integer switch: label with the line only for messages, not for keys
            for v, b in t["targets"]:
                labels.setdefault((bb, b), []).append(None)
            labels.setdefault((bb, t["otherwise"]), []).append(None)
            continue
        listed = set()
        for v, b in t["targets"]:
            listed.add(int(v))
            labels.setdefault((bb, b), []).append(vm.get(int(v), "?"))
        rest = [n for v, n in sorted(vm.items()) if v not in listed]
        if rest:
            labels.setdefault((bb, t["otherwise"]), []).append("|".join(rest))
    return labels


def check_stream_end(ctx, rule, fn_path, inner_next_pred, label):
    """Returns number of source calls analysed."""
    body = ctx.need_mir(rule, fn_path)
    sources = [(bb, t) for bb, t in body.calls() if inner_next_pred(t["fn"], t)]
    if not sources:
        ctx.anchor_lost(rule, "%s: no call of the underlying lexer's next() found" % label)
        return 0
    # none-capable writes of the return place
    none_sites = {}
    some_sites = 0
    for bb, k, s in body.assignments():
        if s["d"] == 0:
            rv = s["rv"]
            if rv["k"] == "agg" and rv.get("adt") == "core::option::Option" and rv.get("variant") == "Some":
                some_sites += 1
            else:
                none_sites[bb] = s.get("ln")
    for bb, t in body.calls():
        if t["dest"] == 0:
            none_sites[bb] = t.get("ln")
    if some_sites == 0 and not any(t["dest"] == 0 for _, t in body.calls()):
        ctx.anchor_lost(rule, "%s: no Some(..) result constructed" % label)
        return 0
    labels = _edge_labels(body)
    source_blocks = {bb for bb, _ in sources}
    for bb, t in sources:
        # find the None edges of this call's result
        dest = M.place_local(t["dest"])
        none_edges = set()
        found_switch = False
        cur = t.get("t")
        seen = set()
        while cur is not None and cur not in seen:
            seen.add(cur)
            term = body.term(cur)
            if term["k"] == "switch":
                dp = M.op_place(term["discr"])
                vm, place = _variant_map(body, cur, M.place_local(dp)) if dp is not None else (None, None)
                if vm and place == dest and set(vm.values()) == {"None", "Some"}:
                    found_switch = True
                    none_val = [v for v, n in vm.items() if n == "None"][0]
                    tg = {int(v): b for v, b in term["targets"]}
                    if none_val in tg:
                        none_edges.add((cur, tg[none_val]))
                    else:
                        none_edges.add((cur, term["otherwise"]))
                break
            if term["k"] in ("goto", "drop"):
                cur = term["t"]
                continue
            break
        if not found_switch:
            ctx.anchor_lost(rule, "%s: result of the underlying next() is not matched directly "
                                  "(cannot locate its None edge)" % label)
            continue
        # reachability from the call's successor, cutting the None edges, stopping at source calls
        start = t["t"]
        parent = {start: None}
        stack = [start]
        while stack:
            b = stack.pop()
            if b in source_blocks and b != start:
                continue
            for s in body.succs(b):
                if (b, s) in none_edges or s in parent:
                    continue
                parent[s] = b
                stack.append(s)
        bad = sorted(b for b in none_sites if b in parent)
        # report / discharge
        for b in none_sites:
            if b in parent:
                # reconstruct variant chain
                chain = []
                x = b
                while parent[x] is not None:
                    p = parent[x]
                    for lab in labels.get((p, x), []):
                        if lab:
                            chain.append(lab)
                    x = p
                chain.reverse()
                key = "/".join(chain) or "unconditional"
                ctx.violation(rule, "%s:%s" % (label, key),
                              "%s returns None (ends the token stream) on a path where the underlying lexer "
                              "still produced an item: after `inner.next()` = %s" % (fn_path, key.replace("/", " / ")),
                              [ctx.facts.bodies()[fn_path]["loc"][0], none_sites[b]])
            else:
                ctx.ok(rule, "%s:none-site@bb%d" % (label, b),
                       {"fn": fn_path, "none_result_line": none_sites[b], "only_reachable_via": "None edge of inner.next()"})
        if not bad:
            pass
    return len(sources)


def spanned_iter_next(fn, t):
    return fn.startswith("<logos::lexer::SpannedIter<") and fn.endswith("Iterator>::next")
