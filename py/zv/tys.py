"""Parsing of the type strings printed by rustc (no trimmed paths)."""
import functools
import re


def strip_refs(t):
    t = t.strip()
    while True:
        if t.startswith("&"):
            t = t[1:].lstrip()
            if t.startswith("'"):
                m = re.match(r"'[A-Za-z_0-9]*\s*", t)
                t = t[m.end():]
            if t.startswith("mut "):
                t = t[4:].lstrip()
            continue
        if t.startswith("*const "):
            t = t[7:]
            continue
        if t.startswith("*mut "):
            t = t[5:]
            continue
        return t


def is_mut_ref(t):
    t = t.strip()
    if not t.startswith("&"):
        return False
    t = t[1:].lstrip()
    if t.startswith("'"):
        m = re.match(r"'[A-Za-z_0-9]*\s*", t)
        t = t[m.end():]
    return t.startswith("mut ")


@functools.lru_cache(maxsize=100000)
def split_generic(t):
    """'a::B<X, Y<Z>>' -> ('a::B', ['X', 'Y<Z>']); lifetimes dropped from args."""
    t = t.strip()
    i = t.find("<")
    if i < 0 or not t.endswith(">"):
        return t, ()
    # make sure the final '>' closes the first '<'
    depth = 0
    for k, ch in enumerate(t):
        if ch == "<":
            depth += 1
        elif ch == ">":
            if k > 0 and t[k - 1] == "-":
                continue
            depth -= 1
            if depth == 0 and k != len(t) - 1:
                return t, ()
    head = t[:i]
    inner = t[i + 1:-1]
    args = []
    depth = 0
    cur = ""
    for k, ch in enumerate(inner):
        if ch in "<([":
            depth += 1
        elif ch in ")]":
            depth -= 1
        elif ch == ">" and not (k > 0 and inner[k - 1] == "-"):
            depth -= 1
        if ch == "," and depth == 0:
            args.append(cur.strip())
            cur = ""
        else:
            cur += ch
    if cur.strip():
        args.append(cur.strip())
    args = tuple(a for a in args if not a.startswith("'"))
    return head, args


RANDOM_HASH_HEADS = {
    "std::collections::hash::map::HashMap": 2,
    "std::collections::hash::set::HashSet": 1,
    "im::hash::map::HashMap": 2,
    "im::hash::set::HashSet": 1,
    "im::hashmap::HashMap": 2,
    "im::hashset::HashSet": 1,
    "dashmap::DashMap": 2,
    "dashmap::set::DashSet": 1,
    "hashbrown::map::HashMap": 2,
    "hashbrown::set::HashSet": 1,
}
RANDOM_STATE = ("std::hash::random::RandomState", "std::collections::hash::map::RandomState",
                "core::hash::BuildHasherDefault<std::hash::random::DefaultHasher>")

# iterator types over hash containers
RANDOM_ITER_HEADS = (
    "std::collections::hash::map::Iter", "std::collections::hash::map::IterMut", "std::collections::hash::map::Keys",
    "std::collections::hash::map::Values", "std::collections::hash::map::ValuesMut",
    "std::collections::hash::map::IntoIter", "std::collections::hash::map::IntoKeys",
    "std::collections::hash::map::IntoValues", "std::collections::hash::map::Drain",
    "std::collections::hash::set::Iter", "std::collections::hash::set::IntoIter", "std::collections::hash::set::Drain",
    "std::collections::hash::set::Difference", "std::collections::hash::set::Union",
    "std::collections::hash::set::Intersection", "std::collections::hash::set::SymmetricDifference",
)


def is_random_hash_container(t):
    """True when `t` (refs stripped) is a hash container whose hasher is the per-process random default."""
    t = strip_refs(t)
    head, args = split_generic(t)
    n = RANDOM_HASH_HEADS.get(head)
    if n is None:
        return False
    if len(args) <= n:
        return True  # default hasher elided by the printer
    hasher = args[n]
    return hasher in RANDOM_STATE or hasher.endswith("RandomState")


INSENSITIVE_HEADS = (
    "std::collections::hash::map::HashMap", "std::collections::hash::set::HashSet",
    "alloc::collections::btree::map::BTreeMap", "alloc::collections::btree::set::BTreeSet",
    "im::hash::map::HashMap", "im::hash::set::HashSet", "im::ord::map::OrdMap", "im::ord::set::OrdSet",
    "dashmap::DashMap", "hashbrown::map::HashMap", "hashbrown::set::HashSet",
    "indexmap::map::IndexMap", "indexmap::set::IndexSet",
)


UNORDERED_WRAPPERS = set()


def register_unordered_wrappers(adts):
    """Newtype structs (exactly one field) around an unordered collection are unordered collections."""
    changed = True
    while changed:
        changed = False
        for path, a in adts.items():
            if a["kind"] != "Struct" or path in UNORDERED_WRAPPERS:
                continue
            fields = a["variants"][0]["fields"] if a["variants"] else []
            if len(fields) == 1 and is_unordered_collection(fields[0]["ty"]):
                UNORDERED_WRAPPERS.add(path)
                changed = True


def is_unordered_collection(t):
    """Collections whose observable content does not depend on insertion order (sets/maps)."""
    t = strip_refs(t)
    head, _ = split_generic(t)
    if head in ("indexmap::map::IndexMap", "indexmap::set::IndexSet"):
        return False  # insertion-ordered
    if head in INSENSITIVE_HEADS:
        return True
    if head in UNORDERED_WRAPPERS:
        return True
    # repository arenas keyed by id (Fx maps / dense vectors indexed by id) and graph/set wrappers
    if head.startswith("zydeco_utils::arena::Arena") or head in (
            "zydeco_utils::graph::SccGroup", "zydeco_utils::graph::DepGraph", "zydeco_utils::graph::SrcGraph"):
        return True
    return False


SEQ_HEADS = ("alloc::vec::Vec", "alloc::collections::vec_deque::VecDeque", "alloc::string::String",
             "alloc::boxed::Box", "im::vector::Vector", "alloc::collections::linked_list::LinkedList",
             "smallvec::SmallVec", "core::option::Option", "core::result::Result", "alloc::rc::Rc", "alloc::sync::Arc")


def is_sequence(t):
    t = strip_refs(t)
    head, args = split_generic(t)
    if t.startswith("[") or head in ("alloc::vec::Vec", "alloc::collections::vec_deque::VecDeque",
                                     "alloc::string::String", "im::vector::Vector",
                                     "alloc::collections::linked_list::LinkedList"):
        return True
    if head in ("alloc::boxed::Box", "core::option::Option", "core::result::Result", "alloc::rc::Rc",
                "alloc::sync::Arc") and args:
        return is_sequence(args[0])
    if t.startswith("(") and t.endswith(")"):
        return any(is_sequence(a) for a in split_generic("T<" + t[1:-1] + ">")[1])
    return False


def mentions_unordered_only(t):
    """collect() target like HashSet<_> / Result<HashMap<..>, E> / (HashSet, HashSet)."""
    t = strip_refs(t)
    head, args = split_generic(t)
    if is_unordered_collection(t):
        return True
    if head in ("core::result::Result", "core::option::Option") and args:
        return mentions_unordered_only(args[0])
    return False


def head(t):
    return split_generic(strip_refs(t))[0]
