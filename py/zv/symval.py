"""Symbolic value flow over the compact MIR: what a place holds at each return, as a term over the function's parameters.

A forward dataflow with the flat lattice of terms (a place holds one term, or `phi@bb` where paths disagree). It is not an
execution: every block is visited along every CFG edge until the state is stable, branches are not decided, calls are opaque
terms `(call f args..)`, and a place whose address is handed to a call as `&mut` is forgotten. It is exact for the question it is
used for -- "on EVERY path, field F of the result is <term>" -- because a disagreement between two paths degrades to phi, which
matches no expected term (fail closed)."""
from . import mirlib as M


def _key(p):
    return (M.place_local(p), tuple(M.place_proj(p)))


class SymValues:
    def __init__(self, body):
        self.b = body
        self.argc = body.mir.get("argc", 0)
        self.out = {}      # bb -> state at the end of bb
        self.inn = {}
        self._run()

    # ---- terms ---------------------------------------------------------------------------------
    def base(self, local):
        return "$P%d" % (local - 1) if 1 <= local <= self.argc else "_%d" % local

    def read(self, st, p):
        l, proj = _key(p)
        # longest written prefix wins
        for i in range(len(proj), -1, -1):
            k = (l, proj[:i])
            if k in st:
                t = st[k]
                rest = proj[i:]
                return self._project(t, rest)
        return self._project(self.base(l), proj)

    def _project(self, t, rest):
        for pr in rest:
            if pr in ("deref", "*") and t.startswith("(ref "):
                t = t[5:-1]
                continue
            if t.startswith("(+ov ") and pr in ("f0", "f1"):
                t = "(+ " + t[5:] if pr == "f0" else "(overflow " + t[5:]
                continue
            if t.startswith("(-ov ") and pr in ("f0", "f1"):
                t = "(- " + t[5:] if pr == "f0" else "(overflow " + t[5:]
                continue
            t = "(. %s %s)" % (t, pr.split(":")[-1] if ":" in pr else pr)
        return t

    def operand(self, st, op):
        if op[0] == "k":
            c = op[1]
            if isinstance(c, dict) and c.get("bits") is None:
                # a named (unevaluated) constant or a constant without a scalar value: keep it visible as a constant
                return "const:%s" % (c.get("unev") or ("?" + str(c.get("ty"))))
            bits = c.get("bits") if isinstance(c, dict) else c
            return str(bits)
        return self.read(st, op[1])

    # ---- transfer -------------------------------------------------------------------------------
    def write(self, st, p, term):
        l, proj = _key(p)
        for k in [k for k in st if k[0] == l and k[1][:len(proj)] == proj]:
            del st[k]
        st[(l, proj)] = term

    def copy_place(self, st, dst, src):
        """dst = src for a whole place: the sub-places written below src move with it."""
        sl, sp = _key(src)
        subs = {k: v for k, v in st.items() if k[0] == sl and k[1][:len(sp)] == sp and len(k[1]) > len(sp)}
        whole = self.read(st, src)
        self.write(st, dst, whole)
        dl, dp = _key(dst)
        for k, v in subs.items():
            st[(dl, dp + k[1][len(sp):])] = v

    def stmt(self, st, s, refs):
        d, rv = s.get("d"), s.get("rv")
        if d is None or rv is None:
            return
        k = rv["k"]
        if k == "use" and rv["ops"][0][0] in ("c", "m"):
            self.copy_place(st, d, rv["ops"][0][1])
        elif k == "use":
            self.write(st, d, self.operand(st, rv["ops"][0]))
        elif k == "bin":
            a, b = (self.operand(st, o) for o in rv["ops"])
            op = {"AddWithOverflow": "+ov", "Add": "+", "AddUnchecked": "+", "SubWithOverflow": "-ov", "Sub": "-"}.get(rv["op"], rv["op"])
            self.write(st, d, "(%s %s %s)" % (op, a, b))
        elif k == "agg":
            ops = [self.operand(st, o) for o in rv["ops"]]
            name = (rv.get("adt") or rv.get("ak") or "agg").split("::")[-1]
            if rv.get("variant") and rv.get("ak") == "adt":
                name += "::" + rv["variant"]
            self.write(st, d, "(%s %s)" % (name, " ".join(ops)))
            fields = rv.get("fields")
            dl, dp = _key(d)
            for i, o in enumerate(ops):
                f = "f%d:%s" % (i, fields[i]) if fields and i < len(fields) else "f%d" % i
                st[(dl, dp + (f,))] = o
                # sub-places of a moved operand come along
                src = rv["ops"][i]
                if src[0] in ("c", "m"):
                    sl, sp = _key(src[1])
                    for kk, v in list(st.items()):
                        if kk[0] == sl and kk[1][:len(sp)] == sp and len(kk[1]) > len(sp):
                            st[(dl, dp + (f,) + kk[1][len(sp):])] = v
        elif k == "ref":
            self.write(st, d, "(ref %s)" % self.read(st, rv["p"]))
            if rv.get("mut"):
                refs[_key(d)] = rv["p"]
        elif k == "cast":
            self.write(st, d, "(as %s %s)" % (rv.get("to"), self.operand(st, rv["ops"][0])))
        elif k == "discr":
            self.write(st, d, "(discr %s)" % self.read(st, rv["p"]))
        else:
            self.write(st, d, "(%s@%s)" % (k, s.get("ln")))

    def block(self, bb, st):
        st = dict(st)
        refs = dict(st.get("__refs__", {}))
        for s in self.b.stmts(bb):
            self.stmt(st, s, refs)
        t = self.b.term(bb)
        if t["k"] == "call":
            args = [self.operand(st, a) for a in t.get("args", [])]
            for a in t.get("args", []):
                if a[0] in ("c", "m") and _key(a[1]) in refs:
                    tgt = refs[_key(a[1])]
                    self.write(st, tgt, "(mutated-by %s %s)" % (M.short_fn(t["fn"]), self.read(st, tgt)))
            if t.get("dest") is not None:
                self.write(st, t["dest"], "(call %s %s)" % (M.short_fn(t["fn"]), " ".join(args)))
        st["__refs__"] = refs
        return st

    def join(self, bb, states):
        if len(states) == 1:
            return dict(states[0])
        keys = set()
        for s in states:
            keys |= set(k for k in s if k != "__refs__")
        out = {}
        for k in keys:
            vals = set(self.read(s, [k[0]] + list(k[1])) for s in states)
            out[k] = vals.pop() if len(vals) == 1 else "phi@%d" % bb
        refs = {}
        for s in states:
            refs.update(s.get("__refs__", {}))
        out["__refs__"] = refs
        return out

    def _run(self):
        order = self.b._rpo(0)
        changed = True
        rounds = 0
        while changed and rounds < 12:
            changed = False
            rounds += 1
            for bb in order:
                preds = [p for p in self.b.preds(bb) if p in self.out]
                inn = {} if bb == 0 else (self.join(bb, [self.out[p] for p in preds]) if preds else None)
                if inn is None:
                    continue
                new = self.block(bb, inn)
                if self.out.get(bb) != new:
                    self.out[bb] = new
                    changed = True
        self.stable = not changed

    # ---- queries --------------------------------------------------------------------------------
    def at_returns(self, proj=()):
        """{return block: term of _0.<proj>}"""
        res = {}
        for bb in self.b.returns():
            if bb in self.out:
                res[bb] = self.read(self.out[bb], [0] + list(proj))
        return res

    def call_args(self, pred):
        """[(bb, fn, [arg terms])] for calls whose callee satisfies pred, evaluated in the state before the call."""
        out = []
        for bb in sorted(self.out):
            t = self.b.term(bb)
            if t["k"] == "call" and pred(t["fn"]):
                preds = [p for p in self.b.preds(bb) if p in self.out]
                inn = {} if bb == 0 else self.join(bb, [self.out[p] for p in preds])
                st = dict(inn)
                refs = dict(st.get("__refs__", {}))
                for s in self.b.stmts(bb):
                    self.stmt(st, s, refs)
                out.append((bb, t["fn"], [self.operand(st, a) for a in t.get("args", [])]))
        return out

    def aggregates(self, pred):
        """[(bb, rvalue, [operand terms])] for aggregate statements satisfying pred(rvalue), operands evaluated just before"""
        out = []
        for bb in sorted(self.out):
            preds = [p for p in self.b.preds(bb) if p in self.out]
            inn = {} if bb == 0 else (self.join(bb, [self.out[p] for p in preds]) if preds else None)
            if inn is None:
                continue
            st = dict(inn)
            refs = dict(st.get("__refs__", {}))
            for s_ in self.b.stmts(bb):
                rv = s_.get("rv")
                if rv and rv.get("k") == "agg" and pred(rv):
                    out.append((bb, rv, [self.operand(st, o) for o in rv["ops"]]))
                self.stmt(st, s_, refs)
        return out

