"""Check context: obligations, violations, known findings, evidence."""
import json
import os
import sys
import time

from . import facts as factsmod

VERIF = factsmod.VERIF


class AnchorLost(Exception):
    pass


class Ctx:
    def __init__(self, prop, tier, facts):
        self.prop = prop
        self.tier = tier
        self.facts = facts
        self.t0 = time.time()
        self.obligations = 0
        self.discharged = 0
        self.violations = []      # (key, message, loc)
        self.lost = []            # anchors that disappeared
        self.samples = []
        self.rule_counts = {}
        self.notes = []
        self.analysed = {"functions": set(), "call_sites": 0, "arms": 0}
        self.assumptions = []
        self.rules_applied = []

    # ---- bookkeeping -------------------------------------------------------------------------
    def rule(self, rid, text):
        self.rules_applied.append({"rule": rid, "statement": text})

    def fn(self, path):
        self.analysed["functions"].add(path)

    def ok(self, rule, instance, detail=None):
        self.obligations += 1
        self.discharged += 1
        self.rule_counts[rule] = self.rule_counts.get(rule, 0) + 1
        if detail is not None and sum(1 for s in self.samples if s.get("rule") == rule) < 3:
            self.samples.append({"rule": rule, "instance": instance, "verdict": "holds", "detail": detail})

    def violation(self, rule, instance, msg, loc=None):
        self.obligations += 1
        self.rule_counts[rule] = self.rule_counts.get(rule, 0) + 1
        key = "%s:%s" % (rule, instance)
        if any(v[0] == key for v in self.violations):
            return
        self.violations.append((key, msg, loc))

    def check(self, cond, rule, instance, msg, loc=None, detail=None):
        if cond:
            self.ok(rule, instance, detail)
        else:
            self.violation(rule, instance, msg, loc)
        return cond

    def anchor_lost(self, rule, what):
        self.lost.append("%s: %s" % (rule, what))

    def floor(self, rule, what, count, floor):
        """Fail closed when fewer instances were found than counted by hand on the pinned tree."""
        if count < floor:
            self.lost.append("%s: only %d %s found (floor %d)" % (rule, count, what, floor))
        self.notes.append("%s: %d %s (floor %d)" % (rule, count, what, floor))

    def note(self, s):
        self.notes.append(s)

    def assume(self, s):
        self.assumptions.append(s)

    # ---- anchors -----------------------------------------------------------------------------
    def need_body(self, rule, path):
        b = self.facts.bodies().get(path)
        if b is None:
            self.anchor_lost(rule, "function %s not found" % path)
            raise AnchorLost(path)
        self.fn(path)
        return b

    def need_hir(self, rule, path):
        self.need_body(rule, path)
        h = self.facts.hir(path)
        if h is None:
            self.anchor_lost(rule, "no HIR for %s" % path)
            raise AnchorLost(path)
        return h

    def need_mir(self, rule, path):
        from .mirlib import Body
        self.need_body(rule, path)
        m = self.facts.mir(path)
        if m is None:
            self.anchor_lost(rule, "no MIR for %s" % path)
            raise AnchorLost(path)
        return Body(path, m)


def load_known():
    p = os.path.join(VERIF, "known-findings.json")
    if not os.path.exists(p):
        return []
    with open(p) as fh:
        return json.load(fh)["findings"]


def finish(ctx, level="other", explanation="", extra_cov=None):
    """Print verdict lines, write evidence, return exit code."""
    prop = ctx.prop
    known = {k["key"]: k for k in load_known() if k.get("property") == prop and k.get("status") == "known"}
    new = []
    hit_known = []
    for key, msg, loc in ctx.violations:
        if key in known:
            hit_known.append((key, msg, loc))
        else:
            new.append((key, msg, loc))
    evdir = os.environ.get("ZV_EVIDENCE_DIR") or os.path.join(VERIF, "evidence")
    os.makedirs(evdir, exist_ok=True)
    replay = os.path.join(evdir, "%s.violations.json" % prop)
    status = "ok"
    code = 0
    if ctx.lost:
        status = "not-analysed"
        code = 2
    if new:
        status = "violation"
        code = 1
    with open(replay, "w") as fh:
        json.dump({"property": prop, "status": status,
                   "violations": [{"key": k, "message": m, "loc": l} for k, m, l in new],
                   "known_findings_observed": [{"key": k, "message": m, "loc": l} for k, m, l in hit_known],
                   "anchors_lost": ctx.lost}, fh, indent=1)
    for key, msg, loc in hit_known:
        print("KNOWN-FINDING: property=%s %s -- %s" % (prop, key, known[key].get("what", msg)))
    for key, msg, loc in new:
        print("  violation %s\n      %s%s" % (key, msg, ("\n      at %s" % fmt_loc(loc)) if loc else ""))
    for l in ctx.lost:
        print("ANCHOR-LOST property=%s %s" % (prop, l))
    if new:
        print("VIOLATION property=%s replay=%s" % (prop, replay))
    cov = {
        "explanation": explanation,
        "obligations": ctx.obligations,
        "discharged": ctx.discharged,
        "rule_instances": ctx.rule_counts,
        "rules": ctx.rules_applied,
        "functions_analysed": len(ctx.analysed["functions"]),
        "functions": sorted(ctx.analysed["functions"])[:80],
        "samples": ctx.samples[:40] or [{"note": "no instance recorded"}],
        "notes": ctx.notes,
        "known_findings_observed": [k for k, _, _ in hit_known],
        "new_violations": [k for k, _, _ in new],
        "anchors_lost": ctx.lost,
        "facts_dir": os.path.basename(ctx.facts.dir) if ctx.facts else None,
        "crates_analysed": ctx.facts.tags() if ctx.facts else [],
        "exhaustive": False,
    }
    if extra_cov:
        cov.update(extra_cov)
    ev = {
        "property_id": prop,
        "tier": ctx.tier,
        "seed": int(os.environ.get("VERIF_SEED", "0") or 0),
        "level": level,
        "coverage": cov,
        "assumptions": ctx.assumptions,
        "wall_s": round(time.time() - ctx.t0, 2),
        "violations": len(new),
        "status": status,
    }
    with open(os.path.join(evdir, "%s.json" % prop), "w") as fh:
        json.dump(ev, fh, indent=1)
    print("[%s] %s: %d obligations, %d discharged, %d known findings, %d new violations, %d anchors lost (%.1fs)"
          % (prop, status, ctx.obligations, ctx.discharged, len(hit_known), len(new), len(ctx.lost),
             time.time() - ctx.t0), file=sys.stderr)
    return code


def fmt_loc(loc):
    if isinstance(loc, (list, tuple)) and len(loc) >= 2:
        return "%s:%s" % (loc[0], loc[1])
    return str(loc)
