"""verif CLI: `verif check <property> [--tier quick|thorough]`, `verif setup`, `verif facts`."""
import argparse
import importlib
import json
import os
import sys
import time
import traceback

from . import facts as factsmod
from . import report


def write_not_analysed(prop, tier, msg, t0):
    evdir = os.environ.get("ZV_EVIDENCE_DIR") or os.path.join(factsmod.VERIF, "evidence")
    os.makedirs(evdir, exist_ok=True)
    ev = {
        "property_id": prop, "tier": tier, "seed": int(os.environ.get("VERIF_SEED", "0") or 0),
        "level": "other",
        "coverage": {"explanation": "NOT ANALYSED: " + msg[:2000], "obligations": 0, "discharged": 0,
                     "samples": [{"note": "not analysed"}]},
        "wall_s": round(time.time() - t0, 2), "violations": 0, "status": "not-analysed",
    }
    with open(os.path.join(evdir, "%s.json" % prop), "w") as fh:
        json.dump(ev, fh, indent=1)


def cmd_check(args):
    prop = args.property.upper()
    tier = args.tier or os.environ.get("VERIF_TIER") or "quick"
    if tier not in ("quick", "thorough"):
        tier = "quick"
    t0 = time.time()
    try:
        mod = importlib.import_module("zv.rules.%s" % prop.lower())
    except ImportError as e:
        print("no rule module for %s: %s" % (prop, e), file=sys.stderr)
        return 2
    try:
        fdir = factsmod.ensure(all_targets=False)
    except factsmod.FactsError as e:
        print("NOT-ANALYSED property=%s: %s" % (prop, e))
        write_not_analysed(prop, tier, str(e), t0)
        return 2
    f = factsmod.Facts(fdir)
    ctx = report.Ctx(prop, tier, f)
    ctx.t0 = t0
    try:
        res = mod.run(ctx)
    except report.AnchorLost:
        res = None
    except Exception:
        traceback.print_exc()
        ctx.anchor_lost("internal", "checker exception: " + traceback.format_exc().splitlines()[-1])
        res = None
    res = res or {}
    if tier == "thorough" and not os.environ.get("ZV_REPO"):
        # calibration of the checker itself: recorded breaking / benign changes, each in a scratch worktree
        from . import selftest
        try:
            st = selftest.run(prop)
            bad = [r for r in st if not r["ok"]]
            cov = dict(res.get("coverage") or {})
            cov["selftest"] = {"patches": len(st), "as_expected": len(st) - len(bad),
                               "breaking_detected": sum(1 for r in st if r.get("expected") == "violation" and r["ok"]),
                               "benign_silent": sum(1 for r in st if r.get("expected") != "violation" and r["ok"]),
                               "not_as_expected": [r["patch"] for r in bad], "results": st}
            res["coverage"] = cov
            print("[%s] self-test: %d recorded changes, %d as expected%s" % (prop, len(st), len(st) - len(bad),
                  (", NOT as expected: %s" % [r["patch"] for r in bad]) if bad else ""))
        except Exception:
            traceback.print_exc()
    return report.finish(ctx, level=res.get("level", "other"),
                         explanation=getattr(mod, "EXPLANATION", "") or res.get("explanation", ""),
                         extra_cov=res.get("coverage"))


def cmd_setup(args):
    factsmod.build_driver()
    fdir = factsmod.ensure(all_targets=False)
    print("facts ready:", fdir)
    return 0


def cmd_facts(args):
    print(factsmod.ensure(all_targets=args.all_targets))
    return 0


def main(argv=None):
    ap = argparse.ArgumentParser(prog="verif")
    sub = ap.add_subparsers(dest="cmd", required=True)
    c = sub.add_parser("check")
    c.add_argument("property")
    c.add_argument("--tier", default=None)
    c.set_defaults(fn=cmd_check)
    s = sub.add_parser("setup")
    s.set_defaults(fn=cmd_setup)
    fa = sub.add_parser("facts")
    fa.add_argument("--all-targets", action="store_true")
    fa.set_defaults(fn=cmd_facts)
    args = ap.parse_args(argv)
    return args.fn(args)


if __name__ == "__main__":
    sys.exit(main())
