"""Fact production and loading.

Facts are produced by the zyq rustc driver (RUSTC_WORKSPACE_WRAPPER) from /repo's *current
working tree* and cached under /verif/.cache/facts/<tree-hash>/ . Nothing here executes zydeco.
"""
import fcntl
import hashlib
import json
import os
import shutil
import subprocess
import sys
import time

VERIF = os.path.dirname(os.path.dirname(os.path.dirname(os.path.abspath(__file__))))
REPO = os.environ.get("ZV_REPO", "/repo")
CACHE = os.path.join(VERIF, ".cache")
DRIVER = os.path.join(VERIF, "zyq", "target", "release", "zyq")

# packages (fact-file tags) that must be present after a driver run; floors = bodies counted on the
# pinned tree minus a tolerance of 20% (a refactor may remove functions; a crate silently not
# analysed loses all of them).
EXPECTED_TAGS = {
    "zydeco_utils": 360, "zydeco_syntax": 330, "zydeco_surface": 2900, "zydeco_statics": 4500,
    "zydeco_dynamics": 190, "zydeco_stackir": 500, "zydeco_assembly": 300, "zydeco_amd64": 150,
    "zydeco_llvm": 38, "zydeco_session": 650, "zydeco_tests": 27, "zydeco_tui": 95,
    "zydeco_cli": 120, "cajun": 295, "zydeco-bin-main": 16, "cajun-bin-main": 10,
    "zydeco_tui-bin-main": 1,
}

SKIP_DIRS = {"target", ".git", "node_modules", "build", ".pnpm-store", "web"}
HASH_EXT = (".rs", ".lalrpop", ".toml", ".lock", ".zy", ".zyi", ".zydeco")


class FactsError(Exception):
    """The tree could not be analysed (compile error, missing crate, count below floor)."""


def tree_hash(repo=REPO):
    h = hashlib.sha256()
    files = []
    for root, dirs, fnames in os.walk(repo):
        dirs[:] = sorted(d for d in dirs if d not in SKIP_DIRS)
        for f in sorted(fnames):
            if f.endswith(HASH_EXT):
                files.append(os.path.join(root, f))
    for p in files:
        try:
            with open(p, "rb") as fh:
                data = fh.read()
        except OSError:
            continue
        h.update(os.path.relpath(p, repo).encode())
        h.update(b"\0")
        h.update(hashlib.sha256(data).digest())
    # the driver binary is part of the key: new driver => new facts
    try:
        st = os.stat(DRIVER)
        h.update(("%d:%d" % (st.st_size, int(st.st_mtime))).encode())
    except OSError:
        pass
    return h.hexdigest()[:24]


def nightly_sysroot():
    return subprocess.check_output(["rustc", "+nightly", "--print", "sysroot"], text=True).strip()


def build_driver():
    env = dict(os.environ, CARGO_NET_OFFLINE="true")
    r = subprocess.run(["cargo", "build", "--release", "--offline"], cwd=os.path.join(VERIF, "zyq"),
                       env=env, capture_output=True, text=True)
    if r.returncode != 0:
        raise FactsError("zyq driver does not build:\n" + r.stderr[-4000:])


def _run_driver(out_dir, repo=REPO, all_targets=False, target_dir=None):
    target_dir = target_dir or os.path.join(CACHE, "target")
    os.makedirs(target_dir, exist_ok=True)
    # cargo's freshness cache would skip the wrapper: drop the members' fingerprints
    for prof in ("debug",):
        fp = os.path.join(target_dir, prof, ".fingerprint")
        if os.path.isdir(fp):
            for d in os.listdir(fp):
                if d.startswith(("zydeco", "cajun")):
                    shutil.rmtree(os.path.join(fp, d), ignore_errors=True)
    env = dict(os.environ)
    env.update({
        "LD_LIBRARY_PATH": nightly_sysroot() + "/lib",
        "RUSTFLAGS": "-Zmir-opt-level=0 -Awarnings",
        "RUSTC_WORKSPACE_WRAPPER": DRIVER,
        "ZYQ_OUT": out_dir,
        "CARGO_TARGET_DIR": target_dir,
        "CARGO_NET_OFFLINE": "true",
    })
    env.pop("RUSTC_WRAPPER", None)
    cmd = ["cargo", "+nightly", "check", "--offline", "--workspace"]
    if all_targets:
        cmd.append("--all-targets")
    r = subprocess.run(cmd, cwd=repo, env=env, capture_output=True, text=True)
    return r


def ensure(all_targets=False, repo=REPO, verbose=True):
    """Return the directory holding facts for the current working tree of `repo`."""
    os.makedirs(os.path.join(CACHE, "facts"), exist_ok=True)
    if not os.path.exists(DRIVER):
        build_driver()
    lock = open(os.path.join(CACHE, "lock"), "w")
    fcntl.flock(lock, fcntl.LOCK_EX)
    try:
        h = tree_hash(repo) + ("-all" if all_targets else "")
        out = os.path.join(CACHE, "facts", h)
        done = os.path.join(out, "DONE")
        if os.path.exists(done):
            return out
        if os.path.isdir(out):
            shutil.rmtree(out)
        os.makedirs(out)
        t0 = time.time()
        r = _run_driver(out, repo, all_targets)
        if r.returncode != 0:
            tail = "\n".join(l for l in r.stderr.splitlines() if not l.lstrip().startswith(("Checking", "Compiling")))[-6000:]
            shutil.rmtree(out, ignore_errors=True)
            raise FactsError("cargo +nightly check failed on the current tree of %s:\n%s" % (repo, tail))
        # completeness
        missing = []
        for tag, floor in EXPECTED_TAGS.items():
            p = os.path.join(out, tag + ".index.json")
            if not os.path.exists(p):
                missing.append(tag + " (no fact file)")
                continue
            with open(p) as fh:
                n = len(json.load(fh)["bodies"])
            if n < floor:
                missing.append("%s (%d bodies < floor %d)" % (tag, n, floor))
        if missing:
            shutil.rmtree(out, ignore_errors=True)
            raise FactsError("driver output incomplete: " + ", ".join(missing))
        with open(done, "w") as fh:
            fh.write("%.1f\n" % (time.time() - t0))
        if verbose:
            print("[facts] analysed %s in %.1fs -> %s" % (repo, time.time() - t0, out), file=sys.stderr)
        _gc(keep=out)
        return out
    finally:
        fcntl.flock(lock, fcntl.LOCK_UN)
        lock.close()


def _gc(keep, limit=6):
    root = os.path.join(CACHE, "facts")
    ds = [os.path.join(root, d) for d in os.listdir(root)]
    ds = [d for d in ds if os.path.isdir(d) and d != keep]
    ds.sort(key=lambda d: os.path.getmtime(d))
    while len(ds) > limit:
        shutil.rmtree(ds.pop(0), ignore_errors=True)


class Facts:
    """Lazy view over one facts directory."""

    def __init__(self, d):
        self.dir = d
        self._index = {}
        self._mir = {}
        self._hir = {}
        self._tags = sorted(f[:-len(".index.json")] for f in os.listdir(d) if f.endswith(".index.json"))
        self._bodies = None
        self._calls_from = None
        self._calls_to = None
        self._adts = None

    # ---- index -------------------------------------------------------------------------------
    def tags(self, tests=False):
        return [t for t in self._tags if tests or not t.endswith("-test")]

    def index(self, tag):
        if tag not in self._index:
            with open(os.path.join(self.dir, tag + ".index.json")) as fh:
                self._index[tag] = json.load(fh)
        return self._index[tag]

    def bodies(self):
        """def path -> body entry (with 'tag'). Non-test crates only."""
        if self._bodies is None:
            self._bodies = {}
            for t in self.tags():
                for b in self.index(t)["bodies"]:
                    b["tag"] = t
                    self._bodies.setdefault(b["def"], b)
        return self._bodies

    def calls(self):
        for t in self.tags():
            for c in self.index(t)["calls"]:
                yield c

    def calls_from(self):
        if self._calls_from is None:
            d = {}
            for c in self.calls():
                d.setdefault(c["from"], []).append(c)
            self._calls_from = d
        return self._calls_from

    def calls_to(self):
        if self._calls_to is None:
            d = {}
            for c in self.calls():
                d.setdefault(c["to"], []).append(c)
            self._calls_to = d
        return self._calls_to

    def adts(self):
        if self._adts is None:
            self._adts = {}
            for t in self.tags():
                for a in self.index(t)["adts"]:
                    self._adts.setdefault(a["def"], a)
        return self._adts

    def statics(self):
        for t in self.tags():
            for s in self.index(t)["statics"]:
                s = dict(s, tag=t)
                yield s

    def impls(self):
        for t in self.tags():
            for s in self.index(t)["impls"]:
                yield dict(s, tag=t)

    # ---- per-body ----------------------------------------------------------------------------
    def _load_lines(self, tag, kind):
        store = self._mir if kind == "mir" else self._hir
        if tag not in store:
            d = {}
            with open(os.path.join(self.dir, "%s.%s.jsonl" % (tag, kind))) as fh:
                for line in fh:
                    # def path is the first key: cheap extraction without parsing the whole line
                    end = line.index('","' + kind + '":')
                    key = json.loads(line[7:end + 1])
                    d.setdefault(key, line)
            store[tag] = d
        return store[tag]

    def _get(self, path, kind):
        b = self.bodies().get(path)
        tags = [b["tag"]] if b else self.tags()
        for t in tags:
            lines = self._load_lines(t, kind)
            v = lines.get(path)
            if v is not None:
                if isinstance(v, str):
                    v = json.loads(v)[kind]
                    lines[path] = v
                return v
        return None

    def mir(self, path):
        return self._get(path, "mir")

    def hir(self, path):
        return self._get(path, "hir")

    def find_bodies(self, pred):
        return [b for b in self.bodies().values() if pred(b)]

    def bodies_in_file(self, relfile):
        return [b for b in self.bodies().values() if b["loc"][0] == relfile]
