"""Whole-workspace call graph with trait / dyn fan-out (R-REACH)."""
import re


class CallGraph:
    def __init__(self, facts):
        self.facts = facts
        self.bodies = facts.bodies()
        self.out = {}
        for c in facts.calls():
            self.out.setdefault(c["from"], []).append(c)
        # closures and nested items are reachable from their parent body
        self.children = {}
        for path in self.bodies:
            if "::{closure#" in path:
                parent = path.rsplit("::{closure#", 1)[0]
                self.children.setdefault(parent, []).append(path)
        # trait method -> implementations in the workspace
        self.impls_of = {}
        for path, b in self.bodies.items():
            tr = b.get("impl_trait")
            if tr:
                name = path.rsplit("::", 1)[-1]
                self.impls_of.setdefault((tr, name), []).append(path)

    def targets(self, call):
        """Workspace bodies a call edge may enter."""
        to = call["to"]
        if to in self.bodies:
            return [to]
        if to.startswith("dyn:") or to.startswith("inst:") or to.startswith("shim:"):
            to = to.split(":", 1)[1]
            if to in self.bodies:
                return [to]
        # unresolved trait method (generic or dyn): fan out to every workspace impl
        m = re.match(r"^(.*)::([A-Za-z_0-9]+)$", to)
        if m:
            tr, name = m.group(1), m.group(2)
            tr = tr.split("<")[0] if not tr.startswith("<") else tr
            hits = self.impls_of.get((tr, name))
            if hits:
                return hits
        decl = call.get("decl")
        if decl:
            m = re.match(r"^(.*)::([A-Za-z_0-9]+)$", decl)
            if m:
                hits = self.impls_of.get((m.group(1), m.group(2)))
                # a resolved std impl (e.g. Vec::clone) is not a workspace body
                if hits and call["to"] == decl:
                    return hits
        return []

    def reach(self, roots, forbidden, cuts=(), max_nodes=200000):
        """BFS from roots. `forbidden(callee_path)` -> label or None. Returns list of
        (root, path_of_functions, call_edge, label) for each forbidden edge reached without passing a cut."""
        cuts = set(cuts)
        hits = []
        for root in roots:
            seen = {root: None}
            queue = [root]
            while queue:
                fn = queue.pop(0)
                for ch in self.children.get(fn, []):
                    if ch not in seen:
                        seen[ch] = fn
                        queue.append(ch)
                for c in self.out.get(fn, []):
                    lab = forbidden(c["to"], c)
                    if lab:
                        path = [fn]
                        x = fn
                        while seen[x] is not None:
                            x = seen[x]
                            path.append(x)
                        hits.append((root, list(reversed(path)), c, lab))
                    for t in self.targets(c):
                        if t in seen:
                            continue
                        if t in cuts:
                            seen[t] = fn
                            continue  # do not descend into a cut function
                        seen[t] = fn
                        queue.append(t)
                if len(seen) > max_nodes:
                    break
        return hits

    def reachable_set(self, roots, cuts=()):
        cuts = set(cuts)
        seen = set(roots)
        queue = list(roots)
        while queue:
            fn = queue.pop()
            for ch in self.children.get(fn, []):
                if ch not in seen:
                    seen.add(ch)
                    queue.append(ch)
            for c in self.out.get(fn, []):
                for t in self.targets(c):
                    if t not in seen:
                        seen.add(t)
                        if t not in cuts:
                            queue.append(t)
        return seen
