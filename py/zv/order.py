"""R-ORDER: hash-order taint over typed HIR.

Sources  : iteration over containers whose hasher is the per-process random default (decided from the
           resolved receiver type), calls of workspace functions summarised as returning a
           hash-ordered sequence.
Consumers: every source is followed through iterator adaptors, let-bindings, loops, closures,
           returns (function summaries, fixpoint) and arguments (parameter summaries) until it reaches
           an order-insensitive consumer (set/map construction, count/any/all/min/max, membership),
           a neutraliser (sort* before any other use) or an ordered sink (reported).
"""
from . import hirlib as H
from . import tys

ITER_METHODS = {"iter", "iter_mut", "keys", "values", "values_mut", "into_iter", "drain", "into_keys",
                "into_values", "difference", "union", "intersection", "symmetric_difference", "extract_if"}
# im::HashMap::union etc. produce maps, not iterators: decided by result type.

ADAPTORS = {"map", "filter", "filter_map", "flat_map", "flatten", "cloned", "copied", "chain", "enumerate",
            "inspect", "peekable", "by_ref", "into_iter", "iter", "iter_mut", "rev", "zip", "fuse", "map_while",
            "as_slice", "as_mut_slice", "to_vec", "clone", "to_owned", "into_boxed_slice", "as_ref", "as_mut",
            "borrow", "unwrap", "expect", "unwrap_or_default", "unwrap_or", "unwrap_or_else", "ok", "map_err",
            "ok_or", "ok_or_else", "into", "deref", "as_deref", "drain", "into_keys", "into_values", "keys",
            "values", "skip_while_none", "chunks", "windows", "join", "concat", "to_string", "collect_vec"}
INSENSITIVE_TERMINALS = {"count", "any", "all", "sum", "product", "min", "max", "len", "is_empty", "contains",
                         "contains_key", "is_subset", "is_superset", "is_disjoint", "get", "get_mut",
                         "capacity", "reserve", "for_each_insensitive"}
CHOICE = {"next", "last", "nth", "find", "find_map", "position", "rposition", "take", "skip", "step_by", "first",
          "peek", "reduce", "take_while", "skip_while", "min_by", "max_by", "min_by_key", "max_by_key", "pop",
          "remove", "swap_remove", "split_first", "split_last", "scan", "next_back", "rfind", "try_for_each"}
SORTS = ("sort", "sort_by", "sort_by_key", "sort_unstable", "sort_unstable_by", "sort_unstable_by_key",
         "sort_by_cached_key")
SEQ_MUTATORS = {"push", "push_str", "push_back", "push_front", "extend", "insert", "append", "write_str",
                "write_fmt", "write_all", "write", "extend_from_slice", "push_within_capacity"}
WRITER_HEADS = ("core::fmt::Formatter", "std::io::stdio::Stdout", "std::io::stdio::Stderr",
                "std::io::stdio::StdoutLock", "std::fs::File", "std::io::buffered::bufwriter::BufWriter")
COMMUTATIVE_ASSIGN = {"AddAssign", "MulAssign", "BitOrAssign", "BitAndAssign", "BitXorAssign", "SubAssign"}


class Finding:
    def __init__(self, fn, source, sink, line):
        self.fn = fn
        self.source = source
        self.sink = sink
        self.line = line

    def key(self):
        return "%s|%s|%s" % (self.fn, self.source, self.sink)

    def __repr__(self):
        return "Finding(%s @%s)" % (self.key(), self.line)


def short_ty(t):
    t = tys.strip_refs(t)
    h, a = tys.split_generic(t)
    hs = h.split("::")[-1]
    if h.startswith("im::"):
        hs = "im::" + hs
    if h.startswith("dashmap::"):
        hs = "dashmap::" + hs
    if a:
        return "%s<%s>" % (hs, ",".join(short_ty(x) for x in a[:2]))
    return hs


class BodyAnalysis:
    def __init__(self, eng, path, hir, param_sources=None):
        self.eng = eng
        self.path = path
        self.hir = hir
        self.findings = []
        self.discharged = []   # (source desc, how)
        self.returns = None    # None | "iter" | "seq"
        self.nodes = []
        self.parent = {}
        self.index = {}
        self.last = {}
        self.param_sources = param_sources or {}
        self._seen_flow = set()
        self._build()

    # ---- indexing ----------------------------------------------------------------------------
    def _build(self):
        root = self.hir["body"]
        stack = [(root, None)]
        order = []
        while stack:
            n, p = stack.pop()
            if not isinstance(n, dict):
                continue
            i = len(order)
            order.append(n)
            self.index[id(n)] = i
            self.parent[id(n)] = p
            cs = list(H.children(n))
            for c in reversed(cs):
                stack.append((c, n))
        self.nodes = order
        # last index of each subtree
        last = {}
        for i in range(len(order) - 1, -1, -1):
            n = order[i]
            l = last.get(id(n), i)
            last[id(n)] = max(l, i)
            p = self.parent[id(n)]
            if p is not None:
                last[id(p)] = max(last.get(id(p), 0), last[id(n)])
        self.last = last
        self.local_decl = {}
        for n in order:
            if H.kind(n) == "Bind":
                self.local_decl.setdefault(n["local"], n)
        for p in self.hir["params"]:
            for b in H.pat_bindings(p):
                self.local_decl.setdefault(b["local"], b)

    def par(self, n):
        return self.parent.get(id(n))

    def inside(self, n, anc):
        if id(n) not in self.index or id(anc) not in self.index:
            return False
        return self.index[id(anc)] <= self.index[id(n)] <= self.last[id(anc)]

    def uses_of(self, local, after_index, exclude=None):
        out = []
        for i in range(after_index + 1, len(self.nodes)):
            n = self.nodes[i]
            if H.kind(n) == "Path" and n.get("res", {}).get("local") == local:
                if exclude is not None and self.inside(n, exclude):
                    continue
                out.append(n)
        return out

    # ---- reporting -----------------------------------------------------------------------------
    def bad(self, src, sink, node):
        self.findings.append(Finding(self.path, src, sink, node.get("ln") if isinstance(node, dict) else None))

    def good(self, src, how):
        self.discharged.append((src, how))

    # ---- sources -------------------------------------------------------------------------------
    def run(self):
        for n in list(self.nodes):
            k = H.kind(n)
            if k == "MethodCall":
                rt = n.get("recv_ty", "")
                name = n["name"]
                if tys.is_random_hash_container(rt):
                    if name in ITER_METHODS and not tys.is_unordered_collection(n.get("ty", "")):
                        self.flow(n, "iter", "%s::%s" % (short_ty(rt), name))
                        continue
                    if name == "retain":
                        self.closure_effects(n, "%s::retain" % short_ty(rt))
                        continue
                # calls to functions summarised as returning hash-ordered data
                st = self.eng.returns_state(n.get("fn"))
                if st:
                    self.flow(n, st, "%s()" % _short_fn(n.get("fn")))
                    continue
                # containers passed wholesale to order-consuming generic calls
                if name in ("extend", "chain", "zip", "extend_from_slice", "append"):
                    for a in n["args"]:
                        if tys.is_random_hash_container(a.get("ty", "")):
                            self.flow(a, "iter", "%s (whole container)" % short_ty(a.get("ty", "")))
            elif k == "Call":
                c = H.callee(n) or ""
                if c.endswith("IntoIterator>::into_iter") or c.endswith("IntoIterator::into_iter"):
                    a = n["args"][0] if n["args"] else None
                    if a is not None and tys.is_random_hash_container(a.get("ty", "")):
                        self.flow(n, "iter", "%s::into_iter" % short_ty(a.get("ty", "")))
                        continue
                    # for-loops over wrappers / functions returning OT
                st = self.eng.returns_state(c)
                if st:
                    self.flow(n, st, "%s()" % _short_fn(c))
                    continue
                if c.endswith("::from_iter") or c.endswith("::extend"):
                    for a in n["args"]:
                        if tys.is_random_hash_container(a.get("ty", "")):
                            self.flow(a, "iter", "%s (whole container)" % short_ty(a.get("ty", "")))
        for local, st in self.param_sources.items():
            for u in self.uses_of(local, -1):
                self.flow(u, st, "param")
        return self

    # ---- climbing ------------------------------------------------------------------------------
    def flow(self, node, state, src):
        """`node` evaluates to hash-ordered data (`state`): follow it to its consumer."""
        guard = (id(node), state, src)
        if guard in self._seen_flow:
            return
        self._seen_flow.add(guard)
        cur = node
        while True:
            p = self.par(cur)
            if p is None:
                # body root: function result
                self.set_return(state, src, cur)
                return
            k = H.kind(p)
            if k == "MethodCall":
                if p["recv"] is cur:
                    name = p["name"]
                    rty = p.get("ty", "")
                    if name in SORTS:
                        self.good(src, "sorted in place")
                        return
                    if name == "collect" or name == "unzip" or name == "partition":
                        if tys.mentions_unordered_only(rty):
                            self.closure_args_effects(p, src)
                            self.good(src, "collected into %s" % short_ty(rty))
                            return
                        state = "seq"
                        cur = p
                        continue
                    if name in ("for_each", "try_for_each"):
                        self.closure_effects(p, src)
                        return
                    if name in ("fold", "try_fold"):
                        if self.fold_is_insensitive(p):
                            self.good(src, "fold into an unordered collection")
                        else:
                            self.bad(src, "fold (order-dependent accumulation)", p)
                        return
                    if name in INSENSITIVE_TERMINALS:
                        self.closure_args_effects(p, src)
                        self.good(src, "order-insensitive terminal .%s()" % name)
                        return
                    if name in ("pop", "pop_front", "pop_back") and self.worklist_loop(p, src):
                        return
                    if name in CHOICE:
                        self.bad(src, "order-dependent choice .%s()" % name, p)
                        return
                    if name in ADAPTORS or tys.is_unordered_collection(rty):
                        self.closure_args_effects(p, src)
                        if tys.is_unordered_collection(rty) and name not in ADAPTORS:
                            self.good(src, "converted into %s" % short_ty(rty))
                            return
                        if name in ("join", "concat", "to_string"):
                            state = "seq"
                        cur = p
                        continue
                    if name in SEQ_MUTATORS:
                        # e.g. ot_vec.push(..): still an OT sequence, keep following the local
                        return
                    if name == "eq" or name == "ne":
                        self.bad(src, "compared as a sequence", p)
                        return
                    # workspace method with hash-ordered receiver
                    st = self.eng.param_state(p.get("fn"), 0, state)
                    if st == "ok":
                        self.good(src, "consumed insensitively by %s" % _short_fn(p.get("fn")))
                        return
                    if st in ("iter", "seq"):
                        state = st
                        cur = p
                        continue
                    self.bad(src, "hash-ordered receiver of %s" % _short_fn(p.get("fn") or name), p)
                    return
                else:
                    # argument of a method call
                    name = p["name"]
                    idx = 1 + [i for i, a in enumerate(p["args"]) if a is cur][0]
                    recv_ty = p.get("recv_ty", "")
                    if name in ("extend", "append", "extend_from_slice"):
                        if tys.is_unordered_collection(recv_ty):
                            self.good(src, "extends %s" % short_ty(recv_ty))
                            return
                        if tys.is_sequence(recv_ty):
                            self.taint_receiver(p, src)
                            return
                    if name in ("chain", "zip"):
                        cur = p
                        continue
                    if name in ("contains", "contains_key", "is_subset", "is_superset", "is_disjoint", "remove",
                                "get", "insert") and tys.is_unordered_collection(recv_ty):
                        self.good(src, "membership/insert argument")
                        return
                    st = self.eng.param_state(p.get("fn"), idx, state)
                    if st == "ok":
                        self.good(src, "argument consumed insensitively by %s" % _short_fn(p.get("fn")))
                        return
                    if st in ("iter", "seq"):
                        state = st
                        cur = p
                        continue
                    self.bad(src, "passed to %s" % _short_fn(p.get("fn") or name), p)
                    return
            if k == "Call":
                c = H.callee(p) or ""
                if p["f"] is cur:
                    return
                idx = [i for i, a in enumerate(p["args"]) if a is cur][0]
                if c.endswith("IntoIterator>::into_iter") or c.endswith("IntoIterator::into_iter") \
                        or c.endswith("Iterator>::into_iter"):
                    cur = p
                    continue
                if c.endswith("::from_iter") or c.endswith("::from"):
                    if tys.mentions_unordered_only(p.get("ty", "")):
                        self.good(src, "from_iter into %s" % short_ty(p.get("ty", "")))
                        return
                    state = "seq"
                    cur = p
                    continue
                if c.endswith("Try>::branch") or c.endswith("::branch") or c.endswith("::from_residual") \
                        or c.endswith("::from_output"):
                    cur = p
                    continue
                dk = (p["f"].get("res") or {}).get("dk", "") if H.kind(p["f"]) == "Path" else ""
                if dk.startswith("Ctor"):
                    # Some(x) / Ok(x) / tuple-struct constructor: keeps the order inside
                    if c.endswith("Option::Some") or c.endswith("Result::Ok") or c.endswith("Result::Err"):
                        cur = p
                        continue
                    if tys.is_unordered_collection(p.get("ty", "")):
                        self.good(src, "wrapped into %s" % short_ty(p.get("ty", "")))
                        return
                    self.bad(src, "stored in %s" % _short_fn(c), p)
                    return
                if c.startswith("core::mem::drop") or c.endswith("::drop"):
                    return
                st = self.eng.param_state(c, idx, state)
                if st == "ok":
                    self.good(src, "argument consumed insensitively by %s" % _short_fn(c))
                    return
                if st in ("iter", "seq"):
                    state = st
                    cur = p
                    continue
                self.bad(src, "passed to %s" % _short_fn(c), p)
                return
            if k in ("AddrOf", "Use", "Type", "Cast"):
                cur = p
                continue
            if k == "Unary":
                cur = p
                continue
            if k == "Field" or k == "Index":
                # projecting out of OT data (e.g. tuple field of partition result)
                cur = p
                continue
            if k == "Block" or (k is None and "stmts" in p):
                if p.get("expr") is cur:
                    cur = p
                    continue
                return  # statement position: value dropped
            if k in ("Semi", "Expr"):
                return
            if k == "Let":
                if p.get("init") is cur:
                    self.bind_pattern(p["pat"], state, src, p)
                    return
                return
            if k == "LetExpr":
                if p.get("init") is cur:
                    self.bind_pattern(p["pat"], state, src, p)
                return
            if k == "Match":
                if H.is_for(p) and (p["scrut"] is cur):
                    self.for_loop(p, src)
                    return
                if H.is_try(p):
                    cur = p
                    continue
                if p["scrut"] is cur:
                    # destructuring of OT data: bind sub-patterns
                    for a in p["arms"]:
                        self.bind_pattern(a["pat"], state, src, a)
                    return
                cur = p  # value of an arm flows out of the match
                continue
            if k is None and "pat" in p and "body" in p and "scrut" not in p:
                # match arm: body value flows to the match
                if p.get("body") is cur:
                    cur = p
                    continue
                return
            if k == "If":
                if p.get("c") is cur:
                    return
                cur = p
                continue
            if k == "Closure":
                # tail value of a closure: flows to the result of the call taking the closure
                call = self.par(p)
                if call is not None and H.kind(call) == "MethodCall":
                    nm = call["name"]
                    if nm in ("map", "and_then", "map_or", "map_or_else", "unwrap_or_else", "or_else", "then",
                              "filter_map", "flat_map", "get_or_insert_with", "or_insert_with"):
                        cur = call
                        continue
                    if nm in ("from_fn",):
                        cur = call
                        continue
                if call is not None and H.kind(call) == "Call":
                    c = H.callee(call) or ""
                    if c.endswith("from_fn") or c.endswith("successors"):
                        state = "iter"
                        cur = call
                        continue
                self.bad(src, "returned from a closure", p)
                return
            if k == "Ret":
                self.set_return(state, src, p)
                return
            if k == "Break":
                cur = self.enclosing_loop(p) or p
                if cur is p:
                    return
                continue
            if k == "Assign":
                if p.get("r") is cur:
                    self.assign_target(p["l"], state, src, p)
                return
            if k == "Struct":
                if tys.is_unordered_collection(p.get("ty", "")):
                    self.good(src, "stored inside %s" % short_ty(p.get("ty", "")))
                    return
                fname = None
                for f in p["fields"]:
                    if f["e"] is cur:
                        fname = f["name"]
                self.bad(src, "stored in field %s of %s" % (fname, short_ty(p.get("ty", ""))), p)
                return
            if k in ("Tup", "Array"):
                cur = p
                continue
            if k == "Binary":
                if p.get("op") in ("Eq", "Ne", "Lt", "Le", "Gt", "Ge"):
                    self.bad(src, "compared as a sequence", p)
                return
            if k == "Loop":
                cur = p
                continue
            # unknown context
            self.bad(src, "unrecognised use (%s)" % k, p)
            return

    def worklist_loop(self, pop_call, src):
        """`while let Some(x) = worklist.pop() { body }`: every element is processed; what matters are
        the ordered effects of the body (same analysis as a for-loop over the sequence)."""
        le = self.par(pop_call)
        if le is None or H.kind(le) != "LetExpr" or le.get("init") is not pop_call:
            return False
        iff = self.par(le)
        if iff is None or H.kind(iff) != "If" or iff.get("c") is not le:
            return False
        p = self.par(iff)
        while p is not None and (H.kind(p) == "Block" or (H.kind(p) is None and "stmts" in p) or H.kind(p) == "Expr"):
            p = self.par(p)
        if p is None or H.kind(p) != "Loop":
            return False
        self.effects(iff["t"], p, src + " (worklist)")
        self.good(src, "drained as a worklist (per-element effects checked)")
        return True

    def enclosing_loop(self, n):
        p = self.par(n)
        while p is not None:
            if H.kind(p) == "Loop":
                return p
            if H.kind(p) == "Closure":
                return None
            p = self.par(p)
        return None

    def set_return(self, state, src, node):
        # are we inside a closure? then this is the closure's result, handled by caller of flow
        p = node
        while p is not None:
            if H.kind(p) == "Closure":
                self.bad(src, "returned from a closure", node)
                return
            p = self.par(p)
        if self.returns is None or (self.returns == "iter" and state == "seq"):
            self.returns = state
        self.good(src, "returned to the caller as hash-ordered %s (summary)" % state)

    # ---- bindings ------------------------------------------------------------------------------
    def bind_pattern(self, pat, state, src, at_node):
        binds = H.pat_bindings(pat)
        if not binds:
            return
        start = self.last[id(at_node)] if H.kind(at_node) == "Let" else self.index[id(at_node)]
        if H.kind(at_node) == "LetExpr":
            start = self.index[id(at_node)]
        for b in binds:
            bty = b.get("ty", "")
            # sub-bindings that cannot carry order (scalars) are ignored
            if state in ("iter", "seq") and not (tys.is_sequence(bty) or "Iter" in bty or "iter::" in bty
                                                 or bty.startswith("impl ") or "impl " in bty or len(binds) == 1):
                continue
            self.follow_local(b["local"], b["name"], state, src, start)

    def follow_local(self, local, name, state, src, start, exclude=None):
        uses = self.uses_of(local, start, exclude)
        for u in uses:
            p = self.par(u)
            # neutraliser: first real use is an in-place sort
            if p is not None and H.kind(p) == "MethodCall" and H.peel(p["recv"]) is u and p["name"] in SORTS:
                self.good(src, "`%s` sorted (%s) before use" % (name, p["name"]))
                return
            if p is not None and H.kind(p) == "AddrOf":
                pp = self.par(p)
                if pp is not None and H.kind(pp) == "MethodCall" and H.peel(pp["recv"]) is u and pp["name"] in SORTS:
                    self.good(src, "`%s` sorted (%s) before use" % (name, pp["name"]))
                    return
            self.flow(u, state, "%s -> `%s`" % (src, name) if not src.endswith("`%s`" % name) else src)

    def assign_target(self, lhs, state, src, node):
        l = H.peel(lhs)
        loc = H.path_local(l)
        if loc:
            # later uses of that local (anywhere after; loops make earlier uses reachable too, be conservative)
            self.follow_local(loc[0], loc[1], state, src, -1, exclude=None)
            return
        if H.kind(l) == "Field":
            if tys.is_unordered_collection(l.get("ty", "")):
                self.good(src, "assigned to unordered field %s" % l["name"])
                return
            self.bad(src, "assigned to field %s" % l["name"], node)
            return
        self.bad(src, "assigned to a place", node)

    def taint_receiver(self, call, src):
        r = H.peel(call["recv"])
        loc = H.path_local(r)
        if loc:
            self.follow_local(loc[0], loc[1], "seq", src, self.last[id(call)])
        else:
            self.bad(src, "appended to a non-local sequence", call)

    # ---- loops and closures --------------------------------------------------------------------
    def for_loop(self, m, src):
        pat, it, body = H.for_parts(m)
        if body is None:
            self.bad(src, "unrecognised loop shape", m)
            return
        self.effects(body, m, src)

    def closure_effects(self, call, src):
        for a in call["args"]:
            a = H.peel(a)
            if H.kind(a) == "Closure":
                self.effects(a["body"], call, src)
            elif H.kind(a) == "Path" and "fn" in a:
                pass
        return

    def closure_args_effects(self, call, src):
        for a in call.get("args", []):
            a = H.peel(a)
            if H.kind(a) == "Closure":
                self.effects(a["body"], call, src, pure_expected=True)

    def declared_inside(self, local, region):
        d = self.local_decl.get(local)
        return d is not None and self.inside(d, region)

    def root_of(self, e):
        e = H.peel(e)
        while H.kind(e) in ("Field", "Index", "MethodCall") or (H.kind(e) == "Unary"):
            if H.kind(e) == "MethodCall":
                if e["name"] in ("as_mut", "borrow_mut", "deref_mut", "get_mut", "unwrap", "expect", "entry",
                                 "or_default", "or_insert_with", "or_insert", "iter_mut", "last_mut", "first_mut"):
                    e = H.peel(e["recv"])
                    continue
                break
            e = H.peel(e["e"])
        return e

    def effects(self, body, region, src, pure_expected=False):
        """Ordered effects of code executed once per element of a hash-ordered iteration."""
        for n in H.walk(body):
            k = H.kind(n)
            if k == "MethodCall":
                rt = n.get("recv_ty", "")
                self.mut_args_effects(n, n["args"], n.get("fn") or n["name"], region, src)
                if not tys.is_mut_ref(rt):
                    continue
                name = n["name"]
                T = tys.strip_refs(rt)
                if tys.is_unordered_collection(T) and name not in ("pop", "drain"):
                    continue
                if name in ("next", "next_back", "peek") or "::Iter" in T or "iter::" in T:
                    continue
                root = self.root_of(n["recv"])
                loc = H.path_local(root)
                if loc and self.declared_inside(loc[0], region):
                    continue
                head = tys.head(T)
                if tys.is_sequence(T) or head in WRITER_HEADS or head.startswith("pretty::"):
                    if name in SEQ_MUTATORS or True:
                        if loc and loc[1] != "self" and not tys.is_mut_ref(self.local_ty(loc[0])):
                            self.follow_local(loc[0], loc[1], "seq", src + " (pushed in loop)",
                                              self.last[id(region)], exclude=None)
                            # uses inside the loop after the push are element-local: ignored
                            continue
                        self.bad(src, "ordered write (%s) to %s" % (name, self.describe(n["recv"])), n)
                    continue
                verdict = self.eng.mut_method_insensitive(n.get("fn"))
                if verdict:
                    continue
                self.bad(src, "per-element call of %s (&mut receiver)" % _short_fn(n.get("fn") or name), n)
            elif k == "Call":
                c = H.callee(n)
                if c is None:
                    continue
                if c.endswith("Iterator::next") or c.endswith("IntoIterator::into_iter"):
                    continue
                self.mut_args_effects(n, n["args"], c, region, src)
            elif k == "AssignOp" or k == "Assign":
                root = self.root_of(n["l"])
                loc = H.path_local(root)
                if loc and self.declared_inside(loc[0], region):
                    continue
                if k == "AssignOp" and n.get("op") in COMMUTATIVE_ASSIGN and not n.get("fn"):
                    # commutative accumulation; reading the accumulator elsewhere in the loop is order-dependent
                    if loc:
                        reads = [u for u in H.walk(body) if H.kind(u) == "Path" and u.get("res", {}).get("local") == loc[0]]
                        if len(reads) > 1:
                            self.bad(src, "loop-carried counter `%s` read per element" % loc[1], n)
                    continue
                if k == "Assign" and H.kind(H.peel(n["r"])) == "Lit":
                    continue
                if k == "Assign" and tys.is_unordered_collection(n["l"].get("ty", "")):
                    continue
                self.bad(src, "last-writer-wins assignment to %s" % self.describe(n["l"]), n)
            elif k == "Ret":
                e = n.get("e")
                if e is None or self.is_constant(e):
                    continue
                self.bad(src, "element-dependent early return", n)
            elif k == "Match" and H.is_try(n):
                self.bad(src, "`?` inside hash-ordered iteration (which error surfaces depends on order)", n)
            elif k == "Break":
                e = n.get("e")
                if e is not None and not self.is_constant(e):
                    self.bad(src, "element-dependent break value", n)

    def mut_args_effects(self, n, args, callee, region, src):
        for a in args:
            aty = a.get("ty", "")
            is_mut = tys.is_mut_ref(aty) or (H.kind(a) == "AddrOf" and a.get("mut"))
            if not is_mut:
                continue
            inner = a["e"] if H.kind(a) == "AddrOf" else a
            T = tys.strip_refs(inner.get("ty", aty))
            if tys.is_unordered_collection(T):
                continue
            if "::Iter" in T or "iter::" in T:
                continue
            root = self.root_of(inner)
            loc = H.path_local(root)
            if loc and self.declared_inside(loc[0], region):
                continue
            if callee.endswith("::write_fmt"):
                self.bad(src, "ordered write (write_fmt)", n)
                continue
            self.bad(src, "per-element call of %s (&mut argument %s)" % (_short_fn(callee), self.describe(inner)), n)

    def local_ty(self, local):
        d = self.local_decl.get(local)
        return d.get("ty", "") if d else ""

    def is_constant(self, e):
        e = H.peel(e)
        k = H.kind(e)
        if k == "Lit":
            return True
        if k == "Path":
            d = e.get("res", {}).get("def", "")
            return d.endswith("Option::None") or e.get("res", {}).get("dk") in ("Const", "AssocConst", "CtorVariant")
        if k == "Tup" and not e["es"]:
            return True
        if k == "Call":
            c = H.callee(e) or ""
            if (c.endswith("Result::Ok") or c.endswith("Option::Some") or c.endswith("Result::Err")) and e["args"]:
                return self.is_constant(e["args"][0])
        return False

    def describe(self, e):
        e = H.peel(e)
        k = H.kind(e)
        if k == "Path":
            return e.get("res", {}).get("name") or e.get("res", {}).get("def", "?")
        if k == "Field":
            return self.describe(e["e"]) + "." + e["name"]
        if k == "MethodCall":
            return self.describe(e["recv"]) + "." + e["name"] + "()"
        if k == "Index":
            return self.describe(e["e"]) + "[..]"
        return k or "?"

    def fold_is_insensitive(self, call):
        # fold(init, |acc, x| acc.<method>(..)) where acc is an unordered collection
        if len(call["args"]) < 2:
            return False
        init_ty = call["args"][0].get("ty", "")
        rty = call.get("ty", "")
        if tys.mentions_unordered_only(rty) or tys.is_unordered_collection(init_ty):
            clo = H.peel(call["args"][1])
            if H.kind(clo) == "Closure":
                tmp = []
                saved = self.findings
                self.findings = tmp
                self.effects(clo["body"], call, "fold")
                self.findings = saved
                # `?`-style early exits inside try_fold are order-dependent
                return not tmp
            return True
        return False


def _short_fn(f):
    if not f:
        return "?"
    f = f.replace("zydeco_", "")
    return f


class Engine:
    def __init__(self, facts, exempt_prefixes=()):
        self.facts = facts
        self.returns = {}          # fn path -> "iter"|"seq"
        self._param_cache = {}
        self._mut_cache = {}
        self.analyses = {}
        self.exempt_prefixes = tuple(exempt_prefixes)
        tys.register_unordered_wrappers(facts.adts())
        self._in_progress = set()

    # ---- summaries -----------------------------------------------------------------------------
    def returns_state(self, fn):
        if not fn:
            return None
        return self.returns.get(fn)

    def param_state(self, fn, idx, state):
        """How workspace function `fn` consumes its idx-th parameter when it is hash-ordered data:
        'ok' (insensitive), 'iter'/'seq' (flows to its result), None (ordered use / unknown)."""
        if not fn:
            return None
        key = (fn, idx, state)
        if key in self._param_cache:
            return self._param_cache[key]
        if key in self._in_progress:
            return None
        known = KNOWN_PARAM.get(fn.split("::<")[0]) if False else None
        for pat, verdict in KNOWN_PARAM_SUFFIX:
            if fn.endswith(pat) or pat in fn:
                self._param_cache[key] = verdict
                return verdict
        h = self.facts.hir(fn)
        if h is None:
            self._param_cache[key] = None
            return None
        params = h["params"]
        if idx >= len(params):
            self._param_cache[key] = None
            return None
        binds = H.pat_bindings(params[idx])
        if len(binds) != 1:
            self._param_cache[key] = None
            return None
        self._in_progress.add(key)
        try:
            ba = BodyAnalysis(self, fn, h, param_sources={binds[0]["local"]: state})
            # only the parameter flow matters here: do not look for other sources
            for u in ba.uses_of(binds[0]["local"], -1):
                ba.flow(u, state, "param")
            if ba.findings:
                res = None
            elif ba.returns:
                res = ba.returns
            else:
                res = "ok"
        finally:
            self._in_progress.discard(key)
        self._param_cache[key] = res
        return res

    def mut_method_insensitive(self, fn, depth=0):
        """A `&mut self` workspace method whose only mutations are on unordered collections."""
        if not fn:
            return False
        if fn in self._mut_cache:
            return self._mut_cache[fn]
        for pat in KNOWN_INSENSITIVE_MUT:
            if pat in fn:
                self._mut_cache[fn] = True
                return True
        h = self.facts.hir(fn)
        if h is None or depth > 3:
            self._mut_cache[fn] = False
            return False
        self._mut_cache[fn] = False  # recursion guard
        ok = True
        for n in H.walk(h["body"]):
            k = H.kind(n)
            if k == "MethodCall" and tys.is_mut_ref(n.get("recv_ty", "")):
                T = tys.strip_refs(n["recv_ty"])
                if tys.is_unordered_collection(T) and n["name"] not in ("pop", "drain"):
                    continue
                if n["name"] in ("next",) or "::Iter" in T or "iter::" in T:
                    continue
                if tys.head(T) in ("std::collections::hash::map::Entry", "std::collections::hash::map::OccupiedEntry",
                                   "std::collections::hash::map::VacantEntry", "core::option::Option"):
                    continue
                if self.mut_method_insensitive(n.get("fn"), depth + 1):
                    continue
                ok = False
                break
            if k in ("Assign", "AssignOp"):
                lt = n["l"].get("ty", "")
                if tys.is_unordered_collection(lt):
                    continue
                root = H.peel(n["l"])
                while H.kind(root) in ("Field", "Index", "Unary"):
                    root = H.peel(root["e"])
                loc = H.path_local(root)
                if loc and loc[1] != "self":
                    continue
                ok = False
                break
        self._mut_cache[fn] = ok
        return ok

    # ---- whole-workspace run -------------------------------------------------------------------
    def candidate_bodies(self):
        """Bodies that contain at least one call on/with a random-hash container or a call to a
        function currently summarised as returning hash-ordered data."""
        cands = set()
        for c in self.facts.calls():
            if c.get("expn") and c["expn"][0] in ("Debug",):
                continue
            hit = False
            for t in c.get("arg_tys", [])[:3]:
                if tys.is_random_hash_container(t):
                    hit = True
                    break
            if not hit and c["to"] in self.returns:
                hit = True
            if hit:
                owner = c["from"].split("::{closure")[0]
                cands.add(owner)
        return cands

    def run(self):
        """Fixpoint over return summaries. Returns {fn: BodyAnalysis}."""
        rounds = 0
        while True:
            rounds += 1
            before = dict(self.returns)
            self._param_cache.clear()
            for fn in sorted(self.candidate_bodies()):
                b = self.facts.bodies().get(fn)
                if b is None:
                    continue
                if b.get("expn") and b["expn"][0] in ("Debug",):
                    continue
                h = self.facts.hir(fn)
                if h is None:
                    continue
                ba = BodyAnalysis(self, fn, h).run()
                self.analyses[fn] = ba
                if ba.returns:
                    self.returns[fn] = ba.returns
            if self.returns == before or rounds > 6:
                break
        return self.analyses


# (path fragment, verdict) for library / trait functions taking iterables
KNOWN_PARAM_SUFFIX = [
    ("core::iter::traits::collect::Extend", None),
]
KNOWN_PARAM = {}
KNOWN_INSENSITIVE_MUT = ()
