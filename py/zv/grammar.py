"""A small reader for precedence-annotated LALRPOP nonterminal blocks (parser.lalrpop): alternatives with their level,
associativity and the syntax-tree constructor of their action. Purely textual: the grammar is not Rust."""
import os
import re

from . import facts as F

GRAMMAR = "lang/surface/src/textual/parser.lalrpop"


def read():
    with open(os.path.join(F.REPO, GRAMMAR)) as fh:
        return fh.read()


def block(text, name):
    """body of `Name: Type = { ... };` with comments removed"""
    m = re.search(r"^%s\s*:\s*[\w<>, ]+=\s*\{" % re.escape(name), text, re.M)
    if not m:
        return None
    i = m.end()
    depth = 1
    j = i
    while j < len(text) and depth:
        c = text[j]
        if c == "{":
            depth += 1
        elif c == "}":
            depth -= 1
        elif text.startswith("//", j):
            j = text.index("\n", j)
            continue
        elif c == '"':
            j = text.index('"', j + 1)
        j += 1
    body = text[i:j - 1]
    return re.sub(r"//[^\n]*", "", body)


def alternatives(body):
    """[(level, assoc, symbols_text, action_text)] — splits at top-level commas"""
    out = []
    level, assoc = None, None
    depth = 0
    cur = ""
    parts = []
    i = 0
    while i < len(body):
        c = body[i]
        if c == '"':
            j = body.index('"', i + 1)
            cur += body[i:j + 1]
            i = j + 1
            continue
        if c in "({[<":
            # `<` opens a symbol group only when not part of `=>`, `<-`-like string tokens (those are quoted) — count it
            depth += 1
        elif c in ")}]>":
            if c == ">" and cur.endswith("="):
                pass   # `=>`
            else:
                depth -= 1
        if c == "," and depth == 0:
            parts.append(cur)
            cur = ""
        else:
            cur += c
        i += 1
    if cur.strip():
        parts.append(cur)
    for p in parts:
        for a in re.finditer(r"#\[(precedence|assoc)\((\w+)=\"(\w+)\"\)\]", p):
            if a.group(1) == "precedence":
                level = int(a.group(3))
                assoc = None
            else:
                assoc = a.group(3)
        p2 = re.sub(r"#\[[^\]]*\]", "", p).strip()
        if not p2:
            continue
        sym, _, act = p2.partition("=>")
        out.append((level, assoc, sym.strip(), act.strip()))
    return out


def constructor_of(sym, act):
    """Name of the payload type an alternative builds: from its action (`Proj(<>).into()`, `Match {<>}.into()`,
    `{ Exists {..}.into() }`) or, for `<>.into()` / no action, from its single nonterminal."""
    a = act.strip()
    a = re.sub(r"^\{\s*", "", a)
    m = re.match(r"(?:let[^;]*;\s*)*([A-Z]\w*)\s*[({]", a)
    if m and m.group(1) not in ("Span",):
        return m.group(1)
    m = re.search(r"\b([A-Z]\w*)\s*\([^)]*\)\s*\.into\(\)\s*\}?$", a)
    if m:
        return m.group(1)
    nts = re.findall(r"<\s*(?:\w+\s*:\s*)?([A-Z]\w*)", sym)
    return nts[0] if nts else None
