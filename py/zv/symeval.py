"""Symbolic evaluation of small table-like Rust functions (a constructor DSL) over typed HIR.

This is *static* evaluation of straight-line table code: constructors, arrays, iterator plumbing over literal lists
(map / chain / rev / fold / collect), let-bindings, calls of other workspace helpers (inlined, depth-limited) and
`match` on a known constructor. Anything else evaluates to ("unknown", reason) and poisons the result, which the rules
report as an anchor problem instead of guessing.
"""
from . import armlib as A
from . import hirlib as H

IDENTITY_METHODS = {"into_iter", "iter", "copied", "cloned", "clone", "into", "to_owned", "collect", "to_vec",
                    "as_ref", "borrow", "to_string", "as_slice", "into_boxed_slice", "by_ref"}


class Unknown(Exception):
    pass


def ctor(path, args=(), names=None):
    return ("ctor", path, list(args), names)


def is_ctor(v, suffix=None):
    return isinstance(v, tuple) and v and v[0] == "ctor" and (suffix is None or v[1].endswith(suffix))


class Evaluator:
    def __init__(self, facts, max_depth=12):
        self.facts = facts
        self.max_depth = max_depth

    def call_fn(self, path, args, depth=0):
        h = self.facts.hir(path)
        if h is None:
            raise Unknown("no body for %s" % path)
        if depth > self.max_depth:
            raise Unknown("depth limit at %s" % path)
        env = {}
        for p, a in zip(h["params"], args):
            self.bind(p, a, env)
        return self.ev(h["body"], env, depth + 1)

    def bind(self, pat, val, env):
        k = H.kind(pat)
        if k == "Bind":
            env[pat["local"]] = val
            if pat.get("sub") is not None:
                self.bind(pat["sub"], val, env)
            return True
        if k == "Wild":
            return True
        if k in ("Ref", "Deref"):
            return self.bind(pat["sub"], val, env)
        if k == "Tuple":
            if isinstance(val, tuple) and val[0] == "tuple" and len(val[1]) == len(pat["pats"]):
                return all(self.bind(p, v, env) for p, v in zip(pat["pats"], val[1]))
            raise Unknown("tuple pattern on %r" % (val,))
        if k == "TupleStruct":
            if is_ctor(val):
                if val[1] != pat["path"].get("def"):
                    return False
                return all(self.bind(p, v, env) for p, v in zip(pat["pats"], val[2]))
            raise Unknown("ctor pattern on non-constructor")
        if k == "Path":
            if is_ctor(val):
                return val[1] == pat["path"].get("def")
            raise Unknown("path pattern on non-constructor")
        if k == "Struct":
            if is_ctor(val):
                if val[1] != pat["path"].get("def"):
                    return False
                names = val[3] or []
                for f in pat["fields"]:
                    if f["name"] in names:
                        self.bind(f["pat"], val[2][names.index(f["name"])], env)
                    elif f["name"].isdigit() and int(f["name"]) < len(val[2]):
                        self.bind(f["pat"], val[2][int(f["name"])], env)
                return True
            raise Unknown("struct pattern on non-constructor")
        if k == "Or":
            for p in pat["pats"]:
                e2 = dict(env)
                try:
                    if self.bind(p, val, e2):
                        env.update(e2)
                        return True
                except Unknown:
                    raise
            return False
        if k == "Lit":
            return isinstance(val, tuple) and val[0] == "lit" and str(val[1]) == str(list(pat["lit"].values())[0])
        raise Unknown("pattern kind %s" % k)

    def as_list(self, v):
        if isinstance(v, tuple) and v[0] == "list":
            return v[1]
        raise Unknown("expected a literal list, got %r" % (v[0] if isinstance(v, tuple) else v,))

    def apply(self, f, args, depth):
        if isinstance(f, tuple) and f[0] == "fn":
            return self.call_path(f[1], args, depth)
        if isinstance(f, tuple) and f[0] == "closure":
            _, params, body, env = f
            e2 = dict(env)
            for p, a in zip(params, args):
                self.bind(p, a, e2)
            return self.ev(body, e2, depth + 1)
        if isinstance(f, tuple) and f[0] == "ctorfn":
            return ctor(f[1], args)
        raise Unknown("cannot apply %r" % (f[0] if isinstance(f, tuple) else f,))

    def call_path(self, path, args, depth):
        if path.endswith("boxed::Box::<T>::new") or path.endswith("rc::Rc::<T>::new") or path.endswith("sync::Arc::<T>::new"):
            return args[0]
        if path.endswith("IntoIterator::into_iter") or path.endswith("From::from") or path.endswith("convert::Into::into"):
            return args[0]
        if path.endswith("core::iter::sources::once::once"):
            return ("list", [args[0]])
        if path.endswith("core::iter::sources::empty::empty"):
            return ("list", [])
        if path in self.facts.bodies():
            return self.call_fn(path, args, depth)
        raise Unknown("call of %s" % path)

    def ev_lazy(self, n, env, depth=0):
        """Arguments that cannot be evaluated become ("unknown", reason); only decisions on them fail."""
        try:
            return self.ev(n, env, depth)
        except Unknown as e:
            return ("unknown", str(e))

    def ev(self, n, env, depth=0):
        k = H.kind(n)
        if k == "Path":
            r = n.get("res", {})
            if "local" in r:
                if r["local"] in env:
                    return env[r["local"]]
                raise Unknown("unbound local %s" % r["name"])
            dk = r.get("dk", "")
            d = r.get("def", "")
            if dk.startswith("Ctor"):
                # unit constructor used as a value, or constructor function used as a function value
                return ctor(d) if n.get("ty", "").find("fn(") < 0 and "fn" not in n else ("ctorfn", d)
            if dk in ("Fn", "AssocFn"):
                return ("fn", n.get("fn") or d)
            if dk in ("Const", "AssocConst"):
                h = self.facts.hir(d)
                if h is not None:
                    return self.ev(h["body"], {}, depth + 1)
                return ("const", d)
            if dk == "Variant" or dk == "Struct":
                return ctor(d)
            return ("const", d)
        if k == "Lit":
            return ("lit", list(n["lit"].values())[0])
        if k in ("AddrOf", "Use", "Type"):
            return self.ev(n["e"], env, depth)
        if k == "Unary" and n["op"] == "Deref":
            return self.ev(n["e"], env, depth)
        if k == "Array":
            return ("list", [self.ev(e, env, depth) for e in n["es"]])
        if k == "Tup":
            return ("tuple", [self.ev(e, env, depth) for e in n["es"]])
        if k == "Struct":
            names = [f["name"] for f in n["fields"]]
            return ctor(n["path"].get("def"), [self.ev_lazy(f["e"], env, depth) for f in n["fields"]], names)
        if k == "Closure":
            return ("closure", n["params"], n["body"], dict(env))
        if k == "Block" or (k is None and "stmts" in n):
            e2 = dict(env)
            for st in n.get("stmts", []):
                sk = H.kind(st)
                if sk == "Let":
                    if st.get("init") is None or st.get("els") is not None:
                        raise Unknown("let without initialiser / let-else")
                    self.bind(st["pat"], self.ev(st["init"], e2, depth), e2)
                elif sk in ("Semi", "Expr"):
                    raise Unknown("statement with effects")
            if n.get("expr") is None:
                return ("tuple", [])
            return self.ev(n["expr"], e2, depth)
        if k == "Call":
            f = n["f"]
            fr = f.get("res", {}) if H.kind(f) == "Path" else {}
            args = [self.ev_lazy(a, env, depth) for a in n["args"]]
            if fr.get("dk", "").startswith("Ctor") or fr.get("dk") == "SelfCtor":
                return ctor(fr.get("def"), args)
            if H.kind(f) == "Path" and "fn" in f:
                return self.call_path(f["fn"], args, depth)
            fv = self.ev(f, env, depth)
            return self.apply(fv, args, depth)
        if k == "MethodCall":
            name = n["name"]
            recv = self.ev_lazy(n["recv"], env, depth)
            fn = n.get("fn") or ""
            if isinstance(recv, tuple) and recv[0] == "unknown" and fn not in self.facts.bodies():
                raise Unknown(recv[1])
            if name in ("clone", "to_owned", "cloned", "copied"):
                return recv
            if name in IDENTITY_METHODS and not (fn in self.facts.bodies()):
                return recv
            if fn in self.facts.bodies():
                args = [recv] + [self.ev_lazy(a, env, depth) for a in n["args"]]
                return self.call_fn(fn, args, depth)
            if name == "map":
                f = self.ev(n["args"][0], env, depth)
                return ("list", [self.apply(f, [x], depth) for x in self.as_list(recv)])
            if name == "flat_map":
                f = self.ev(n["args"][0], env, depth)
                out = []
                for x in self.as_list(recv):
                    out.extend(self.as_list(self.apply(f, [x], depth)))
                return ("list", out)
            if name == "chain":
                other = self.ev(n["args"][0], env, depth)
                return ("list", self.as_list(recv) + self.as_list(other))
            if name == "rev":
                return ("list", list(reversed(self.as_list(recv))))
            if name == "fold":
                acc = self.ev(n["args"][0], env, depth)
                f = self.ev(n["args"][1], env, depth)
                for x in self.as_list(recv):
                    acc = self.apply(f, [acc, x], depth)
                return acc
            if name == "len":
                return ("lit", str(len(self.as_list(recv))))
            if name == "unwrap_or" or name == "unwrap_or_default":
                return recv
            raise Unknown("method %s (%s)" % (name, fn))
        if k == "Match" and not n.get("src"):
            scrut = self.ev(n["scrut"], env, depth)
            for a in n["arms"]:
                e2 = dict(env)
                if self.bind(a["pat"], scrut, e2):
                    if a.get("guard") is not None:
                        g = self.ev(a["guard"], e2, depth)
                        if g == ("lit", True):
                            return self.ev(a["body"], e2, depth)
                        if g == ("lit", False):
                            continue
                        raise Unknown("guard not decidable")
                    return self.ev(a["body"], e2, depth)
            raise Unknown("no arm matches")
        if k == "If":
            c = self.ev(n["c"], env, depth)
            if c == ("lit", True):
                return self.ev(n["t"], env, depth)
            if c == ("lit", False) and n.get("e") is not None:
                return self.ev(n["e"], env, depth)
            raise Unknown("condition not decidable")
        if k == "Ret":
            raise Unknown("early return")
        if k == "Cast":
            return self.ev(n["e"], env, depth)
        raise Unknown("expression kind %s" % k)


def show(v, short=True):
    if isinstance(v, tuple):
        if v[0] == "ctor":
            name = v[1].split("::")[-1] if short else v[1]
            if not v[2]:
                return name
            return "%s(%s)" % (name, ", ".join(show(x, short) for x in v[2]))
        if v[0] == "list":
            return "[" + ", ".join(show(x, short) for x in v[1]) + "]"
        if v[0] == "tuple":
            return "(" + ", ".join(show(x, short) for x in v[1]) + ")"
        if v[0] == "lit":
            return str(v[1])
        if v[0] == "unknown":
            return "<?>"
        return "<%s>" % v[0]
    return str(v)
