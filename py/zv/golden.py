"""Golden arm traces: per (function, arm) the ordered list of semantically relevant events in canonical form.

The reference (rules/golden_*.json) is generated from the tree, audited by reading the code, and frozen. Canonical forms
abstract from variable names, formatting, let-introduction, clone/Rc noise; they change when the order or the provenance
of an operation changes."""
import json
import os
import re

from . import armlib as A
from . import hirlib as H
from .facts import VERIF


def canon(n, env):
    return A.sexpr(n, env)


def events(arm_body, env, spec):
    """spec: dict with regexes selecting interesting calls: {"calls": [(label, regex on callee)], "assign_fields": [..],
    "ctors": [(label, regex on path)]}"""
    out = []
    for n in H.walk(arm_body):
        k = H.kind(n)
        if k in ("Call", "MethodCall"):
            c = H.callee(n) or ""
            for label, rx in spec.get("calls", []):
                if re.search(rx, c):
                    args = [canon(a, env) for a in H.call_args(n)]
                    out.append("%s(%s)" % (label, ", ".join(args)))
                    break
        elif k == "Struct" and (not n["fields"] or "e" in n["fields"][0]):
            d = n["path"].get("def") or ""
            for label, rx in spec.get("ctors", []):
                if re.search(rx, d):
                    out.append("%s{%s}" % (label, ", ".join("%s=%s" % (f["name"], canon(f["e"], env)) for f in n["fields"])))
                    break
        elif k in ("Assign", "AssignOp"):
            l = canon(n["l"], env)
            for rx in spec.get("assign", []):
                if re.search(rx, l):
                    out.append("%s %s %s" % (l, ":=" if k == "Assign" else n.get("op"), canon(n["r"], env)))
                    break
        elif k == "Match" and not n.get("src") and spec.get("matches"):
            sc = canon(n["scrut"], env)
            for rx in spec["matches"]:
                if re.search(rx, sc):
                    shapes = []
                    for a in n["arms"]:
                        body = "panic" if H.exits_by_panic_only(a["body"]) else "go"
                        shapes.append("%s%s=>%s" % (A.pat_shape(a["pat"]), " if .." if a.get("guard") else "", body))
                    out.append("match %s {%s}" % (sc, "; ".join(shapes)))
                    break
        elif k == "Let" and n.get("els") is not None and spec.get("matches"):
            sc = canon(n["init"], env)
            for rx in spec["matches"]:
                if re.search(rx, sc):
                    out.append("let %s = %s else %s" % (A.pat_shape(n["pat"]), sc, "panic" if H.exits_by_panic_only(n["els"]) else "go"))
                    break
    return out


def extract(facts, fn, spec, pick=None, tuple_pos=None):
    h = facts.hir(fn)
    if h is None:
        return None
    env0 = A.Env()
    env0.bind_params(h)
    m = pick(h, env0) if pick else A.find_match_on(h["body"], lambda n: True)
    if m is None:
        return None
    table = {}
    for a in m["arms"]:
        env = A.ArmEnv()
        env.strip = True
        env.names = dict(env0.names)
        pre = H.peel(h["body"])
        # lets before the dispatch match (e.g. `let Assign(vpat, sem) = self;`)
        env.absorb({"k": "Block", "stmts": [s for s in pre.get("stmts", []) if H.kind(s) == "Let"], "expr": None})
        env.bind_pat(A.strip_or(a["pat"]))
        env.absorb(a["body"])
        key = A.pat_shape(a["pat"])
        table[key] = {"events": events(a["body"], env, spec), "ln": a["ln"]}
    return table


def load(name):
    with open(os.path.join(VERIF, "rules", name)) as fh:
        return json.load(fh)


def compare(ctx, rule, label, fn, table, ref, loc):
    """ref: {arm: [events]}"""
    for arm, want in ref.items():
        row = table.get(arm)
        if row is None:
            ctx.violation(rule, "%s:%s:missing" % (label, arm), "%s: arm %s of the audited reference no longer exists" % (fn, arm), loc)
            continue
        got = row["events"]
        if got == want:
            ctx.ok(rule, "%s:%s" % (label, arm), {"fn": label, "arm": arm, "events": got[:6]})
        else:
            # first difference
            i = 0
            while i < min(len(got), len(want)) and got[i] == want[i]:
                i += 1
            g = got[i] if i < len(got) else "(nothing)"
            w = want[i] if i < len(want) else "(nothing)"
            ctx.violation(rule, "%s:%s" % (label, arm),
                          "%s arm %s deviates from the audited reference at step %d: does `%s`, reference `%s`"
                          % (fn, arm, i + 1, g[:220], w[:220]), [loc[0], row["ln"]])
    for arm in table:
        if arm not in ref:
            ctx.violation(rule, "%s:%s:new" % (label, arm), "%s has a new arm %s that the audited reference does not cover" % (fn, arm),
                          [loc[0], table[arm]["ln"]])


def extract_whole(facts, fn, spec):
    h = facts.hir(fn)
    if h is None:
        return None
    env = A.ArmEnv()
    env.strip = True
    env.bind_params(h)
    env.absorb(h["body"])
    loc_ln = facts.bodies()[fn]["loc"][1]
    return {"(whole body)": {"events": events(h["body"], env, spec), "ln": loc_ln}}


EVAL_SPEC = {
    "calls": [("pop", r"Vector::<A>::pop_back$"), ("push", r"Vector::<A>::push_back$"), ("eval", r"eval::Eval::eval$|Eval<'rt>>::eval$"),
              ("step", r"eval::Step::Step$"), ("done", r"eval::Step::Done$"), ("replace-env", r"core::mem::replace$"),
              ("invoke", r"BuiltinRuntime::invoke$"), ("into_product_fields", r"into_product_fields$"),
              ("from_product_fields", r"from_product_fields$"), ("find", r"Iterator::find$|::find$"), ("nth", r"::nth$"),
              ("split_off", r"::split_off$"), ("swap_remove", r"::swap_remove$"), ("env-get", r"HashMap::<K, V, S>::get$|Env<T>::get$"),
              ("drain", r"::drain$"), ("zip", r"::zip$"), ("vec-push", r"Vec::<T, A>::push$"), ("extend", r"::extend$"),
              ("pop-vec", r"Vec::<T, A>::pop$"), ("from_vec", r"ConsN::<S, T>::from_vec$|::from_vec$"), ("len", r"Vec::<T, A>::len$")],
    "ctors": [("EnvThunk", r"syntax::EnvThunk$"), ("EnvValueClosure", r"syntax::EnvValueClosure$")],
    "assign": [r"\(\. \$P1 env\)"],
    "matches": [r"pop_back", r"^\$P0$", r"\$tail", r"len"],
}
LINK_SPEC = {
    "calls": [("link", r"link::Link>::link$|link::Link::link$"), ("ctor", r"^zydeco_syntax::\w+$"), ("fold", r"::fold$"),
              ("arity", r"ProductArity::of$"), ("package", r"package_value$"), ("map", r"Iterator::map$"), ("mk", r"syntax::\w+::\w+$")],
    "ctors": [("struct", r"^zydeco_syntax::\w+$|^zydeco_dynamics::syntax::\w+$")],
    "assign": [],
    "matches": [],
}
GOLDEN = {
    "golden_eval.json": (EVAL_SPEC, [
        ("Assign::step", "<zydeco_dynamics::eval::Assign<alloc::rc::Rc<zydeco_dynamics::syntax::ValuePattern>, zydeco_dynamics::syntax::SemValue> as zydeco_dynamics::eval::Eval<'rt>>::step", "match"),
        ("Computation::step", "<zydeco_dynamics::syntax::Computation as zydeco_dynamics::eval::Eval<'rt>>::step", "match"),
        ("Value::step", "<zydeco_dynamics::syntax::Value as zydeco_dynamics::eval::Eval<'rt>>::step", "match"),
        ("into_product_fields", "zydeco_dynamics::eval::<impl zydeco_dynamics::syntax::SemValue>::into_product_fields", "whole"),
        ("from_product_fields", "zydeco_dynamics::eval::<impl zydeco_dynamics::syntax::SemValue>::from_product_fields", "whole"),
    ]),
    "golden_link.json": (LINK_SPEC, [
        ("Link for VPatId", "<zydeco_statics::syntax::VPatId as zydeco_dynamics::link::Link>::link", "match"),
        ("Link for ValueId", "<zydeco_statics::syntax::ValueId as zydeco_dynamics::link::Link>::link", "match"),
        ("Link for CompuId", "<zydeco_statics::syntax::CompuId as zydeco_dynamics::link::Link>::link", "match"),
    ]),
}


def compute(facts, fname):
    spec, fns = GOLDEN[fname]
    out = {}
    for label, fn, mode in fns:
        t = extract(facts, fn, spec) if mode == "match" else extract_whole(facts, fn, spec)
        out[label] = {"fn": fn, "arms": None if t is None else {k: v["events"] for k, v in t.items()},
                      "lines": None if t is None else {k: v["ln"] for k, v in t.items()}}
    return out


def check(ctx, rule, fname):
    ref = load(fname)
    cur = compute(ctx.facts, fname)
    for label, r in ref.items():
        if label.startswith("_"):
            continue
        fn = r["fn"]
        c = cur.get(label)
        if fn not in ctx.facts.bodies() or c is None or c["arms"] is None:
            ctx.anchor_lost(rule, "%s (%s) not found" % (label, fn))
            continue
        ctx.fn(fn)
        loc = ctx.facts.bodies()[fn]["loc"]
        table = {k: {"events": v, "ln": c["lines"][k]} for k, v in c["arms"].items()}
        compare(ctx, rule, label, fn, table, r["arms"], loc)


if __name__ == "__main__":
    import sys
    from . import facts as fm
    F = fm.Facts(fm.ensure())
    for fname in GOLDEN:
        data = compute(F, fname)
        for label in data:
            data[label].pop("lines", None)
        if "--write" in sys.argv:
            old = {}
            p = os.path.join(VERIF, "rules", fname)
            if os.path.exists(p):
                old = json.load(open(p))
            data["_comment"] = old.get("_comment", "audited reference; see DESIGN.md")
            json.dump(data, open(p, "w"), indent=1)
            print("wrote", p)
        else:
            print(json.dumps(data, indent=1))
