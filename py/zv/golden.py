"""Golden arm traces: per (function, arm) the ordered list of semantically relevant events in canonical form.

The reference (rules/golden_*.json) is generated from the tree, audited by reading the code, and frozen. Canonical forms
abstract from variable names, formatting, let-introduction, clone/Rc noise; they change when the order or the provenance
of an operation changes."""
import json
import os
import re

from . import armlib as A
from . import hirlib as H
from .facts import VERIF


def canon(n, env):
    return A.sexpr(n, env)


def events(arm_body, env, spec):
    """spec: dict with regexes selecting interesting calls: {"calls": [(label, regex on callee)], "assign_fields": [..],
    "ctors": [(label, regex on path)]}"""
    out = []
    for n in H.walk(arm_body):
        k = H.kind(n)
        if k in ("Call", "MethodCall"):
            c = H.callee(n) or ""
            for label, rx in spec.get("calls", []):
                if re.search(rx, c):
                    args = [canon(a, env) for a in H.call_args(n)]
                    out.append("%s(%s)" % (label, ", ".join(args)))
                    break
        elif k == "Struct" and (not n["fields"] or "e" in n["fields"][0]):
            d = n["path"].get("def") or ""
            for label, rx in spec.get("ctors", []):
                if re.search(rx, d):
                    out.append("%s{%s}" % (label, ", ".join("%s=%s" % (f["name"], canon(f["e"], env)) for f in n["fields"])))
                    break
        elif k in ("Assign", "AssignOp"):
            l = canon(n["l"], env)
            for rx in spec.get("assign", []):
                if re.search(rx, l):
                    out.append("%s %s %s" % (l, ":=" if k == "Assign" else n.get("op"), canon(n["r"], env)))
                    break
        elif k == "Match" and not n.get("src") and spec.get("matches"):
            sc = canon(n["scrut"], env)
            for rx in spec["matches"]:
                if re.search(rx, sc):
                    shapes = []
                    for a in n["arms"]:
                        body = "panic" if H.exits_by_panic_only(a["body"]) else "go"
                        shapes.append("%s%s=>%s" % (A.pat_shape(a["pat"]), " if .." if a.get("guard") else "", body))
                    out.append("match %s {%s}" % (sc, "; ".join(shapes)))
                    break
        elif k == "Let" and n.get("els") is not None and spec.get("matches"):
            sc = canon(n["init"], env)
            for rx in spec["matches"]:
                if re.search(rx, sc):
                    out.append("let %s = %s else %s" % (A.pat_shape(n["pat"]), sc, "panic" if H.exits_by_panic_only(n["els"]) else "go"))
                    break
    return out


def _fresh_key(table, key):
    """A second arm with the same pattern shape (the later one is shadowed or separated by guards) keeps its own entry."""
    if key not in table:
        return key
    i = 2
    while "%s #%d" % (key, i) in table:
        i += 1
    return "%s #%d" % (key, i)


def extract(facts, fn, spec, pick=None, tuple_pos=None):
    h = facts.hir(fn)
    if h is None:
        return None
    env0 = A.Env()
    env0.bind_params(h)
    m = pick(h, env0) if pick else A.find_match_on(h["body"], lambda n: True)
    if m is None:
        return None
    table = {}
    for a in m["arms"]:
        env = A.ArmEnv()
        env.strip = True
        env.names = dict(env0.names)
        pre = H.peel(h["body"])
        # lets before the dispatch match (e.g. `let Assign(vpat, sem) = self;`)
        env.absorb({"k": "Block", "stmts": [s for s in pre.get("stmts", []) if H.kind(s) == "Let"], "expr": None})
        env.bind_pat(A.strip_or(a["pat"]))
        env.absorb(a["body"])
        key = _fresh_key(table, A.pat_shape(a["pat"]) + (" if .." if a.get("guard") is not None and spec.get("guards") else ""))
        table[key] = {"events": events(a["body"], env, spec), "ln": a["ln"]}
    return table


def load(name):
    with open(os.path.join(VERIF, "rules", name)) as fh:
        return json.load(fh)


def _normalise(events):
    """Drop query events (`~..`) and branch regions that contain nothing but queries: what remains is the sequence of
    effects, returns and the branch structure around them."""
    out = []
    stack = [out]
    heads = []
    for e in events:
        if e.startswith("~"):
            continue
        opens = e.endswith("{")
        closes = e.startswith("}")
        if closes and opens:            # `} else {`
            stack[-1].append(e)
            continue
        if opens:
            region = [e]
            stack[-1].append(region)
            stack.append(region)
            continue
        if closes:
            region = stack.pop() if len(stack) > 1 else stack[-1]
            region.append(e)
            continue
        stack[-1].append(e)

    def flat(xs):
        res = []
        for x in xs:
            if isinstance(x, list):
                inner = flat(x[1:-1]) if x and isinstance(x[-1], str) and x[-1].startswith("}") else flat(x[1:])
                body = [y for y in inner if not (y.startswith("| ") or y.startswith("} else {"))]
                if body:
                    res.append(x[0])
                    res.extend(inner)
                    if x and isinstance(x[-1], str) and x[-1].startswith("}"):
                        res.append(x[-1])
            else:
                res.append(x)
        return res
    return flat(out)


def _queries(events):
    from collections import Counter
    return Counter(e for e in events if e.startswith("~"))


def compare(ctx, rule, label, fn, table, ref, loc):
    """ref: {arm: [events]}. Exact agreement passes. Otherwise the sequences of effects / returns with their branch structure
    must agree exactly and every query of the reference must still be made: added queries (and branches made of queries only)
    are tolerated, because they cannot change what the function does to its state."""
    for arm, want in ref.items():
        row = table.get(arm)
        if row is None:
            ctx.violation(rule, "%s:%s:missing" % (label, arm), "%s: arm %s of the audited reference no longer exists" % (fn, arm), loc)
            continue
        got = row["events"]
        if got == want:
            ctx.ok(rule, "%s:%s" % (label, arm), {"fn": label, "arm": arm, "events": got[:6]})
            continue
        g2, w2 = _normalise(got), _normalise(want)
        missing = _queries(want) - _queries(got)
        if g2 == w2 and not missing and any(e.startswith("~") for e in want + got):
            ctx.ok(rule, "%s:%s" % (label, arm), {"fn": label, "arm": arm, "events": got[:6], "note": "agrees up to added queries"})
            continue
        if g2 != w2:
            a, b = g2, w2
        else:
            a, b = sorted(_queries(got).elements()), sorted(_queries(want).elements())
            a = [x for x in a]
            b = [next(iter(missing))] if missing else b
            a = ["(query no longer made)"]
        i = 0
        while i < min(len(a), len(b)) and a[i] == b[i]:
            i += 1
        g = a[i] if i < len(a) else "(nothing)"
        w = b[i] if i < len(b) else "(nothing)"
        ctx.violation(rule, "%s:%s" % (label, arm),
                      "%s arm %s deviates from the audited reference at step %d: does `%s`, reference `%s`"
                      % (fn, arm, i + 1, g[:220], w[:220]), [loc[0], row["ln"]])
    for arm in table:
        if arm not in ref:
            ctx.violation(rule, "%s:%s:new" % (label, arm), "%s has a new arm %s that the audited reference does not cover" % (fn, arm),
                          [loc[0], table[arm]["ln"]])


def extract_whole(facts, fn, spec):
    h = facts.hir(fn)
    if h is None:
        return None
    env = A.ArmEnv()
    env.strip = True
    env.bind_params(h)
    env.absorb(h["body"])
    loc_ln = facts.bodies()[fn]["loc"][1]
    return {"(whole body)": {"events": events(h["body"], env, spec), "ln": loc_ln}}


EVAL_SPEC = {
    "calls": [("pop", r"Vector::<A>::pop_back$"), ("push", r"Vector::<A>::push_back$"), ("eval", r"eval::Eval::eval$|Eval<'rt>>::eval$"),
              ("step", r"eval::Step::Step$"), ("done", r"eval::Step::Done$"), ("replace-env", r"core::mem::replace$"),
              ("invoke", r"BuiltinRuntime::invoke$"), ("into_product_fields", r"into_product_fields$"),
              ("from_product_fields", r"from_product_fields$"), ("find", r"Iterator::find$|::find$"), ("nth", r"::nth$"),
              ("split_off", r"::split_off$"), ("swap_remove", r"::swap_remove$"), ("env-get", r"HashMap::<K, V, S>::get$|Env<T>::get$"),
              ("drain", r"::drain$"), ("zip", r"::zip$"), ("vec-push", r"Vec::<T, A>::push$"), ("extend", r"::extend$"),
              ("pop-vec", r"Vec::<T, A>::pop$"), ("from_vec", r"ConsN::<S, T>::from_vec$|::from_vec$"), ("len", r"Vec::<T, A>::len$")],
    "ctors": [("EnvThunk", r"syntax::EnvThunk$"), ("EnvValueClosure", r"syntax::EnvValueClosure$")],
    "assign": [r"\(\. \$P1 env\)"],
    "matches": [r"pop_back", r"^\$P0$", r"\$tail", r"len"],
}
LINK_SPEC = {
    "calls": [("link", r"link::Link>::link$|link::Link::link$"), ("ctor", r"^zydeco_syntax::\w+$"), ("fold", r"::fold$"),
              ("arity", r"ProductArity::of$"), ("package", r"package_value$"), ("map", r"Iterator::map$"), ("mk", r"syntax::\w+::\w+$")],
    "ctors": [("struct", r"^zydeco_syntax::\w+$|^zydeco_dynamics::syntax::\w+$")],
    "assign": [],
    "matches": [],
}
GOLDEN = {
    "golden_eval.json": (EVAL_SPEC, [
        ("Assign::step", "<zydeco_dynamics::eval::Assign<alloc::rc::Rc<zydeco_dynamics::syntax::ValuePattern>, zydeco_dynamics::syntax::SemValue> as zydeco_dynamics::eval::Eval<'rt>>::step", "match"),
        ("Computation::step", "<zydeco_dynamics::syntax::Computation as zydeco_dynamics::eval::Eval<'rt>>::step", "match"),
        ("Value::step", "<zydeco_dynamics::syntax::Value as zydeco_dynamics::eval::Eval<'rt>>::step", "match"),
        ("into_product_fields", "zydeco_dynamics::eval::<impl zydeco_dynamics::syntax::SemValue>::into_product_fields", "whole"),
        ("from_product_fields", "zydeco_dynamics::eval::<impl zydeco_dynamics::syntax::SemValue>::from_product_fields", "whole"),
    ]),
    "golden_link.json": (LINK_SPEC, [
        ("Link for VPatId", "<zydeco_statics::syntax::VPatId as zydeco_dynamics::link::Link>::link", "match"),
        ("Link for ValueId", "<zydeco_statics::syntax::ValueId as zydeco_dynamics::link::Link>::link", "match"),
        ("Link for CompuId", "<zydeco_statics::syntax::CompuId as zydeco_dynamics::link::Link>::link", "match"),
    ]),
}


SCOPE_SPEC = {
    "calls": [("resolve", r"resolver::Resolve>::resolve$|resolver::Resolve::resolve$"), ("resolve_block", r"::resolve_block$"),
              ("resolve_reference", r"::resolve_reference$"), ("for_body", r"Local::for_body$"),
              ("insert", r"HashMap::<K, V, S>::insert$"), ("default", r"Global as core::default::Default>::default$"),
              ("update", r"HashMap::<K, V, S>::update$"), ("union", r"HashMap::<K, V, S>::union$"), ("get", r"HashMap::<K, V, S>::get$"),
              ("add_dependency", r"::add_dependency$"), ("push_back", r"Vector::<A>::push_back$"), ("is_none", r"Option::<T>::is_none$"),
              ("err", r"ResolveError::\w+$"), ("binders", r"Binders>::binders$"), ("users", r"ArenaForth.*insert_new$|::insert_new$"),
              ("fold", r"::fold$|::try_fold$"), ("source", r"TextualProgramBuilder::<'graph>::source$"),
              ("boundary", r"syntax::SourceBoundary$|syntax::SignatureBoundary$"), ("ann", r"^zydeco_syntax::Ann$")],
    "assign": [r"boundary", r"under_map", r"var_to_def"],
    "branch_ifs": True,
}
GOLDEN["golden_scope.json"] = (SCOPE_SPEC, [
    ("Resolve for TermId", "<zydeco_surface::bitter::syntax::TermId as zydeco_surface::scoped::resolver::Resolve>::resolve", "seq"),
    ("Resolve for PatId", "<zydeco_surface::bitter::syntax::PatId as zydeco_surface::scoped::resolver::Resolve>::resolve", "seq"),
    ("MobileCandidate::resolve", "zydeco_surface::scoped::blocks::MobileCandidate::resolve", "seqwhole"),
    ("BlockScope::new", "zydeco_surface::scoped::blocks::BlockScope::new", "seqwhole"),
    ("Binders for PatId", "<zydeco_surface::bitter::syntax::PatId as zydeco_surface::scoped::binders::Binders>::binders", "armexpr"),
    ("resolve_reference", "zydeco_surface::scoped::resolver::Resolver::<'a>::resolve_reference", "seqwhole"),
    ("add_dependency", "zydeco_surface::scoped::resolver::Resolver::<'a>::add_dependency", "seqwhole"),
    ("TextualProgramBuilder::import", "zydeco_session::source::program::TextualProgramBuilder::<'graph>::import", "seqwhole"),
    ("TextualProgramBuilder::source", "zydeco_session::source::program::TextualProgramBuilder::<'graph>::source", "seqwhole"),
])


LOADER_SPEC = {
    "calls": [("identity", r"SourcePath::identity$"), ("map.get", r"HashMap::<K, V, S(, A)?>::get$"), ("map.insert", r"HashMap::<K, V, S(, A)?>::insert$"),
              ("provider.load", r"SourceProvider::load$|SourceProvider>::load$"), ("provider.load_optional", r"SourceProvider::load_optional$|load_optional$"),
              ("load_template", r"::load_template$"), ("load_import", r"::load_import$"), ("load_signature", r"::load_signature$"),
              ("load_canonical", r"::load_canonical$"), ("alloc", r"ArenaDense.*::alloc$|::alloc$"), ("ensure_acyclic", r"::ensure_acyclic$"),
              ("companion", r"SourceKind::companion$"), ("join", r"Path::join$"), ("overlay_path", r"::overlay_path$"), ("parent", r"Path::parent$"),
              ("is_absolute", r"Path::is_absolute$"), ("dependencies", r"SourceGraph::dependencies$"), ("target", r"SourceDependency::target$"),
              ("push", r"Vec::<T, A>::push$"), ("pop", r"Vec::<T, A>::pop$"), ("position", r"::position$"), ("find_map", r"::find_map$"),
              ("visit", r"::visit$"), ("set.insert", r"HashSet::<T, S(, A)?>::insert$"),
              ("chain", r"::chain$"), ("once", r"sources::once::once$"), ("run", r"::run$"), ("is_none", r"Option::<T>::is_none$"),
              ("for_each", r"::for_each$"), ("map", r"Option::<T>::map$"), ("then", r"::then$"), ("is", r"Meta::is$"),
              ("arguments", r"Meta::arguments$"), ("try_from", r"::try_from$"), ("SourceNumber::new", r"SourceNumber::new$"),
              ("is_empty", r"::is_empty$"), ("err", r"ImportDirectiveError::\w+$|SourceLoadError::\w+$|source::err::SourceCycle$"),
              ("variant", r"VisitState::\w+$|ImportTarget::\w+$|SourceDependency::\w+$")],
    "ctors": [],
    "assign": [r"imports\)$", r"signature\)$"],
    "branch_ifs": True,
    "branch_matches": True,
    "returns": True,
}
GOLDEN["golden_loader.json"] = (LOADER_SPEC, [
    ("load_root", "zydeco_session::source::loader::SourceGraphLoader::<Provider>::load_root", "seqwhole"),
    ("load_canonical", "zydeco_session::source::loader::SourceGraphLoader::<Provider>::load_canonical", "seqwhole"),
    ("load_template", "zydeco_session::source::loader::SourceGraphLoader::<Provider>::load_template", "seqwhole"),
    ("load_signature", "zydeco_session::source::loader::SourceGraphLoader::<Provider>::load_signature", "seqwhole"),
    ("load_import", "zydeco_session::source::loader::SourceGraphLoader::<Provider>::load_import", "seqwhole"),
    ("SourceGraph::dependencies", "zydeco_session::source::graph::SourceGraph::dependencies", "seqwhole"),
    ("SourceDependency::target", "zydeco_session::source::graph::SourceDependency::target", "seqwhole"),
    ("SourceCycleDetector::visit", "zydeco_session::source::graph::SourceCycleDetector::<'graph>::visit", "seqwhole"),
    ("ProviderOrder::visit", "zydeco_session::source::graph::ProviderOrder::<'graph>::visit", "seqwhole"),
    ("ImportSite::decode", "zydeco_surface::textual::source::ImportSite::decode", "seqwhole"),
])


GRAPH_SPEC = {
    "calls": [("map.get", r"HashMap::<K, V, S(, A)?>::get(_mut)?$"), ("map.insert", r"HashMap::<K, V, S(, A)?>::insert$"),
              ("map.remove", r"HashMap::<K, V, S(, A)?>::remove$"), ("map.entry", r"HashMap::<K, V, S(, A)?>::entry$"),
              ("map.contains_key", r"HashMap::<K, V, S(, A)?>::contains_key$"), ("map.keys", r"HashMap::<K, V, S(, A)?>::keys$"),
              ("set.insert", r"HashSet::<T, S(, A)?>::insert$"), ("set.remove", r"HashSet::<T, S(, A)?>::remove$"),
              ("set.contains", r"HashSet::<T, S(, A)?>::contains$"), ("set.is_empty", r"HashSet::<T, S(, A)?>::is_empty$"),
              ("extend", r"::extend$"), ("or_insert_with", r"::or_insert_with$"), ("retain", r"::retain$"),
              ("push", r"Vec::<T, A>::push$"), ("pop", r"Vec::<T, A>::pop$"), ("reverse", r"::reverse$"), ("rev", r"::rev$"),
              ("sort_by_key", r"::sort_by_key$"), ("is_empty", r"::is_empty$"), ("len", r"::len$"),
              ("query", r"graph::(DepGraph|SrcGraph)::<Id>::query$"), ("add", r"graph::(DepGraph|SrcGraph)::<Id>::add$"),
              ("roots", r"graph::(DepGraph|SrcGraph)::<Id>::roots$"), ("order", r"graph::DepGraph::<Id>::order$"),
              ("nodes", r"graph::(DepGraph|SrcGraph)::<Id>::nodes$"), ("reverse_graph", r"graph::DepGraph::<Id>::reverse$"),
              ("dfs_forward", r"::dfs_forward$"), ("dfs_backward", r"::dfs_backward$"), ("SccGraph::new", r"SccGraph::<Id>::new$"),
              ("Kosaraju::new", r"Kosaraju::<'a, Id>::new$"), ("Kosaraju::run", r"Kosaraju::<'a, Id>::run$"),
              ("top", r"SccGraph::<Id>::top$"), ("release", r"SccGraph::<Id>::release$"),
              ("source_order", r"::source_order$"), ("alloc", r"::alloc$"), ("insert_new", r"::insert_new$"),
              ("remove", r"ArenaAssoc.*::remove$|::remove$"), ("ready", r"BindingContext::ready$"), ("traversal", r"BindingContext::traversal$"),
              ("topological_order", r"BindingContext::topological_order$"), ("from_bindings", r"BindingContext::from_bindings$"),
              ("alloc_scoped_term", r"::alloc_scoped_term$"), ("collect_candidates", r"BlockCandidateCollector::<'a>::collect$"),
              ("BlockScope::new", r"BlockScope::new$"), ("candidate.resolve", r"MobileCandidate::resolve$"), ("resolve", r"Resolve>::resolve$"),
              ("binding_id", r"::binding_id$"), ("build", r"ContextElaboration::<'a>::build$"),
              ("err", r"ResolveError::\\w+$"), ("any", r"::any$"), ("is_some_and", r"::is_some_and$"), ("first", r"::first$"),
              ("next", r"Iterator::next$|::next$"), ("filter", r"::filter$"), ("try_fold", r"::try_fold$"), ("fold", r"::fold$"),
              ("variant", r"ContextNode::\\w+$")],
    "ctors": [r"syntax::(Abs|Let|RecGroup|RecursiveDefinition|Block)$"],
    "assign": [],
    "branch_ifs": True,
    "branch_matches": True,
    "returns": True,
}
_G = "zydeco_utils::graph::"
GOLDEN["golden_graph.json"] = (GRAPH_SPEC, [
    ("DepGraph::add", _G + "DepGraph::<Id>::add", "seqwhole"),
    ("DepGraph::query", _G + "DepGraph::<Id>::query", "seqwhole"),
    ("DepGraph::order", _G + "DepGraph::<Id>::order", "seqwhole"),
    ("DepGraph::nodes", _G + "DepGraph::<Id>::nodes", "seqwhole"),
    ("DepGraph::reverse", _G + "DepGraph::<Id>::reverse", "seqwhole"),
    ("SrcGraph::add", _G + "SrcGraph::<Id>::add", "seqwhole"),
    ("SrcGraph::query", _G + "SrcGraph::<Id>::query", "seqwhole"),
    ("SrcGraph::roots", _G + "SrcGraph::<Id>::roots", "seqwhole"),
    ("Kosaraju::new", _G + "Kosaraju::<'a, Id>::new", "seqwhole"),
    ("Kosaraju::run", _G + "Kosaraju::<'a, Id>::run", "seqwhole"),
    ("Kosaraju::dfs_forward", _G + "Kosaraju::<'a, Id>::dfs_forward", "seqwhole"),
    ("Kosaraju::dfs_backward", _G + "Kosaraju::<'a, Id>::dfs_backward", "seqwhole"),
    ("SccGraph::new", _G + "SccGraph::<Id>::new", "seqwhole"),
    ("SccGraph::top", _G + "SccGraph::<Id>::top", "seqwhole"),
    ("SccGraph::release", _G + "SccGraph::<Id>::release", "seqwhole"),
    ("BindingContext::from_bindings", "zydeco_surface::scoped::arena::BindingContext::from_bindings", "seqwhole"),
    ("BindingContext::ready", "zydeco_surface::scoped::arena::BindingContext::ready", "seqwhole"),
    ("BindingContext::topological_order", "zydeco_surface::scoped::arena::BindingContext::topological_order", "seqwhole"),
    ("ContextElaboration::build", "zydeco_surface::scoped::blocks::ContextElaboration::<'a>::build", "seqwhole"),
    ("resolve_block", "zydeco_surface::scoped::blocks::<impl zydeco_surface::scoped::resolver::Resolver<'_>>::resolve_block", "seqwhole"),
])


COVERAGE_SPEC = {
    "calls": [("uncovered", r"CoverageMatrix::<'a>::uncovered$"), ("uncovered_finite", r"::uncovered_finite$"),
              ("uncovered_default", r"::uncovered_default$"), ("constructors", r"HeadSpace::constructors$"),
              ("head_space", r"MatrixPattern::head_space$"), ("specialize", r"Constructor::specialize$"),
              ("rebuild", r"Constructor::rebuild$"), ("arity", r"Constructor::arity$"), ("from_typed", r"MatrixPattern::from_typed$"),
              ("validate_match", r"::validate_match$"), ("validate_comatch", r"::validate_comatch$"),
              ("validate_pattern_matrix", r"::validate_pattern_matrix$"), ("validate_computation", r"::validate_computation$"),
              ("validate_value", r"::validate_value$"), ("validate_binder", r"::validate_binder$"), ("missing_patterns", r"::missing_patterns$"),
              ("is_empty", r"::is_empty$"), ("len", r"::len$"), ("truncate", r"::truncate$"), ("take", r"::take$"), ("skip", r"::skip$"),
              ("first", r"::first$"), ("next", r"::next$"), ("filter_map", r"::filter_map$"), ("flat_map", r"::flat_map$"),
              ("chain", r"::chain$"), ("once", r"sources::once::once$"), ("then_some", r"::then_some$"), ("then", r"bool>::then$|::then$"),
              ("or_else", r"::or_else$"), ("split_off", r"::split_off$"), ("rev", r"::rev$"), ("fold", r"::fold$"),
              ("set.insert", r"HashSet::<T, S(, A)?>::insert$"), ("set.contains", r"HashSet::<T, S(, A)?>::contains$"),
              ("get", r"ArenaAssoc.*::get$|::get$"), ("from_elem", r"vec::from_elem$"), ("expect", r"::expect$"),
              ("err", r"CoverageError::\\w+$"), ("pattern", r"CoveragePattern::\\w+$"), ("matrix-pattern", r"MatrixPattern::\\w+$"),
              ("space", r"HeadSpace::\\w+$"), ("constructor", r"coverage::Constructor::\\w+$")],
    "ctors": [],
    "assign": [],
    "branch_ifs": True,
    "branch_matches": True,
    "returns": True,
}
_CV = "zydeco_statics::validate::coverage::"
GOLDEN["golden_coverage.json"] = (COVERAGE_SPEC, [
    ("CoverageChecker::validate", _CV + "CoverageChecker::<'a>::validate", "seqwhole"),
    ("CoverageChecker::validate_computation", _CV + "CoverageChecker::<'a>::validate_computation", "seqwhole"),
    ("CoverageChecker::validate_match", _CV + "CoverageChecker::<'a>::validate_match", "seqwhole"),
    ("CoverageChecker::validate_pattern_matrix", _CV + "CoverageChecker::<'a>::validate_pattern_matrix", "seqwhole"),
    ("CoverageChecker::validate_comatch", _CV + "CoverageChecker::<'a>::validate_comatch", "seqwhole"),
    ("CoverageChecker::validate_value", _CV + "CoverageChecker::<'a>::validate_value", "seqwhole"),
    ("CoverageChecker::validate_binder", _CV + "CoverageChecker::<'a>::validate_binder", "seqwhole"),
    ("CoverageChecker::missing_patterns", _CV + "CoverageChecker::<'a>::missing_patterns", "seqwhole"),
    ("MatrixPattern::from_typed", _CV + "MatrixPattern::from_typed", "seq"),
    ("MatrixPattern::head_space", _CV + "MatrixPattern::head_space", "seq"),
    ("HeadSpace::constructors", _CV + "HeadSpace::constructors", "seq"),
    ("Constructor::arity", _CV + "Constructor::arity", "seq"),
    ("Constructor::specialize", _CV + "Constructor::specialize", "seq"),
    ("Constructor::rebuild", _CV + "Constructor::rebuild", "seqwhole"),
    ("CoverageMatrix::uncovered", _CV + "CoverageMatrix::<'a>::uncovered", "seqwhole"),
    ("CoverageMatrix::uncovered_finite", _CV + "CoverageMatrix::<'a>::uncovered_finite", "seqwhole"),
    ("CoverageMatrix::uncovered_default", _CV + "CoverageMatrix::<'a>::uncovered_default", "seqwhole"),
])


def extract_armexpr(facts, fn, scrut_ty=None):
    """arm -> [canonical S-expression of the arm's value] (for functional tables such as free-variable equations).
    scrut_ty: regex on the scrutinee type selecting the dispatch match (default: the first match of the body)."""
    h = facts.hir(fn)
    if h is None:
        return None
    m = A.find_match_on(h["body"], (lambda n: re.search(scrut_ty, H.strip_refs((n["scrut"].get("ty") or "")))) if scrut_ty else (lambda n: True))
    if m is None:
        return None
    table = {}
    outer = A.ArmEnv()
    outer.strip = True
    outer.bind_params(h)
    if scrut_ty:
        outer.absorb(h["body"])
    for a in m["arms"]:
        env = A.ArmEnv()
        env.strip = True
        env.names = dict(outer.names)
        env.bind_params(h)
        env.bind_pat(A.strip_or(a["pat"]))
        env.absorb(a["body"])
        s = A.sexpr(a["body"], env)
        if a.get("guard") is not None:
            s = "(guard %s) %s" % (A.sexpr(a["guard"], env), s)
        table[_fresh_key(table, A.pat_shape(a["pat"]))] = {"events": [s], "ln": a["ln"]}
    return table


_SV = "zydeco_stackir::sps::variables::"
_LV = "zydeco_stackir::sps_low::variables::"
GOLDEN["golden_freevars.json"] = ({}, [
    ("sps Vars for VPatId", "<zydeco_stackir::syntax::VPatId as %sVars>::vars" % _SV, "armexpr"),
    ("sps FreeVars for ValueId", "<zydeco_stackir::syntax::ValueId as %sFreeVars>::free_vars" % _SV, "armexpr"),
    ("sps FreeVars for StackId", "<zydeco_stackir::syntax::StackId as %sFreeVars>::free_vars" % _SV, "armexpr"),
    ("sps FreeVars for CompuId", "<zydeco_stackir::syntax::CompuId as %sFreeVars>::free_vars" % _SV, "armexpr"),
    ("sps_low Vars for VPatId", "<zydeco_stackir::sps_low::syntax::VPatId as %sVars>::vars" % _LV, "armexpr"),
    ("sps_low FreeVars for ValueId", "<zydeco_stackir::sps_low::syntax::ValueId as %sFreeVars>::free_vars" % _LV, "armexpr"),
    ("sps_low FreeVars for StackId", "<zydeco_stackir::sps_low::syntax::StackId as %sFreeVars>::free_vars" % _LV, "armexpr"),
    ("sps_low FreeVars for CompuId", "<zydeco_stackir::sps_low::syntax::CompuId as %sFreeVars>::free_vars" % _LV, "armexpr"),
])


_NZ = "zydeco_statics::normalize::"
NORMALIZE_SPEC = {
    "calls": [("normalize", r"TypeId>::normalize$|TypeId::normalize$|normalize::<impl .*TypeId>::normalize$"),
              ("normalize_components", r"::normalize_components$"), ("materialize", r"::materialize$"),
              ("from_root", r"::from_root$"), ("with_application", r"::with_application$"), ("fuse", r"::fuse_nested_abstractions$"),
              ("normalize_app", r"::normalize_app$"), ("bind_argument", r"::bind_argument$"), ("subst_abst", r"::subst_abst$"),
              ("subst_absts", r"::subst_absts$"), ("alloc", r"alloc::Alloc<.*>>::alloc$|Alloc>::alloc$|Alloc::alloc$"), ("type_kind", r"::type_kind$"),
              ("type_filled", r"::type_filled$"), ("kind_filled", r"::kind_filled$"), ("lub", r"Lub>::lub$|Lub::lub$"),
              ("err", r"Tycker::<'\w+>::err$|::err$"), ("push", r"Vec::<T, A>::push$"), ("reverse", r"::reverse$"),
              ("last_mut", r"::last_mut$"), ("fold", r"::try_fold$|::fold$"), ("map", r"Iterator::map$"), ("collect", r"::collect$")],
    "ctors": [], "assign": [r"original", r"function", r"body"], "branch_ifs": True, "branch_matches": True, "returns": True,
    "values": True,
}
GOLDEN["golden_normalize.json"] = (NORMALIZE_SPEC, [
    ("TypeId::normalize", _NZ + "<impl zydeco_statics::syntax::TypeId>::normalize", r"armexpr:syntax::Type$"),
    ("Spine::with_application", _NZ + "TypeApplicationSpine::with_application", "seqwhole"),
    ("Spine::from_root", _NZ + "TypeApplicationSpine::from_root", "seqwhole"),
    ("Spine::normalize_components", _NZ + "TypeApplicationSpine::normalize_components", "bodyexpr"),
    ("Spine::materialize", _NZ + "TypeApplicationSpine::materialize", "seqwhole"),
    ("Spine::fuse_nested_abstractions", _NZ + "TypeApplicationSpine::fuse_nested_abstractions", "seqwhole"),
    ("TypeId::normalize_app", _NZ + "<impl zydeco_statics::syntax::TypeId>::normalize_app", "bodyexpr"),
    ("TypeId::apply_type_argument_k", _NZ + "<impl zydeco_statics::syntax::TypeId>::apply_type_argument_k", "seqwhole"),
    ("TypeId::normalize_apps", _NZ + "<impl zydeco_statics::syntax::TypeId>::normalize_apps", "seqwhole"),
])


_LW = "zydeco_stackir::sps::lower::"
_CV2 = "zydeco_stackir::sps_low::convert::SpsLowConverter::<'a>::"
LOWERING_SPEC = {
    "calls": [("lower", r"sps::lower::Lower>::lower$"), ("lower_into", r"::lower_into$"), ("scoped", r"ValuePlan::<.*>::scoped$"),
              ("plan", r"ValuePlan::<T>::(pure|map|sequence|with_application|with_binding)$"),
              ("build", r"Construct<.*>>::build$|::build$"), ("is_coprod_match", r"::is_coprod_match$"),
              ("is_coprod_pattern", r"::is_coprod_pattern$"), ("projection_binding", r"::projection_binding$"),
              ("product", r"Lowerer::<'a>::product_(arity|fields|layout)$"), ("field_class", r"::field_class$"),
              ("alloc", r"::alloc_(projection_def|pure_result|capture|def|label|like)$"),
              ("translate", r"SpsLowConverter::<'a>::translate_\w+$"), ("extend_env", r"::extend_env$"),
              ("renamed_def", r"::renamed_def$"), ("translated_var", r"::translated_var$"),
              ("sorted_free_vars", r"::sorted_free_vars$"), ("capture_bindings", r"::capture_bindings$"),
              ("captured", r"::captured_(pattern|value_inside|value_outside)$"), ("product_value", r"::build_product_(value|pattern)$"),
              ("singleton", r"Context::<.*>::singleton$|::singleton$"), ("for_role", r"Builtin::for_role$"),
              ("make", r"Builtin::make_(operator|function)$"), ("from_vec", r"ConsN::<.*>::from_vec$"),
              ("push", r"Vec::<T, A>::push$"), ("insert", r"::insert$|::insert_def$"), ("get", r"HashMap::<K, V, S(, A)?>::get$")],
    "ctors": [], "assign": [r"env", r"stack"], "branch_ifs": True, "branch_matches": True, "returns": True, "values": True,
}
GOLDEN["golden_lowering.json"] = (LOWERING_SPEC, [
    ("sps Lower for VPatId", "<zydeco_statics::syntax::VPatId as %sLower>::lower" % _LW, "seq"),
    ("sps Lower for ValueId", "<zydeco_statics::syntax::ValueId as %sLower>::lower" % _LW, "seq"),
    ("sps Lower for Vec<ValueId>", "<alloc::vec::Vec<zydeco_statics::syntax::ValueId> as %sLower>::lower" % _LW, "seqwhole"),
    ("sps Lower for CompuId", "<zydeco_statics::syntax::CompuId as %sLower>::lower" % _LW, "seq"),
    ("sps ValuePlan::lower_into", _LW + "ValuePlan::<zydeco_stackir::syntax::ValueId>::lower_into", "seqwhole"),
    ("sps ValuePlan::scoped", _LW + "ValuePlan::<zydeco_stackir::syntax::ValueId>::scoped", "seqwhole"),
    ("sps ValuePlan::sequence", _LW + "ValuePlan::<T>::sequence", "seqwhole"),
    ("sps ValuePlan::map", _LW + "ValuePlan::<T>::map", "seqwhole"),
    ("sps projection_binding", _LW + "Lowerer::<'a>::projection_binding", "seqwhole"),
    ("sps RootLowerer::run", "<%sRootLowerer<'_> as zydeco_utils::pass::CompilerPass>::run" % _LW, "seqwhole"),
    ("sps BuiltinRootLowerer::run", "<%sBuiltinRootLowerer<'_> as zydeco_utils::pass::CompilerPass>::run" % _LW, "seqwhole"),
    ("sps BuiltinPackageLowering::lower", _LW + "BuiltinPackageLowering::lower", "seq"),
    ("low translate_pattern", _CV2 + "translate_pattern", "seq"),
    ("low translate_value", _CV2 + "translate_value", "seq"),
    ("low translate_stack", _CV2 + "translate_stack", "seq"),
    ("low translate_compu", _CV2 + "translate_compu", "seq"),
    ("low translate_closure", _CV2 + "translate_closure", "seqwhole"),
    ("low translate_continuation", _CV2 + "translate_continuation", "seqwhole"),
    ("low translate_force", _CV2 + "translate_force", "seqwhole"),
    ("low translate_return", _CV2 + "translate_return", "seqwhole"),
    ("low translate_fix", _CV2 + "translate_fix", "seqwhole"),
    ("low extend_env", _CV2 + "extend_env", "seqwhole"),
    ("low renamed_def", _CV2 + "renamed_def", "seqwhole"),
    ("low translated_var", _CV2 + "translated_var", "seqwhole"),
    ("low convert", _CV2 + "convert", "seqwhole"),
])


_IN = "zydeco_surface::textual::intention::"
INTENT_SPEC = {
    "calls": [("line_extent", r"SurfaceIntentions::line_extent$"), ("presentation_start", r"SurfaceIntentions::presentation_start$"),
              ("break_intent", r"SurfaceIntentions::break_intent$"), ("between", r"BreakIntent::between$"),
              ("contains_blank_line_between", r"::contains_blank_line_between$"), ("get", r"::get$"), ("variant", r"BreakIntent::\\w+$")],
    "ctors": [], "assign": [], "branch_ifs": True, "branch_matches": True, "returns": True,
}
GOLDEN["golden_intent.json"] = (INTENT_SPEC, [
    ("SurfaceIntentions::at", _IN + "SurfaceIntentions::at", "armexpr"),
    ("SurfaceIntentions::break_intent", _IN + "SurfaceIntentions::break_intent", "seqwhole"),
    ("SurfaceIntentions::presentation_start", _IN + "SurfaceIntentions::presentation_start", "seqwhole"),
    ("BreakIntent::between", _IN + "BreakIntent::between", "bodyexpr"),
    ("BreakIntent::requires_line_break", _IN + "BreakIntent::requires_line_break", "bodyexpr"),
])


_DS = "zydeco_surface::bitter::desugar::"
DESUGAR_SPEC = {
    "calls": [("desugar", r"Desugar>::desugar$"), ("alloc", r"Alloc.*::alloc$|::alloc$"), ("telescope.desugar", r"ParameterTelescope::desugar$"),
              ("quantify", r"ParameterTelescope::quantify$|::quantify$"), ("abstract", r"::abstract_over$|::abstract$"),
              ("push", r"Vec::<T, A>::push$"), ("extend", r"::extend$"), ("pop", r"Vec::<T, A>::pop$"), ("rev", r"::rev$"),
              ("fold", r"::fold$"), ("try_fold", r"::try_fold$"), ("rfold", r"::rfold$"), ("len", r"::len$"), ("next", r"Iterator>::next$|::next$"),
              ("err", r"DesugarError::\\w+$"), ("lookup", r"::lookup_\\w+$"), ("from_vec", r"::from_vec$"),
              ("existential", r"ExistentialTelescope::\\w+$|TextualExistentialTelescope::\\w+$"), ("copattern", r"CoPattern\\w*::\\w+$")],
    "ctors": [r"bitter::syntax::\\w+$|zydeco_syntax::\\w+$"],
    "assign": [],
    "branch_ifs": True, "branch_matches": True, "returns": True,
}
GOLDEN["golden_desugar.json"] = (DESUGAR_SPEC, [
    ("Desugar for TermId", "<zydeco_surface::textual::syntax::TermId as %sDesugar>::desugar" % _DS, "seq"),
    ("Desugar for PatId", "<zydeco_surface::textual::syntax::PatId as %sDesugar>::desugar" % _DS, "seq"),
    ("Desugar for CoPatId", "<zydeco_surface::textual::syntax::CoPatId as %sDesugar>::desugar" % _DS, "seq"),
    ("Desugar for GenBind", "<zydeco_surface::textual::syntax::GenBind<zydeco_surface::textual::syntax::TermId> as %sDesugar>::desugar" % _DS, "seqwhole"),
    ("ParameterTelescope::desugar", _DS + "ParameterTelescope::desugar", "seqwhole"),
    ("ParameterTelescope::quantify", _DS + "ParameterTelescope::quantify", "seqwhole"),
    ("ExistentialTelescope::quantify", _DS + "ExistentialTelescope::quantify", "seqwhole"),
    ("TextualExistentialTelescope::new", _DS + "TextualExistentialTelescope::new", "seqwhole"),
])


def compute(facts, fname):
    spec, fns = GOLDEN[fname]
    out = {}
    for label, fn, mode in fns:
        if mode == "seq":
            t = extract_seq(facts, fn, spec)
        elif mode == "seqwhole":
            t = extract_seq_whole(facts, fn, spec)
        elif mode == "armexpr" or mode.startswith("armexpr:"):
            t = extract_armexpr(facts, fn, mode.split(":", 1)[1] if ":" in mode else None)
        elif mode == "bodyexpr":
            h = facts.hir(fn)
            if h is None:
                t = None
            else:
                env = A.ArmEnv()
                env.strip = True
                env.bind_params(h)
                env.absorb(h["body"])
                t = {"(whole body)": {"events": [A.sexpr(h["body"], env)], "ln": facts.bodies()[fn]["loc"][1]}}
        else:
            t = extract(facts, fn, spec) if mode == "match" else extract_whole(facts, fn, spec)
        out[label] = {"fn": fn, "arms": None if t is None else {k: v["events"] for k, v in t.items()},
                      "lines": None if t is None else {k: v["ln"] for k, v in t.items()}}
    return out


def check(ctx, rule, fname, only=None):
    ref = load(fname)
    cur = compute(ctx.facts, fname)
    for label, r in ref.items():
        if label.startswith("_") or (only is not None and label not in only):
            continue
        fn = r["fn"]
        c = cur.get(label)
        if fn not in ctx.facts.bodies() or c is None or c["arms"] is None:
            # the audited algorithm is gone (replaced or renamed): what was audited no longer describes the tree
            ctx.violation(rule, "%s:replaced" % label, "%s no longer exists (or no longer has the audited shape): the algorithm audited "
                          "under this name was replaced; the replacement has to be audited against the property before it can be "
                          "accepted" % fn, None)
            continue
        ctx.fn(fn)
        loc = ctx.facts.bodies()[fn]["loc"]
        table = {k: {"events": v, "ln": c["lines"][k]} for k, v in c["arms"].items()}
        compare(ctx, rule, label, fn, table, r["arms"], loc)


# ----------------------------------------------------------------------------------------------------------------------
# flow-sensitive traces (assignments rename, loops carry)
# ----------------------------------------------------------------------------------------------------------------------
class Seq:
    def __init__(self, spec):
        self.spec = spec
        self.out = []

    def run(self, node, env):
        self.expr(node, env, tail=bool(self.spec.get("values")))
        return self.out

    def assigned_locals(self, node):
        s = set()
        for n in H.walk(node):
            if H.kind(n) in ("Assign", "AssignOp"):
                l = H.path_local(n["l"])
                if l:
                    s.add(l[0])
        return s

    def emit_call(self, n, env):
        c = H.callee(n) or ""
        for label, rx in self.spec.get("calls", []):
            if re.search(rx, c):
                args = [canon(a, env) for a in H.call_args(n)]
                # a query: no `&mut` receiver or argument. Queries are marked `~`; compare() tolerates added ones.
                tys_ = [n.get("recv_ty") or ""] if H.kind(n) == "MethodCall" else []
                tys_ += [(a.get("ty") or "") for a in H.call_args(n) if isinstance(a, dict)]
                pure = not any(t.startswith("&mut") for t in tys_) and not re.search(self.spec.get("effects", r"$^"), c)
                self.out.append("%s%s(%s)" % ("~" if pure else "", label, ", ".join(args)))
                return

    def bind(self, pat, base, env):
        if H.kind(pat) == "Bind" and pat.get("sub") is None:
            env.names[pat["local"]] = base
        else:
            for l, p in A.pat_paths(pat).items():
                env.names[l] = "%s/%s" % (base, p) if p else base

    def copy(self, env):
        e = A.ArmEnv()
        e.strip = True
        e.names = dict(env.names)
        if hasattr(env, "cdepth"):
            e.cdepth = env.cdepth
        e.carried = dict(getattr(env, "carried", {}))
        return e

    def expr(self, n, env, tail=False):
        """tail: n is in result position of the function / closure body (spec "values"): the value of each leaf is an event."""
        if not isinstance(n, dict):
            return
        k = H.kind(n)
        if k == "Block" or (k is None and "stmts" in n):
            for st in n.get("stmts", []):
                self.stmt(st, env)
            if n.get("expr") is not None:
                self.expr(n["expr"], env, tail)
            return
        if tail and k in ("AddrOf", "Use", "Type", "DropTemps"):
            self.expr(H.peel(n), env, tail) if H.peel(n) is not n else None
            if H.peel(n) is not n:
                return
        if tail and not (k in ("If", "Loop") or (k == "Match" and not H.is_try(n) and not H.is_for(n))):
            self.expr(n, env, False)
            if k not in ("Ret", "Break", "Continue") and not n.get("never"):
                self.out.append("value %s" % canon(n, env))
            return
        if k == "Match" and H.is_for(n):
            pat, it, body = H.for_parts(n)
            self.expr(it, env)
            e2 = self.copy(env)
            carried = self.assigned_locals(body) if body is not None else set()
            for l in carried:
                if l in e2.names:
                    e2.names[l] = "loop(%s)" % e2.names[l]
                    e2.carried[l] = e2.names[l]
            if pat is not None:
                self.bind(pat, "(each %s)" % canon(it, env), e2)
            self.out.append("for each %s {" % canon(it, env))
            if body is not None:
                self.expr(body, e2)
            self.out.append("}")
            for l in carried:
                if l in env.names:
                    env.names[l] = "loop(%s)" % env.names[l]
            return
        if k == "Loop":
            # `loop` / `while` / `while let`: locals assigned in the body are carried round the loop
            body = n.get("body")
            e2 = self.copy(env)
            carried = self.assigned_locals(body) if body is not None else set()
            for l in carried:
                if l in e2.names:
                    e2.names[l] = "loop(%s)" % e2.names[l]
                    e2.carried[l] = e2.names[l]
            self.out.append("loop {")
            if body is not None:
                self.expr(body, e2)
            self.out.append("}")
            for l in carried:
                if l in env.names:
                    env.names[l] = "loop(%s)" % env.names[l]
            return
        if k == "Match" and H.is_try(n):
            self.expr(H.try_inner(n), env)
            return
        if k == "Match":
            self.expr(n["scrut"], env)
            base = canon(n["scrut"], env)
            if self.spec.get("branch_matches"):
                self.out.append("match %s {" % base)
            for a in n["arms"]:
                e2 = self.copy(env)
                for l, p in A.pat_paths(A.strip_or(a["pat"])).items():
                    e2.names[l] = "%s/%s" % (base, p) if p else base
                if self.spec.get("branch_matches"):
                    self.out.append("| %s =>" % A.pat_shape(a["pat"]))
                if a.get("guard") is not None:
                    self.expr(a["guard"], e2)
                self.expr(a["body"], e2, tail)
            if self.spec.get("branch_matches"):
                self.out.append("}")
            return
        if k == "If":
            e2 = self.copy(env)
            if A.let_chain(n["c"]):
                # links of an `&&` chain are evaluated left to right, each seeing the bindings of the earlier ones
                for c in A.conjuncts(n["c"]):
                    if H.kind(c) == "LetExpr":
                        self.expr(c["init"], e2)
                        self.bind(c["pat"], canon(c["init"], e2), e2)
                    else:
                        self.expr(c, e2)
            else:
                self.expr(n["c"], env)
            if self.spec.get("branch_ifs"):
                self.out.append("if %s {" % canon(n["c"], e2))
            self.expr(n["t"], e2, tail)
            if n.get("e") is not None:
                if self.spec.get("branch_ifs"):
                    self.out.append("} else {")
                self.expr(n["e"], self.copy(env), tail)
            if self.spec.get("branch_ifs"):
                self.out.append("}")
            return
        if k == "MethodCall" and n["name"] in A.ITER_CLOSURE_METHODS and any(H.kind(H.peel(x)) == "Closure" for x in n["args"]):
            # closure over the elements of the receiver: its element parameter is `(each <receiver>)`
            self.expr(n["recv"], env)
            base = "(each %s)" % canon(n["recv"], env)
            d = getattr(env, "cdepth", 0)
            for x in n["args"]:
                clo = H.peel(x)
                if H.kind(clo) != "Closure":
                    self.expr(x, env)
                    continue
                e2 = self.copy(env)
                e2.cdepth = d + 1
                params = clo["params"]
                idx = 1 if n["name"] in ("fold", "try_fold") and len(params) > 1 else 0
                for i, p in enumerate(params):
                    b = base if i == idx else "$c%d.%d" % (d, i)
                    for l, pth in A.pat_paths(p).items():
                        e2.names[l] = "%s/%s" % (b, pth) if pth else b
                self.expr(clo["body"], e2, bool(self.spec.get("values")))
            self.emit_call(n, env)
            return
        if k == "Closure":
            e2 = self.copy(env)
            d = getattr(env, "cdepth", 0)
            e2.cdepth = d + 1
            for i, p in enumerate(n["params"]):
                for l, pth in A.pat_paths(p).items():
                    e2.names.setdefault(l, "$c%d.%d%s" % (d, i, ("/" + pth) if pth else ""))
            self.expr(n["body"], e2)
            return
        if k in ("Assign", "AssignOp"):
            self.expr(n["r"], env)
            l = H.path_local(n["l"])
            lcanon = canon(n["l"], env)
            for rx in self.spec.get("assign", []):
                if re.search(rx, lcanon):
                    self.out.append("%s := %s" % (lcanon, canon(n["r"], env)))
            if l and l[0] in getattr(env, "carried", {}):
                # the value a loop-carried local takes into the next iteration
                self.out.append("carry %s %s %s" % (env.carried[l[0]], ":=" if k == "Assign" else "op=", canon(n["r"], env)))
            if l and k == "Assign":
                env.names[l[0]] = canon(n["r"], env)
            return
        if k == "LetExpr":
            self.expr(n["init"], env)
            return
        # generic: children first (evaluation order), then the node's own event
        for c in H.children(n):
            self.expr(c, env)
        if k in ("Call", "MethodCall"):
            self.emit_call(n, env)
        elif k == "Ret" and self.spec.get("returns"):
            self.out.append("return %s" % canon(n.get("e"), env))

    def stmt(self, st, env):
        k = H.kind(st)
        if k == "Let":
            if st.get("init") is not None:
                self.expr(st["init"], env)
                self.bind(st["pat"], canon(st["init"], env), env)
            if st.get("els") is not None:
                self.expr(st["els"], self.copy(env))
        elif k in ("Semi", "Expr"):
            self.expr(st["e"], env)


def extract_seq(facts, fn, spec, pick=None):
    h = facts.hir(fn)
    if h is None:
        return None
    env0 = A.ArmEnv()
    env0.strip = True
    env0.bind_params(h)
    m = pick(h, env0) if pick else A.find_match_on(h["body"], lambda n: True)
    if m is None:
        return None
    # lets before the dispatch match
    pre = H.peel(h["body"])
    seq0 = Seq(spec)
    for st in pre.get("stmts", []):
        if H.kind(st) == "Let" and st.get("init") is not None:
            seq0.bind(st["pat"], canon(st["init"], env0), env0)
    table = {}
    for a in m["arms"]:
        env = seq0.copy(env0)
        env.bind_pat(A.strip_or(a["pat"]))
        s = Seq(spec)
        table[_fresh_key(table, A.pat_shape(a["pat"]))] = {"events": s.run(a["body"], env), "ln": a["ln"]}
    return table


def extract_seq_whole(facts, fn, spec):
    h = facts.hir(fn)
    if h is None:
        return None
    env = A.ArmEnv()
    env.strip = True
    env.bind_params(h)
    s = Seq(spec)
    return {"(whole body)": {"events": s.run(h["body"], env), "ln": facts.bodies()[fn]["loc"][1]}}


if __name__ == "__main__":
    import sys
    from . import facts as fm
    F = fm.Facts(fm.ensure())
    for fname in GOLDEN:
        data = compute(F, fname)
        for label in data:
            data[label].pop("lines", None)
        if "--write" in sys.argv:
            old = {}
            p = os.path.join(VERIF, "rules", fname)
            if os.path.exists(p):
                old = json.load(open(p))
            data["_comment"] = old.get("_comment", "audited reference; see DESIGN.md")
            json.dump(data, open(p, "w"), indent=1)
            print("wrote", p)
        else:
            print(json.dumps(data, indent=1))


