"""Checker self-test (thorough tier): every recorded patch that is meant to break (or, for `benign-*`, not to break) a property
is applied to a scratch worktree of /repo outside /repo and /verif, the property's quick check is run against it, and the
worktree is removed. Results are calibration of the checker, never VIOLATION lines of the property."""
import glob
import json
import os
import shutil
import subprocess
import tempfile
import time

from .facts import VERIF

REPO = os.environ.get("ZV_REPO", "/repo")


def items_for(prop=None):
    out = []
    for p in sorted(glob.glob(os.path.join(VERIF, "mutants", "*.patch"))):
        meta = json.load(open(p[:-6] + ".json"))
        out.append((os.path.basename(p)[:-6], p, meta))
    for d in sorted(glob.glob(os.path.join(VERIF, "seeded", "*"))):
        p = os.path.join(d, "patch.diff")
        if os.path.exists(p):
            meta = json.load(open(os.path.join(d, "meta.json")))
            out.append(("seeded-" + os.path.basename(d), p, meta))
    if prop:
        out = [i for i in out if prop in (i[2]["property"] if isinstance(i[2]["property"], list) else [i[2]["property"]])]
    return out


def run_check(prop, repo):
    env = dict(os.environ, ZV_REPO=repo, ZV_EVIDENCE_DIR=os.path.join(VERIF, ".cache", "selftest-evidence"), VERIF_TIER="quick")
    r = subprocess.run([os.path.join(VERIF, "verif"), "check", prop, "--tier", "quick"], cwd=VERIF, env=env, capture_output=True, text=True)
    return r.returncode, r.stdout + r.stderr


def run(prop):
    results = []
    for name, patch, meta in items_for(prop):
        wt = tempfile.mkdtemp(prefix="zv-selftest-")
        os.rmdir(wt)
        t0 = time.time()
        try:
            subprocess.run(["git", "-C", REPO, "worktree", "add", "--detach", "-q", wt, "HEAD"], check=True, capture_output=True)
            a = subprocess.run(["git", "-C", wt, "apply", patch], capture_output=True, text=True)
            if a.returncode != 0:
                results.append({"patch": name, "status": "does not apply to the current tree", "ok": False})
                continue
            code, out = run_check(prop, wt)
            detected = code == 1 and ("VIOLATION property=%s" % prop) in out
            expect = meta.get("expect", "violation")
            ok = detected if expect == "violation" else code == 0
            keys = [l.strip()[len("violation "):] for l in out.splitlines() if l.strip().startswith("violation ")]
            results.append({"patch": name, "kind": meta.get("kind") or meta.get("origin"), "expected": expect, "exit": code, "ok": ok,
                            "reported": keys[:4], "wall_s": round(time.time() - t0, 1)})
        finally:
            subprocess.run(["git", "-C", REPO, "worktree", "remove", "--force", wt], capture_output=True)
            shutil.rmtree(wt, ignore_errors=True)
    subprocess.run(["git", "-C", REPO, "worktree", "prune"], capture_output=True)
    return results
