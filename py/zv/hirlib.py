"""Utilities over the typed HIR JSON emitted by zyq."""

EXPR_CHILD_KEYS = ("f", "recv", "e", "a", "b", "c", "t", "l", "r", "i", "scrut", "init", "body", "base",
                   "expr", "guard", "els")
LIST_KEYS = ("args", "es", "stmts", "arms", "fields", "params", "pats", "before", "after")


def children(node):
    """Immediate child nodes (exprs, stmts, arms, pats, fields) in source order."""
    if not isinstance(node, dict):
        return
    k = node.get("k")
    # order matters for a few rules: emit in an order close to evaluation order
    if k == "MethodCall":
        yield node["recv"]
        for a in node["args"]:
            yield a
        return
    if k == "Call":
        yield node["f"]
        for a in node["args"]:
            yield a
        return
    if k == "Match":
        yield node["scrut"]
        for a in node["arms"]:
            yield a
        return
    if k == "If":
        yield node["c"]
        yield node["t"]
        if node.get("e") is not None:
            yield node["e"]
        return
    if k == "Block" or (k is None and "stmts" in node):
        for s in node.get("stmts", []):
            yield s
        if node.get("expr") is not None:
            yield node["expr"]
        return
    if k == "Let":
        if node.get("init") is not None:
            yield node["init"]
        yield node["pat"]
        if node.get("els") is not None:
            yield node["els"]
        return
    if k == "LetExpr":
        yield node["init"]
        yield node["pat"]
        return
    if k == "Struct" and "fields" in node and node["fields"] and "e" in node["fields"][0]:
        for f in node["fields"]:
            yield f["e"]
        if node.get("base") is not None:
            yield node["base"]
        return
    for key in ("pat",):
        if key in node and isinstance(node[key], dict):
            yield node[key]
    for key in EXPR_CHILD_KEYS:
        v = node.get(key)
        if isinstance(v, dict):
            yield v
    for key in LIST_KEYS:
        v = node.get(key)
        if isinstance(v, list):
            for x in v:
                if isinstance(x, dict):
                    if "pat" in x and "name" in x and "k" not in x:  # struct pattern field
                        yield x["pat"]
                    elif "e" in x and "name" in x and "k" not in x:  # struct expr field
                        yield x["e"]
                    else:
                        yield x
    for key in ("sub", "mid"):
        v = node.get(key)
        if isinstance(v, dict):
            yield v


def walk(node):
    """Pre-order walk over all nodes below (and including) `node`."""
    stack = [node]
    while stack:
        n = stack.pop()
        if not isinstance(n, dict):
            continue
        yield n
        cs = list(children(n))
        stack.extend(reversed(cs))


def walk_no_closures(node):
    stack = [node]
    while stack:
        n = stack.pop()
        if not isinstance(n, dict):
            continue
        yield n
        if n.get("k") == "Closure" and n is not node:
            continue
        stack.extend(reversed(list(children(n))))


def is_expr(n):
    return isinstance(n, dict) and "k" in n


def kind(n):
    return n.get("k") if isinstance(n, dict) else None


def callee(n):
    """Resolved callee path of a Call/MethodCall node, else None."""
    k = kind(n)
    if k == "MethodCall":
        return n.get("fn")
    if k == "Call":
        f = n["f"]
        if kind(f) == "Path":
            if "fn" in f:
                return f["fn"]
            r = f.get("res", {})
            return r.get("def")
    return None


def callee_decl(n):
    k = kind(n)
    if k == "MethodCall":
        return n.get("decl") or n.get("fn")
    return callee(n)


def call_args(n):
    """All arguments including the receiver (receiver first)."""
    if kind(n) == "MethodCall":
        return [n["recv"]] + n["args"]
    if kind(n) == "Call":
        return n["args"]
    return []


def calls(node, closures=True):
    w = walk if closures else walk_no_closures
    for n in w(node):
        if kind(n) in ("Call", "MethodCall"):
            c = callee(n)
            if c is not None:
                yield n, c


def is_try(n):
    """`expr?` (HIR: Match with source TryDesugar over Try::branch(expr))."""
    return kind(n) == "Match" and str(n.get("src", "")).startswith("TryDesugar")


def try_inner(n):
    """The operand of `?`."""
    s = n["scrut"]
    if kind(s) == "Call" and s["args"]:
        return s["args"][0]
    return s


def is_for(n):
    return kind(n) == "Match" and str(n.get("src", "")).startswith("ForLoopDesugar")


def for_parts(n):
    """(pattern, iterable expr, body) of a desugared `for` loop (n is the outer Match)."""
    it = n["scrut"]
    if kind(it) == "Call" and it["args"]:
        it = it["args"][0]
    loop = n["arms"][0]["body"]
    # loop body: Block { stmts: [Expr(Match next(..) { None => break, Some(pat) => body })] }
    pat = None
    body = None
    for m in walk(loop):
        if kind(m) == "Match" and str(m.get("src", "")).startswith("ForLoopDesugar"):
            for a in m["arms"]:
                p = a["pat"]
                if kind(p) == "TupleStruct" and p["path"].get("def", "").endswith("Option::Some"):
                    pat = p["pats"][0] if p["pats"] else None
                    body = a["body"]
                elif kind(p) == "Struct" and p["path"].get("def", "").endswith("Option::Some"):
                    pat = p["fields"][0]["pat"] if p["fields"] else None
                    body = a["body"]
            break
    return pat, it, body


def peel(n):
    """Strip transparent wrappers: blocks with only a tail expr, AddrOf, Use, Type, parentheses."""
    while isinstance(n, dict):
        k = kind(n)
        if k == "Block" and not n.get("stmts") and n.get("expr") is not None:
            n = n["expr"]
        elif k in ("AddrOf", "Use", "Type"):
            n = n["e"]
        elif k == "Unary" and n.get("op") == "Deref":
            n = n["e"]
        else:
            break
    return n


def path_local(n):
    """If n (peeled) is a path to a local binding, its (local id, name)."""
    n = peel(n)
    if kind(n) == "Path":
        r = n.get("res", {})
        if "local" in r:
            return r["local"], r["name"]
    return None


def path_def(n):
    n = peel(n)
    if kind(n) == "Path":
        return n.get("res", {}).get("def")
    return None


def pat_bindings(p):
    """All Bind nodes in a pattern."""
    return [n for n in walk(p) if kind(n) == "Bind"]


def pat_variants(p):
    """Resolved variant/struct paths mentioned in a pattern (pre-order)."""
    out = []
    for n in walk(p):
        if kind(n) in ("TupleStruct", "Struct", "Path") and "path" in n:
            d = n["path"].get("def")
            if d:
                out.append(d)
    return out


def pat_is_catch_all(p):
    """Wildcard or plain binding (possibly by-ref) at the top."""
    k = kind(p)
    if k == "Wild":
        return True
    if k == "Bind" and p.get("sub") is None:
        return True
    if k == "Ref":
        return pat_is_catch_all(p["sub"])
    return False


def top_variant(p):
    """Variant path at the head of a pattern, looking through references and bindings `x @ P`."""
    while isinstance(p, dict):
        k = kind(p)
        if k in ("TupleStruct", "Struct", "Path") and "path" in p:
            return p["path"].get("def")
        if k in ("Ref", "Deref"):
            p = p["sub"]
        elif k == "Bind" and p.get("sub") is not None:
            p = p["sub"]
        else:
            return None
    return None


def macro_names(n):
    return n.get("expn") or []


def is_panic_expn(n):
    e = macro_names(n)
    return any(m in ("panic", "unreachable", "unimplemented", "todo", "assert", "assert_eq", "assert_ne",
                     "debug_assert", "panic_2021", "unreachable_2021") for m in e)


def diverges(n):
    """Structural divergence: control never falls out of `n` normally."""
    if not isinstance(n, dict):
        return False
    if n.get("never"):
        return True
    k = kind(n)
    if k in ("Ret", "Break", "Continue", "Become"):
        return True
    if k == "Block" or (k is None and "stmts" in n):
        for st in n.get("stmts", []):
            sk = kind(st)
            if sk in ("Semi", "Expr") and diverges(st["e"]):
                return True
            if sk == "Let" and st.get("init") is not None and diverges(st["init"]):
                return True
        return n.get("expr") is not None and diverges(n["expr"])
    if k == "If":
        return diverges(n["c"]) or (n.get("e") is not None and diverges(n["t"]) and diverges(n["e"]))
    if k == "Match":
        return diverges(n["scrut"]) or (bool(n["arms"]) and all(diverges(a["body"]) for a in n["arms"]))
    if k in ("Call", "MethodCall"):
        return any(diverges(a) for a in call_args(n))
    if k in ("AddrOf", "Use", "Type", "Cast", "Unary", "Field"):
        return diverges(n["e"])
    return False


PANIC_MACROS = {"panic", "unreachable", "unimplemented", "todo", "assert", "assert_eq", "assert_ne",
                "debug_assert", "debug_assert_eq", "debug_assert_ne"}


def panic_kind(n):
    """If evaluating `n` (an arm body / else block) ends in an explicit panic, the macro name."""
    for x in walk_no_closures(n):
        e = x.get("expn") or []
        for m in e:
            if m in PANIC_MACROS:
                return m
        if kind(x) in ("Call", "MethodCall"):
            c = callee(x) or ""
            if c.startswith("core::panicking::") or c.startswith("std::rt::begin_panic") or \
                    c.endswith("::unwrap_failed") or c.endswith("::expect_failed"):
                return "panic"
    return None


def exits_by_panic_only(n):
    """`n` diverges and contains no return/break/continue/`?`: the only way out is a panic."""
    if not diverges(n):
        return False
    for x in walk_no_closures(n):
        if kind(x) in ("Ret", "Break", "Continue"):
            return False
        if is_try(x):
            return False
    return panic_kind(n) is not None


def matches_of(node, scrut_ty_pred):
    for n in walk(node):
        if kind(n) == "Match" and not n.get("src") and scrut_ty_pred(n.get("scrut_ty", "")):
            yield n


def strip_refs(ty):
    t = ty.strip()
    while t.startswith("&"):
        t = t[1:].lstrip()
        if t.startswith("mut "):
            t = t[4:]
        if t.startswith("'"):
            # lifetime
            sp = t.find(" ")
            t = t[sp + 1:] if sp >= 0 else t
    return t
