"""Helpers for arm-table rules over typed HIR: binding provenance and canonical expression forms."""
from . import hirlib as H


def seg(path):
    return path.split("::")[-1] if path else "?"


def pat_paths(pat, prefix="", out=None):
    """local id -> provenance path of every binding in `pat`.
    Path grammar: T<i> tuple position, S<i> slice position (S-<i> from the end), <Variant>.<i|field> payload."""
    if out is None:
        out = {}
    k = H.kind(pat)
    if k == "Bind":
        out[pat["local"]] = prefix.strip("/")
        if pat.get("sub") is not None:
            pat_paths(pat["sub"], prefix, out)
    elif k in ("Ref", "Deref"):
        pat_paths(pat["sub"], prefix, out)
    elif k == "Tuple":
        for i, p in enumerate(pat["pats"]):
            pat_paths(p, "%s/T%d" % (prefix, i), out)
    elif k == "Slice":
        for i, p in enumerate(pat.get("before", [])):
            pat_paths(p, "%s/S%d" % (prefix, i), out)
        if pat.get("mid") is not None:
            pat_paths(pat["mid"], "%s/S*" % prefix, out)
        n = len(pat.get("after", []))
        for i, p in enumerate(pat.get("after", [])):
            pat_paths(p, "%s/S-%d" % (prefix, n - i), out)
    elif k == "TupleStruct":
        v = seg(pat["path"].get("def"))
        for i, p in enumerate(pat["pats"]):
            pat_paths(p, "%s/%s.%d" % (prefix, v, i), out)
    elif k == "Struct":
        v = seg(pat["path"].get("def"))
        for f in pat["fields"]:
            pat_paths(f["pat"], "%s/%s.%s" % (prefix, v, f["name"]), out)
    elif k == "Or":
        for p in pat["pats"]:
            pat_paths(p, prefix, out)
    elif k == "Guard":
        pat_paths(pat["sub"], prefix, out)
    return out


def pat_shape(pat):
    """Canonical text of a pattern's structure (variants and positions, no binding names)."""
    k = H.kind(pat)
    if k == "Bind":
        return "_" if pat.get("sub") is None else pat_shape(pat["sub"])
    if k == "Wild":
        return "_"
    if k in ("Ref", "Deref"):
        return pat_shape(pat["sub"])
    if k == "Tuple":
        return "(" + ",".join(pat_shape(p) for p in pat["pats"]) + ")"
    if k == "Slice":
        items = [pat_shape(p) for p in pat.get("before", [])]
        if pat.get("mid") is not None:
            items.append("..")
        items += [pat_shape(p) for p in pat.get("after", [])]
        return "[" + ",".join(items) + "]"
    if k == "TupleStruct":
        return seg(pat["path"].get("def")) + "(" + ",".join(pat_shape(p) for p in pat["pats"]) + ")"
    if k == "Struct":
        return seg(pat["path"].get("def")) + "{" + ",".join("%s:%s" % (f["name"], pat_shape(f["pat"])) for f in pat["fields"]) + "}"
    if k == "Path":
        return seg(pat["path"].get("def"))
    if k == "Or":
        return "|".join(pat_shape(p) for p in pat["pats"])
    if k == "Lit":
        return "lit:%s" % list(pat["lit"].values())[0]
    if k == "Guard":
        return pat_shape(pat["sub"])
    return k or "?"


def strip_or(pat):
    """`| P` arms are emitted as Or[P]."""
    while H.kind(pat) == "Or" and len(pat["pats"]) == 1:
        pat = pat["pats"][0]
    return pat


class Env:
    """local id -> symbolic name (provenance path or `let` definition)."""

    def __init__(self):
        self.names = {}

    def bind_pat(self, pat, prefix=""):
        for l, p in pat_paths(pat, prefix).items():
            self.names[l] = "$" + p

    def bind_params(self, hir):
        for i, p in enumerate(hir["params"]):
            for l, pth in pat_paths(p, "P%d" % i).items():
                self.names[l] = "$" + pth

    def bind_lets(self, block, limit=None):
        """let x = e  ==> x := sexpr(e) (simple bindings only)."""
        for st in block.get("stmts", []):
            if H.kind(st) == "Let" and st.get("init") is not None and st.get("els") is None:
                p = st["pat"]
                if H.kind(p) == "Bind" and p.get("sub") is None:
                    self.names[p["local"]] = sexpr(st["init"], self)
                else:
                    # destructuring let: every bound name is a path into the initialiser
                    base = sexpr(st["init"], self)
                    for l, pth in pat_paths(p).items():
                        self.names.setdefault(l, "%s/%s" % (base, pth) if pth else base)


STRIP_METHODS = {"clone", "as_ref", "to_owned", "into", "as_mut", "borrow", "to_vec", "into_iter", "iter", "copied", "cloned"}
STRIP_FUNCS = {"mk_rc", "mk_box"}


def _sub(env):
    sub = Env()
    if env is not None:
        sub.names = dict(env.names)
        for a in ("strip", "cdepth"):
            if hasattr(env, a):
                setattr(sub, a, getattr(env, a))
    return sub


def let_chain(c):
    """the `let` links of an if-condition: `let P = e`, or an `&&` chain containing such links (left to right)."""
    c = H.peel(c)
    if H.kind(c) == "LetExpr":
        return [c]
    if H.kind(c) == "Binary" and c.get("op") == "And":
        return let_chain(c["a"]) + let_chain(c["b"])
    return []


def conjuncts(c):
    c = H.peel(c)
    if H.kind(c) == "Binary" and c.get("op") == "And":
        return conjuncts(c["a"]) + conjuncts(c["b"])
    return [c]


def sexpr(n, env=None, depth=0):
    """Canonical S-expression of an expression: resolved callees, provenance names for locals."""
    if n is None:
        return "()"
    if depth > 40:
        return "..."
    k = H.kind(n)
    names = env.names if env else {}
    if k == "Path":
        r = n.get("res", {})
        if "local" in r:
            return names.get(r["local"], "$" + r["name"])
        return n.get("fn") or r.get("def", "?")
    if k == "Lit":
        return str(list(n["lit"].values())[0])
    if k in ("AddrOf",):
        return sexpr(n["e"], env, depth + 1)
    if k == "Unary":
        if n["op"] == "Deref":
            return sexpr(n["e"], env, depth + 1)
        return "(%s %s)" % (n["op"], sexpr(n["e"], env, depth + 1))
    if k == "Binary":
        return "(%s %s %s)" % (n["op"], sexpr(n["a"], env, depth + 1), sexpr(n["b"], env, depth + 1))
    strip = bool(getattr(env, "strip", False))
    if k == "MethodCall":
        if strip and not n["args"] and n["name"] in STRIP_METHODS:
            return sexpr(n["recv"], env, depth + 1)
        return "(%s %s)" % (n.get("fn") or n["name"], " ".join(sexpr(a, env, depth + 1) for a in [n["recv"]] + n["args"]))
    if k == "Call":
        if strip and len(n["args"]) == 1:
            c = H.callee(n) or ""
            if c.split("::")[-1] in STRIP_FUNCS or c.endswith("Rc::<T>::new") or c.endswith("Box::<T>::new") or c.endswith("Arc::<T>::new"):
                return sexpr(n["args"][0], env, depth + 1)
        return "(%s %s)" % (sexpr(n["f"], env, depth + 1), " ".join(sexpr(a, env, depth + 1) for a in n["args"]))
    if k == "Cast":
        return "(as %s %s->%s)" % (sexpr(n["e"], env, depth + 1), n.get("from"), n.get("ty"))
    if k == "Field":
        return "(. %s %s)" % (sexpr(n["e"], env, depth + 1), n["name"])
    if k == "Index":
        return "([] %s %s)" % (sexpr(n["e"], env, depth + 1), sexpr(n["i"], env, depth + 1))
    if k == "Tup":
        return "(tuple %s)" % " ".join(sexpr(a, env, depth + 1) for a in n["es"])
    if k == "Array":
        return "(array %s)" % " ".join(sexpr(a, env, depth + 1) for a in n["es"])
    if k == "Struct":
        return "(%s %s)" % (n["path"].get("def"), " ".join("%s=%s" % (f["name"], sexpr(f["e"], env, depth + 1)) for f in n["fields"]))
    if k == "Block" or (k is None and "stmts" in n):
        if not n.get("stmts") and n.get("expr") is not None:
            return sexpr(n["expr"], env, depth + 1)
        sub = env
        if env is not None:
            sub = _sub(env)
            sub.bind_lets(n)
        if n.get("expr") is not None and all(H.kind(s) == "Let" and s.get("els") is None for s in n["stmts"]):
            return sexpr(n["expr"], sub, depth + 1)
        return "(block ...)"
    if k == "Match" and H.is_try(n):
        return "(? %s)" % sexpr(H.try_inner(n), env, depth + 1)
    if k == "If":
        tenv = env
        lets = let_chain(n["c"])
        if lets and env is not None:
            tenv = _sub(env)
            for c in lets:
                # a later link of an `&&` chain sees the bindings of the earlier ones
                base = sexpr(c["init"], tenv, depth + 1)
                for l, p in pat_paths(c["pat"]).items():
                    tenv.names[l] = "%s/%s" % (base, p) if p else base
        return "(if %s %s %s)" % (sexpr(n["c"], tenv, depth + 1), sexpr(n["t"], tenv, depth + 1), sexpr(n.get("e"), env, depth + 1))
    if k == "LetExpr":
        return "(let %s %s)" % (pat_shape(n["pat"]), sexpr(n["init"], env, depth + 1))
    if k == "Closure":
        # parameters are named by closure nesting depth and position, never by their source name
        sub = _sub(env)
        d = getattr(sub, "cdepth", 0)
        sub.cdepth = d + 1
        for i, p in enumerate(n.get("params") or []):
            for l, pth in pat_paths(p).items():
                sub.names.setdefault(l, "$c%d.%d%s" % (d, i, ("/" + pth) if pth else ""))
        return "(closure %s)" % sexpr(n["body"], sub, depth + 1)
    if k == "Ret":
        return "(return %s)" % sexpr(n.get("e"), env, depth + 1)
    if k == "Match":
        return "(match %s ...)" % sexpr(n["scrut"], env, depth + 1)
    return "(%s)" % k


def arms_by_variant(match, tuple_pos=None, enum_suffix=None):
    """variant name -> arm, keyed by the variant at the head of the arm pattern (or of tuple component `tuple_pos`)."""
    out = {}
    for a in match["arms"]:
        p = strip_or(a["pat"])
        pats = p["pats"] if H.kind(p) == "Or" else [p]
        for q in pats:
            q = strip_or(q)
            if tuple_pos is not None:
                if H.kind(q) != "Tuple" or len(q["pats"]) <= tuple_pos:
                    out.setdefault("_", a)
                    continue
                q = q["pats"][tuple_pos]
            v = H.top_variant(q)
            if v is None:
                out.setdefault("_", a)
            elif enum_suffix is None or v.rsplit("::", 1)[0].endswith(enum_suffix):
                out[seg(v)] = a
    return out


def find_match_on(body, pred):
    for n in H.walk(body):
        if H.kind(n) == "Match" and not n.get("src") and pred(n):
            return n
    return None


def scrut_is_local_named(m, name):
    s = H.peel(m["scrut"])
    return H.kind(s) == "Path" and s.get("res", {}).get("name") == name


def scrut_is_param(m, hir, index):
    s = H.peel(m["scrut"])
    l = H.path_local(s)
    if not l:
        return False
    binds = H.pat_bindings(hir["params"][index]) if index < len(hir["params"]) else []
    return any(b["local"] == l[0] for b in binds)


ITER_CLOSURE_METHODS = {"map", "flat_map", "for_each", "filter_map", "filter", "any", "all", "find", "find_map", "fold", "try_fold",
                        "try_for_each", "position", "inspect", "take_while", "skip_while"}


class ArmEnv(Env):
    """Names every local of an arm by its provenance: pattern paths, destructuring lets, let-else, for-loops,
    closure parameters and the patterns of nested matches (prefix = canonical scrutinee)."""

    def absorb(self, node, rounds=2):
        cdepth = {}
        stack = [(node, getattr(self, "cdepth", 0))]
        while stack:
            x, d = stack.pop()
            if not isinstance(x, dict):
                continue
            if H.kind(x) == "Closure":
                cdepth[id(x)] = d
                d += 1
            for c in H.children(x):
                stack.append((c, d))
        for _ in range(rounds):
            for st in H.walk(node):
                k = H.kind(st)
                if k == "Let" and st.get("init") is not None:
                    base = sexpr(st["init"], self)
                    pat = st["pat"]
                    if H.kind(pat) == "Bind" and pat.get("sub") is None:
                        self.names[pat["local"]] = base
                    else:
                        for l, p in pat_paths(pat).items():
                            self.names[l] = "%s/%s" % (base, p) if p else base
                elif k == "LetExpr":
                    base = sexpr(st["init"], self)
                    for l, p in pat_paths(st["pat"]).items():
                        self.names[l] = "%s/%s" % (base, p) if p else base
                elif k == "Match" and H.is_for(st):
                    pat, it, body = H.for_parts(st)
                    if pat is not None:
                        base = "(each %s)" % sexpr(it, self)
                        for l, p in pat_paths(pat).items():
                            self.names[l] = "%s/%s" % (base, p) if p else base
                elif k == "Match" and not st.get("src"):
                    base = sexpr(st["scrut"], self)
                    for a in st["arms"]:
                        for l, p in pat_paths(strip_or(a["pat"])).items():
                            self.names.setdefault(l, "%s/%s" % (base, p) if p else base)
                elif k == "MethodCall" and st["name"] in ITER_CLOSURE_METHODS:
                    # closure over the elements of the receiver: name its parameter `(each <receiver>)`
                    for x in st["args"]:
                        clo = H.peel(x)
                        if H.kind(clo) == "Closure" and clo["params"]:
                            base = "(each %s)" % sexpr(st["recv"], self)
                            idx = 1 if st["name"] in ("fold", "try_fold") and len(clo["params"]) > 1 else 0
                            for l, pth in pat_paths(clo["params"][idx]).items():
                                self.names[l] = "%s/%s" % (base, pth) if pth else base
                elif k == "Closure":
                    d = cdepth.get(id(st), 0)
                    for i, p in enumerate(st["params"]):
                        for l, pth in pat_paths(p).items():
                            self.names.setdefault(l, "$c%d.%d%s" % (d, i, ("/" + pth) if pth else ""))


def clean(s):
    """Drop clone / as_ref / to_owned / Rc noise from a canonical form."""
    import re
    prev = None
    while prev != s:
        prev = s
        s = re.sub(r"\(<[^()]*? as core::clone::Clone>::clone ([^()]*|\([^()]*\))\)", r"\1", s)
        s = re.sub(r"\(<alloc::rc::Rc<T, A> as core::convert::AsRef<T>>::as_ref ([^()]*|\([^()]*\))\)", r"\1", s)
        s = re.sub(r"\(alloc::borrow::ToOwned::to_owned ([^()]*|\([^()]*\))\)", r"\1", s)
        s = re.sub(r"\(<[^()]*? as alloc::borrow::ToOwned>::to_owned ([^()]*|\([^()]*\))\)", r"\1", s)
    return s
