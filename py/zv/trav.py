"""R-TRAV: traversal completeness — every id-typed child bound (or ignored) by an arm of a syntax traversal is handed to
the traversal family, unless the (variant, child) pair is in the stop / erasure table."""
import re

from . import armlib as A
from . import hirlib as H


def _id_like(ty, id_rx):
    return bool(re.search(id_rx, ty or ""))


def check_traversal(ctx, rule, fn, family_rx, id_rx, stop=None, erased=None, label=None, dispatch=None, allow_default=False,
                    ignored_ok=None, rest_ok=None):
    """stop: {variant: reason} arms that deliberately visit nothing; erased: {variant: {path-suffix: reason}} children that are
    deliberately not visited."""
    facts = ctx.facts
    stop = stop or {}
    erased = erased or {}
    ignored_ok = ignored_ok or {}
    label = label or fn.split("::")[-1]
    h = ctx.need_hir(rule, fn)
    loc = facts.bodies()[fn]["loc"]
    env0 = A.Env()
    env0.bind_params(h)
    m = dispatch(h, env0) if dispatch else A.find_match_on(h["body"], lambda n: True)
    if m is None:
        ctx.anchor_lost(rule, "%s: dispatch match not found" % fn)
        return 0
    n_kids = 0
    for a in m["arms"]:
        pat = A.strip_or(a["pat"])
        shapes = [A.strip_or(q) for q in (pat["pats"] if H.kind(pat) == "Or" else [pat])]
        variants = sorted(set((H.top_variant(q) or "_").split("::")[-1] for q in shapes))
        vname = "|".join(variants)
        if H.pat_is_catch_all(pat) and not allow_default:
            ctx.violation(rule, "%s:default-arm" % label, "%s has a catch-all arm: a new syntax variant would be traversed as a leaf" % fn,
                          [loc[0], a["ln"]])
            continue
        if H.exits_by_panic_only(a["body"]):
            continue
        if all(v in stop for v in variants):
            # a stop arm must really visit nothing
            calls = [c for _, c in H.calls(a["body"]) if re.search(family_rx, c)]
            ctx.check(not calls, rule, "%s:%s:stop" % (label, vname), "%s arm %s is a declared scope boundary but recurses (%s)"
                      % (fn, vname, calls[:2]), [loc[0], a["ln"]], detail={"variant": vname, "stops_because": stop[variants[0]]})
            continue
        env = A.ArmEnv()
        env.strip = True
        env.names = dict(env0.names)
        env.bind_pat(pat)
        env.absorb(a["body"])
        # children: bindings and wildcards of id type in the arm pattern and in destructuring lets of the body
        kids = {}
        ignored = []
        rests = []

        def scan(p, prefix):
            for node in H.walk(p):
                k = H.kind(node)
                if k == "Bind" and _id_like(node.get("ty"), id_rx) and node.get("sub") is None:
                    kids[node["local"]] = node
                elif k == "Wild" and _id_like(node.get("ty"), id_rx):
                    ignored.append(node)
                elif k == "Struct" and node.get("rest") and "path" in node:
                    rests.append(node)
        scan(pat, "")
        for st in H.walk(a["body"]):
            if H.kind(st) == "Let" and st.get("init") is not None and H.kind(st["pat"]) != "Bind":
                # destructuring of something that came from the arm pattern
                base = A.sexpr(st["init"], env)
                if base.startswith("$") and not base.startswith("$P"):
                    scan(st["pat"], base)
        # visited canonical names
        visited_txt = []
        for n, c in H.calls(a["body"]):
            if re.search(family_rx, c):
                visited_txt.append(" ".join(A.sexpr(x, env) for x in H.call_args(n)))
            elif H.kind(n) == "MethodCall" and n["name"] in ("map", "flat_map", "for_each", "filter_map", "fold", "try_fold"):
                # family function passed as a value: `.map(Self::f)`
                for x in n["args"]:
                    xx = H.peel(x)
                    if H.kind(xx) == "Path" and re.search(family_rx, xx.get("fn") or ""):
                        visited_txt.append(A.sexpr(n["recv"], env))
        blob = " | ".join(visited_txt)
        er = {}
        for v in variants:
            er.update(erased.get(v, {}))
        for l, node in sorted(kids.items()):
            name = env.names.get(l, "$" + node["name"])
            n_kids += 1
            suffix_ok = next((why for sfx, why in er.items() if name.endswith(sfx)), None)
            seen = re.search(re.escape(name) + r"(?![\w.])", blob) is not None
            if suffix_ok is not None:
                ctx.check(not seen or True, rule, "%s:%s:%s" % (label, vname, name.split("/")[-1]), "", None,
                          detail={"variant": vname, "child": name, "not_visited_because": suffix_ok})
                continue
            ctx.check(seen, rule, "%s:%s:%s" % (label, vname, name.split("/")[-1]),
                      "%s arm %s binds child `%s` (%s) but never hands it to the traversal: that sub-term is skipped"
                      % (fn, vname, node["name"], name), [loc[0], a["ln"]], detail={"variant": vname, "child": name, "visited": True})
        for node in ignored:
            n_kids += 1
            why = next((ignored_ok[v] for v in variants if v in ignored_ok), None)
            if why:
                ctx.ok(rule, "%s:%s:ignored-child" % (label, vname), {"variant": vname, "ignored_because": why})
                continue
            ctx.violation(rule, "%s:%s:ignored-child" % (label, vname),
                          "%s arm %s ignores a child of type %s with `_`" % (fn, vname, node.get("ty")), [loc[0], a["ln"]])
        for node in rests:
            why = next(((rest_ok or {})[v] for v in variants if v in (rest_ok or {})), None)
            if why:
                ctx.ok(rule, "%s:%s:rest-pattern" % (label, vname), {"variant": vname, "rest_ok_because": why})
                continue
            ctx.violation(rule, "%s:%s:rest-pattern" % (label, vname),
                          "%s arm %s uses `..` on %s: children can be skipped silently" % (fn, vname, node["path"].get("def")),
                          [loc[0], a["ln"]])
    return n_kids
