"""CFG utilities over the compact MIR emitted by zyq."""


def place_local(p):
    return p if isinstance(p, int) else p[0]


def place_proj(p):
    return [] if isinstance(p, int) else p[1:]


def op_place(op):
    """operand -> place or None (constants)"""
    if op[0] in ("c", "m"):
        return op[1]
    return None


def op_const(op):
    return op[1] if op[0] == "k" else None


class Body:
    def __init__(self, path, mir):
        self.path = path
        self.mir = mir
        self.blocks = mir["blocks"]
        self.locals = mir["locals"]
        self.n = len(self.blocks)
        self._succ = None
        self._pred = None
        self._dom = None

    # ---- structure ---------------------------------------------------------------------------
    def term(self, bb):
        return self.blocks[bb]["t"]

    def stmts(self, bb):
        return self.blocks[bb]["s"]

    def is_cleanup(self, bb):
        return bool(self.blocks[bb].get("cleanup"))

    def succs(self, bb):
        """Normal (non-unwind) successors, minus edges that cannot execute (see _infeasible)."""
        if self._succ is None:
            self._succ = [self._compute_succ(i) for i in range(self.n)]
            for (a, b) in self._infeasible():
                if b in self._succ[a] and len(self._succ[a]) > 1:
                    self._succ[a] = [x for x in self._succ[a] if x != b]
        return self._succ[bb]

    def _infeasible(self):
        """`Err(e)?` / `None?`: Try::branch applied to a value built as Err/None in the same block chain can only take
        the Break edge; the Continue edge of the following switch is dead."""
        dead = []
        for i in range(self.n):
            t = self.blocks[i]["t"]
            if t["k"] != "call" or not (t["fn"].endswith("Try>::branch") or t["fn"].endswith("::branch")):
                continue
            if not t["args"] or t.get("t") is None:
                continue
            p = op_place(t["args"][0])
            if p is None or place_proj(p):
                continue
            src = place_local(p)
            defs = []
            for j in range(self.n):
                for st in self.blocks[j]["s"]:
                    if st["d"] == src:
                        defs.append(st["rv"])
                tt = self.blocks[j]["t"]
                if tt["k"] == "call" and tt["dest"] == src:
                    defs.append(None)
            if len(defs) != 1 or defs[0] is None or defs[0]["k"] != "agg" or defs[0].get("variant") not in ("Err", "None", "Break"):
                continue
            # the switch on the ControlFlow discriminant of the branch result
            nb = t["t"]
            hops = 0
            while hops < 4:
                term = self.blocks[nb]["t"]
                if term["k"] == "switch":
                    for v, tgt in term["targets"]:
                        if int(v) == 0:     # ControlFlow::Continue
                            dead.append((nb, tgt))
                    break
                if term["k"] == "goto":
                    nb = term["t"]
                    hops += 1
                    continue
                break
        return dead

    def _compute_succ(self, bb):
        t = self.term(bb)
        k = t["k"]
        if k == "goto":
            return [t["t"]]
        if k == "switch":
            out = [x[1] for x in t["targets"]]
            out.append(t["otherwise"])
            return list(dict.fromkeys(out))
        if k in ("drop", "assert", "yield"):
            return [t["t"]]
        if k == "call":
            return [t["t"]] if t.get("t") is not None else []
        return []

    def preds(self, bb):
        if self._pred is None:
            self._pred = [[] for _ in range(self.n)]
            for i in range(self.n):
                for s in self.succs(i):
                    self._pred[s].append(i)
        return self._pred[bb]

    def reachable(self, start=0, avoid=()):
        """Blocks reachable from `start` along normal edges without entering `avoid` blocks."""
        avoid = set(avoid)
        seen = set()
        if start in avoid:
            return seen
        stack = [start]
        while stack:
            b = stack.pop()
            if b in seen:
                continue
            seen.add(b)
            for s in self.succs(b):
                if s not in seen and s not in avoid:
                    stack.append(s)
        return seen

    def reachable_edges(self, start=0, cut_edges=()):
        """Blocks reachable from start without traversing any edge in cut_edges {(a,b)}."""
        cut = set(cut_edges)
        seen = set()
        stack = [start]
        while stack:
            b = stack.pop()
            if b in seen:
                continue
            seen.add(b)
            for s in self.succs(b):
                if (b, s) not in cut and s not in seen:
                    stack.append(s)
        return seen

    def dominators(self):
        """dom[b] = set of blocks dominating b (normal edges, from bb0)."""
        if self._dom is not None:
            return self._dom
        reach = self.reachable(0)
        order = self._rpo(0)
        allb = set(reach)
        dom = {b: set(allb) for b in reach}
        dom[0] = {0}
        changed = True
        while changed:
            changed = False
            for b in order:
                if b == 0:
                    continue
                ps = [p for p in self.preds(b) if p in reach]
                if not ps:
                    continue
                new = set.intersection(*(dom[p] for p in ps)) | {b}
                if new != dom[b]:
                    dom[b] = new
                    changed = True
        self._dom = dom
        return dom

    def _rpo(self, start):
        seen = set()
        post = []
        stack = [(start, iter(self.succs(start)))]
        seen.add(start)
        while stack:
            b, it = stack[-1]
            adv = False
            for s in it:
                if s not in seen:
                    seen.add(s)
                    stack.append((s, iter(self.succs(s))))
                    adv = True
                    break
            if not adv:
                post.append(b)
                stack.pop()
        return list(reversed(post))

    def dominates(self, a, b):
        d = self.dominators()
        return b in d and a in d[b]

    # ---- queries -----------------------------------------------------------------------------
    def calls(self):
        for i in range(self.n):
            t = self.term(i)
            if t["k"] == "call":
                yield i, t

    def calls_to(self, pred):
        for i, t in self.calls():
            if pred(t["fn"], t):
                yield i, t

    def returns(self):
        return [i for i in range(self.n) if self.term(i)["k"] == "return" and not self.is_cleanup(i)]

    def assignments(self):
        for i in range(self.n):
            for k, s in enumerate(self.stmts(i)):
                yield i, k, s

    def defs_of(self, local):
        """Assignments (bb, idx, stmt) whose destination is exactly `local` (no projection) and
        calls whose destination is `local`."""
        out = []
        for i, k, s in self.assignments():
            if s["d"] == local:
                out.append(("stmt", i, k, s))
        for i, t in self.calls():
            if t["dest"] == local:
                out.append(("call", i, None, t))
        return out

    def local_ty(self, local):
        return self.locals[local]["ty"]

    def local_name(self, local):
        return self.locals[local].get("name")

    # ---- success edge of a fallible call ---------------------------------------------------------
    def success_blocks(self, call_bb):
        """Blocks entered only when the Result/Option/ControlFlow produced by the call at `call_bb`
        was Ok/Some/Continue: follows the call's destination through moves and `Try::branch` to the
        first SwitchInt on its discriminant; returns (ok_block, err_blocks) or None."""
        t = self.term(call_bb)
        if t["k"] != "call" or t.get("t") is None:
            return None
        tracked = {place_local(t["dest"])}
        bb = t["t"]
        visited = set()
        while bb not in visited:
            visited.add(bb)
            discr_local = None
            for s in self.stmts(bb):
                rv = s["rv"]
                if rv["k"] in ("use", "copyderef"):
                    src = rv.get("p")
                    if rv["k"] == "use":
                        src = op_place(rv["ops"][0])
                    if src is not None and place_local(src) in tracked and not place_proj(src):
                        tracked.add(place_local(s["d"]))
                elif rv["k"] == "discr":
                    if place_local(rv["p"]) in tracked:
                        discr_local = place_local(s["d"])
                elif rv["k"] == "ref":
                    if place_local(rv["p"]) in tracked and not place_proj(rv["p"]):
                        tracked.add(place_local(s["d"]))
            term = self.term(bb)
            if term["k"] == "call":
                fn = term["fn"]
                passes = ("core::ops::try_trait::Try>::branch" in fn or fn.endswith("::branch")
                          or "into_iter" in fn and False)
                if passes and any(op_place(a) is not None and place_local(op_place(a)) in tracked
                                  for a in term["args"]):
                    tracked.add(place_local(term["dest"]))
                    if term.get("t") is None:
                        return None
                    bb = term["t"]
                    continue
                return None
            if term["k"] == "switch":
                dp = op_place(term["discr"])
                if dp is not None and discr_local is not None and place_local(dp) == discr_local:
                    tg = {int(v): b for v, b in term["targets"]}
                    ok = tg.get(0)
                    if ok is None:
                        # e.g. `1 => err, otherwise => ok`
                        ok = term["otherwise"]
                        errs = [b for v, b in tg.items()]
                    else:
                        errs = [b for v, b in tg.items() if v != 0]
                        if term["otherwise"] != ok:
                            errs.append(term["otherwise"])
                    return ok, errs
                return None
            if term["k"] == "goto":
                bb = term["t"]
                continue
            if term["k"] == "drop":
                bb = term["t"]
                continue
            return None
        return None

    def switch_on_bool_call(self, call_bb):
        """For a call returning bool whose result is switched on directly: (true_bb, false_bb)."""
        t = self.term(call_bb)
        if t["k"] != "call" or t.get("t") is None:
            return None
        tracked = {place_local(t["dest"])}
        negated = False
        bb = t["t"]
        seen = set()
        while bb not in seen:
            seen.add(bb)
            for s in self.stmts(bb):
                rv = s["rv"]
                if rv["k"] == "use":
                    src = op_place(rv["ops"][0])
                    if src is not None and place_local(src) in tracked:
                        tracked.add(place_local(s["d"]))
                elif rv["k"] == "un" and rv["op"] == "Not":
                    src = op_place(rv["ops"][0])
                    if src is not None and place_local(src) in tracked:
                        tracked = {place_local(s["d"])}
                        negated = not negated
            term = self.term(bb)
            if term["k"] == "switch":
                dp = op_place(term["discr"])
                if dp is not None and place_local(dp) in tracked:
                    tg = {int(v): b for v, b in term["targets"]}
                    false_bb = tg.get(0)
                    true_bb = term["otherwise"]
                    if false_bb is None:
                        return None
                    if negated:
                        true_bb, false_bb = false_bb, true_bb
                    return true_bb, false_bb
                return None
            if term["k"] in ("goto", "drop"):
                bb = term["t"]
                continue
            return None
        return None


def short_fn(fn):
    """last path segments without generic args, for messages"""
    return fn


def mentions_local(x, local):
    """does operand/place structure mention `local`?"""
    if isinstance(x, int):
        return x == local
    if isinstance(x, list):
        if x and x[0] in ("c", "m") and len(x) == 2:
            return place_local(x[1]) == local
        if x and isinstance(x[0], int):
            return x[0] == local
    return False


def edge_variant_labels(body):
    """(bb, succ) -> set of (adt, variant) selected by that switch edge on an enum discriminant."""
    labels = {}
    for bb in range(body.n):
        t = body.term(bb)
        if t["k"] != "switch":
            continue
        dp = op_place(t["discr"])
        if dp is None:
            continue
        vm = None
        adt = None
        for s in body.stmts(bb):
            if s["d"] == place_local(dp) and s["rv"]["k"] == "discr" and s["rv"].get("variants"):
                vm = {int(v): n for v, n in s["rv"]["variants"]}
                adt = s["rv"].get("adt")
        if not vm:
            continue
        listed = set()
        for v, b in t["targets"]:
            listed.add(int(v))
            labels.setdefault((bb, b), set()).add((adt, vm.get(int(v), "?")))
        for v, n in vm.items():
            if v not in listed:
                labels.setdefault((bb, t["otherwise"]), set()).add((adt, n))
    return labels


def dominated_by_variant(body, bb, adt_suffix, variant):
    """True when every path from entry to `bb` takes a switch edge selecting exactly `variant` of an enum whose
    path ends with `adt_suffix` (edges that may also select other variants do not count)."""
    labels = edge_variant_labels(body)
    cut = set()
    for e, labs in labels.items():
        if all(a and a.endswith(adt_suffix) and v == variant for a, v in labs):
            cut.add(e)
    if not cut:
        return False
    return bb not in body.reachable_edges(0, cut)


EMPTY_PRODUCERS = ("std::path::PathBuf::new", "alloc::string::String::new", "std::ffi::os_str::OsString::new",
                   "std::ffi::OsString::new")
PATH_APPEND = ("std::path::Path::join", "std::path::PathBuf::push")


def may_empty_appends(body):
    """Forward may-analysis: locals that may still hold the empty path/string produced by PathBuf::new() / String::new()
    (through moves, copies and plain references); returns [(bb, term)] of Path::join / PathBuf::push calls whose appended
    argument may be empty on some path - `p.join("")` yields `p/`, a different spelling of the same file."""
    n = body.n
    IN = [None] * n
    IN[0] = frozenset()
    work = [0]

    def transfer(bb, state):
        st = set(state)
        for s in body.stmts(bb):
            d = s["d"]
            if not isinstance(d, int):
                continue
            rv = s["rv"]
            src = None
            if rv["k"] == "use":
                src = op_place(rv["ops"][0])
            elif rv["k"] == "ref":
                src = rv["p"]
            if src is not None and isinstance(src, int) and src in st:
                st.add(d)
            elif src is not None and not isinstance(src, int) and place_proj(src) == ["*"] and place_local(src) in st:
                st.add(d)
            else:
                st.discard(d)
        return st

    outs = {}
    while work:
        bb = work.pop()
        st = transfer(bb, IN[bb])
        t = body.term(bb)
        if t["k"] == "call" and isinstance(t.get("dest"), int):
            if t["fn"] in EMPTY_PRODUCERS:
                st.add(t["dest"])
            elif t["fn"].endswith("Deref>::deref") or t["fn"].endswith("::as_path") or t["fn"].endswith("AsRef<std::path::Path>>::as_ref") \
                    or t["fn"].endswith("Clone>::clone"):
                a = op_place(t["args"][0]) if t["args"] else None
                if a is not None and place_local(a) in st:
                    st.add(t["dest"])
                else:
                    st.discard(t["dest"])
            else:
                st.discard(t["dest"])
        outs[bb] = st
        for s in body.succs(bb):
            new = frozenset(st) if IN[s] is None else IN[s] | frozenset(st)
            if new != IN[s]:
                IN[s] = new
                work.append(s)
    hits = []
    for bb, t in body.calls():
        if t["fn"] in PATH_APPEND and IN[bb] is not None and len(t["args"]) >= 2:
            st = transfer(bb, IN[bb])
            a = op_place(t["args"][1])
            if a is not None and place_local(a) in st:
                hits.append((bb, t))
    return hits
