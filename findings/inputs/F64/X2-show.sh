#!/bin/bash
# X2: a match with two arms for the same constructor.  `zydeco run` takes the
# first +Z arm (exit code 0); the emitted jump table keeps only the LAST one.
here="$(cd "$(dirname "$0")" && pwd)"
Z="/repo/target/debug/zydeco"
"$Z" run "$here/X2-duplicate-arm.zy"; echo "interpreter exit code: $?"
"$Z" build -t asm "$here/X2-duplicate-arm.zy" > "$here/.x2.asm"
echo "--- jump table of the match:"
grep -A4 "^jump_table_" "$here/.x2.asm" | tail -5
table_arm=$(grep -A2 "^jump_table_" "$here/.x2.asm" | grep "dq" | tail -1 | sed -E 's/.*dq (arm_[0-9_]+).*/\1/')
echo "--- first integer pushed in the arm the table selects for +Z ($table_arm):"
awk -v l="$table_arm:" '$0==l{p=1} p && /push_imm_integer/{print; exit}' "$here/.x2.asm"
rm -f "$here/.x2.asm"
