//! One long-lived `CompilerSession` is driven through a history of overlay installs, disk
//! refreshes and overlay removals. After every step each answer is compared with the answer of a
//! brand-new session over the same effective contents (disk + active overlays).
//! Exit 0: they agree at every step. Exit 1: some step disagrees.

use std::{
    collections::BTreeMap,
    fmt::Write as _,
    path::{Path, PathBuf},
};
use zydeco_session::CompilerSession;

fn answers(session: &CompilerSession, root: &Path) -> String {
    let mut out = String::new();
    match session.graph(root) {
        | Ok(graph) => {
            let mut files = graph
                .sources
                .iter()
                .map(|(_, file)| {
                    format!(
                        "  file {} imports={} signature={} text={:?}",
                        file.path.display(),
                        file.imports.len(),
                        file.signature.is_some(),
                        file.source
                    )
                })
                .collect::<Vec<_>>();
            files.sort();
            writeln!(out, "graph ok ({} files)", files.len()).unwrap();
            for file in files {
                writeln!(out, "{file}").unwrap();
            }
        }
        | Err(error) => writeln!(out, "graph error: {error}").unwrap(),
    }
    match session.analyze(root) {
        | Ok(analysis) => {
            match analysis.outcome().reports() {
                | None => writeln!(out, "analyze: accepted").unwrap(),
                | Some(reports) => {
                    writeln!(out, "analyze: rejected, {} reports", reports.reports.len()).unwrap();
                    for span in reports.spans.iter() {
                        writeln!(out, "  report {span:?}").unwrap();
                    }
                }
            }
            let mut sources = analysis
                .sources()
                .map(|(path, text)| format!("  analysed {} {:?}", path.display(), text))
                .collect::<Vec<_>>();
            sources.sort();
            for source in sources {
                writeln!(out, "{source}").unwrap();
            }
        }
        | Err(error) => writeln!(out, "analyze error: {error}").unwrap(),
    }
    match session.reports(root) {
        | Ok(Some(reports)) => {
            writeln!(out, "reports: {}", reports.reports.len()).unwrap();
            for span in reports.spans.iter() {
                writeln!(out, "  report {span:?}").unwrap();
            }
        }
        | Ok(None) => writeln!(out, "reports: none").unwrap(),
        | Err(error) => writeln!(out, "reports error: {error}").unwrap(),
    }
    match session.coverage(root) {
        | Ok(coverage) => writeln!(out, "coverage: {}", coverage.len()).unwrap(),
        | Err(error) => writeln!(out, "coverage error: {error}").unwrap(),
    }
    out
}

struct World {
    session: CompilerSession,
    overlays: BTreeMap<PathBuf, String>,
    roots: Vec<PathBuf>,
    failures: usize,
}

impl World {
    fn fresh(&self) -> CompilerSession {
        let mut session = CompilerSession::default();
        for (path, text) in &self.overlays {
            session.set_overlay(path, text.clone()).unwrap();
        }
        session
    }

    fn check(&mut self, step: &str) {
        let fresh = self.fresh();
        for root in &self.roots {
            let incremental = answers(&self.session, root);
            let scratch = answers(&fresh, root);
            if incremental == scratch {
                println!("ok    {step} [{}]", root.file_name().unwrap().to_string_lossy());
            } else {
                self.failures += 1;
                println!("DIFF  {step} [{}]", root.file_name().unwrap().to_string_lossy());
                println!("--- long-lived session\n{incremental}--- fresh session\n{scratch}");
            }
        }
    }

    fn set_overlay(&mut self, path: &Path, text: &str) {
        self.session.set_overlay(path, text.to_owned()).unwrap();
        self.overlays.insert(path.to_path_buf(), text.to_owned());
    }

    fn clear_overlay(&mut self, path: &Path) {
        self.session.clear_overlay(path).unwrap();
        self.overlays.remove(path);
    }

    fn write_disk(&mut self, path: &Path, text: &str) {
        std::fs::write(path, text).unwrap();
        self.session.refresh_disk(path).unwrap();
    }

    fn delete_disk(&mut self, path: &Path) {
        std::fs::remove_file(path).unwrap();
        self.session.refresh_disk(path).unwrap();
    }
}

fn main() {
    let directory = std::env::temp_dir().join(format!("seed1-demo-{}", std::process::id()));
    let _ = std::fs::remove_dir_all(&directory);
    std::fs::create_dir_all(&directory).unwrap();
    let directory = directory.canonicalize().unwrap();
    let provider = directory.join("provider.zy");
    let root = directory.join("root.zy");
    let import = r#"@[import("provider.zy")] _"#;
    std::fs::write(&provider, "()").unwrap();
    std::fs::write(&root, import).unwrap();

    let mut world = World {
        session: CompilerSession::default(),
        overlays: BTreeMap::new(),
        roots: vec![root.clone(), provider.clone()],
        failures: 0,
    };

    // provider.zy is a symbolic link to a.zy; later it is pointed at b.zy
    std::fs::remove_file(&provider).unwrap();
    let a = directory.join("a.zy");
    let b = directory.join("b.zy");
    std::fs::write(&a, "()").unwrap();
    std::fs::write(&b, "(").unwrap();
    std::os::unix::fs::symlink(&a, &provider).unwrap();
    world.roots = vec![root.clone()];
    world.check("0 provider.zy -> a.zy");
    std::fs::remove_file(&provider).unwrap();
    std::os::unix::fs::symlink(&b, &provider).unwrap();
    world.session.refresh_disk(&provider).unwrap();
    world.check("1 provider.zy -> b.zy, refresh_disk(provider.zy)");
    world.session.refresh_disk(&root).unwrap();
    world.session.refresh_disk(&a).unwrap();
    world.session.refresh_disk(&b).unwrap();
    world.check("2 every file refreshed");
    let _ = std::fs::remove_dir_all(&directory);
    if world.failures == 0 {
        println!("PASS: the long-lived session agreed with a fresh session at every step");
        std::process::exit(0);
    }
    println!("FAIL: {} comparisons disagreed", world.failures);
    std::process::exit(1);
}
