// Scratch replay (design round): confirms findings F5 and F7 of DESIGN.md section 4.
// Build as src/main.rs of a crate that path-depends on /repo's zydeco-session, zydeco-cli,
// zydeco-statics, zydeco-dynamics and tempfile, with /repo/Cargo.lock copied beside it.
use zydeco_session::CompilerSession;

fn main() {
    // ---- F5: the path -> SourceInput registry is deep-cloned into every snapshot ----------------
    let dir = tempfile::tempdir().unwrap();
    let provider = dir.path().join("provider.zy");
    let root = dir.path().join("root.zy");
    std::fs::write(&provider, "1").unwrap();
    std::fs::write(&root, r#"@[import("provider.zy")] _"#).unwrap();
    let mut owner = CompilerSession::default();
    // the editor opened the root: the owner registers the root input (as cajun's did_open does)
    owner.set_overlay(&root, r#"@[import("provider.zy")] _"#.to_string()).unwrap();
    let snapshot = owner.snapshot();
    let first = std::thread::spawn({
        let root = root.clone();
        move || {
            let a = snapshot.analyze(&root).unwrap();
            a.graph().sources.iter().map(|(_, f)| f.source.clone()).collect::<Vec<_>>()
        }
    })
    .join()
    .unwrap();
    println!("F5 snapshot saw sources: {first:?}");
    // the user now edits the imported file: the owner does not know the input the snapshot created
    owner.set_overlay(&provider, "2".to_string()).unwrap();
    let after = owner.analyze(&root).unwrap();
    let src = after.graph().sources.iter().map(|(_, f)| f.source.clone()).collect::<Vec<_>>();
    println!("F5 owner after overlay sees: {src:?}");
    let mut fresh = CompilerSession::default();
    fresh.set_overlay(&root, r#"@[import("provider.zy")] _"#.to_string()).unwrap();
    fresh.set_overlay(&provider, "2".to_string()).unwrap();
    let f = fresh.analyze(&root).unwrap();
    let fsrc = f.graph().sources.iter().map(|(_, f)| f.source.clone()).collect::<Vec<_>>();
    println!("F5 fresh session sees: {fsrc:?}");
    println!("F5 STALE = {}", src != fsrc); // observed: true

    // ---- F7: a typed term hole is accepted by check and is a stuck state at run time ------------
    let hole = dir.path().join("hole.zy");
    std::fs::write(&hole, include_str!("../inputs/F7-typed-hole.zy")).unwrap();
    let compiler = zydeco_cli::CommandCompiler::default();
    match compiler.analyze(&hole) {
        | Ok(_) => println!("F7 check ACCEPTS typed hole program"), // observed
        | Err(e) => println!("F7 check rejects: {e}"),
    }
    let r = std::panic::catch_unwind(|| {
        let compiler = zydeco_cli::CommandCompiler::default();
        compiler.interpret(&hole, &[], false)
    });
    match r {
        | Ok(Ok(k)) => println!("F7 run finished: {k:?}"),
        | Ok(Err(e)) => println!("F7 run error: {e}"),
        | Err(p) => println!(
            "F7 run PANICKED: {:?}", // observed: Some("Hole in value")
            p.downcast_ref::<&str>().map(|s| s.to_string()).or(p.downcast_ref::<String>().cloned())
        ),
    }
}
