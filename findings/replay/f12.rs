use zydeco_session::CompilerSession;
fn main() {
    let dir = tempfile::tempdir().unwrap();
    let lib = dir.path().join("lib.zy");
    let sig = dir.path().join("lib.zyi");
    let root = dir.path().join("main.zy");
    std::fs::write(&lib, "1").unwrap();
    std::fs::write(&root, "let x = @[import(\"lib.zy\")] _ in ret x").unwrap();
    let mut s = CompilerSession::default();
    let g = s.graph(&root).unwrap();
    println!("first graph: {} sources", g.sources.len());
    // the companion signature appears on disk; the editor announces it
    std::fs::write(&sig, "Int").unwrap();
    let r = s.refresh_disk(&sig);
    println!("refresh_disk(lib.zyi) after the file appeared: {:?}", r.as_ref().map_err(|e| format!("{e:?}")));
    let g2 = s.graph(&root).unwrap();
    println!("long-lived session: {} sources", g2.sources.len());
    let f = CompilerSession::default();
    println!("fresh session     : {} sources", f.graph(&root).unwrap().sources.len());
    std::process::exit(if r.is_err() { 1 } else { 0 });
}
