use zydeco_session::CompilerSession;
use zydeco_surface::{
    bitter::{SourceDesugarOut, SourceUnitDesugarer},
    scoped::{ResolveSourceOut, Resolver},
    textual::{Lexer, SourceUnitParser, syntax as t},
};
use zydeco_utils::{pass::CompilerPass, span::LocationCtx};

fn scoped(src: &str) -> (t::SpanArena, zydeco_surface::scoped::syntax::PrimDefs, zydeco_surface::scoped::arena::ScopedArena, zydeco_surface::scoped::syntax::TermId) {
    let mut parser = t::Parser::new();
    let unit = SourceUnitParser::new().parse(src, &LocationCtx::Plain, &mut parser, Lexer::new(src)).unwrap();
    let (spans, textual) = parser.finish();
    let SourceDesugarOut { arena, prim, root } = SourceUnitDesugarer::new(&spans, &textual, unit).run().unwrap();
    let ResolveSourceOut { prim, arena, root } = Resolver::new(&spans, arena, prim).run_source(root).unwrap();
    (spans, prim, arena, root)
}

fn main() {
    // F6: two externally resolved programs checked on ONE session
    let session = CompilerSession::default();
    let (s1, p1, a1, r1) = scoped("ret 1");
    let o1 = session.check_resolved(s1, p1, a1, r1);
    println!("F6 first  : {:?}", o1.outcome.into_result().map(|c| format!("{:?}", c.root)).map_err(|_| "rejected"));
    let (s2, p2, a2, r2) = scoped("ret \"two\"");
    let r = std::panic::catch_unwind(std::panic::AssertUnwindSafe(|| session.check_resolved(s2, p2, a2, r2)));
    match r {
        Ok(o2) => {
            let scoped_root_is_second = o2.scoped.terms.iter().any(|(_, t)| format!("{t:?}").contains("two"));
            println!("F6 second : scoped arena of the answer contains the second program's literal: {scoped_root_is_second}");
        }
        Err(p) => println!("F6 second PANICKED: {:?}", p.downcast_ref::<&str>().map(|s| s.to_string()).or(p.downcast_ref::<String>().cloned())),
    }
}
