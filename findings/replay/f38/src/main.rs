//! Stress for a candidate race on the UNCHANGED tree: the owner installs the
//! first overlay of a file (`set_overlay` looks the file up and registers it in
//! two steps) while a snapshot analysis registers the same file as an import.
use std::{path::Path, sync::{Arc, Barrier, atomic::{AtomicBool, Ordering}}};
use zydeco_session::CompilerSession;

const STACK: usize = 64 << 20;

fn provider_seen(session: &CompilerSession, root: &Path, provider: &Path) -> Option<String> {
    let analysis = session.analyze(root).ok()?;
    analysis.source(provider).map(str::to_owned)
}

fn main() {
    let iterations: usize =
        std::env::args().nth(1).and_then(|text| text.parse().ok()).unwrap_or(3000);
    let noise: usize = std::env::args().nth(2).and_then(|text| text.parse().ok()).unwrap_or(0);
    let base = std::env::temp_dir().join(format!("existing-race-{}", std::process::id()));
    std::fs::create_dir_all(&base).unwrap();
    let base = base.canonicalize().unwrap();
    let stop = Arc::new(AtomicBool::new(false));
    let spinners = (0..noise)
        .map(|_| {
            let stop = Arc::clone(&stop);
            std::thread::spawn(move || while !stop.load(Ordering::Relaxed) { std::hint::spin_loop() })
        })
        .collect::<Vec<_>>();
    let mut stale = 0;
    for index in 0..iterations {
        let directory = base.join(format!("i{index}"));
        std::fs::create_dir_all(&directory).unwrap();
        let provider = directory.join("provider.zy");
        let root = directory.join("root.zy");
        std::fs::write(&provider, "1").unwrap();
        std::fs::write(&root, "@[import(\"provider.zy\")] _").unwrap();
        let mut session = CompilerSession::default();
        let barrier = Arc::new(Barrier::new(2));
        let analyser = {
            let snapshot = session.snapshot();
            let barrier = Arc::clone(&barrier);
            let (root, provider) = (root.clone(), provider.clone());
            std::thread::Builder::new()
                .stack_size(STACK)
                .spawn(move || {
                    barrier.wait();
                    let _ = salsa::Cancelled::catch(std::panic::AssertUnwindSafe(|| {
                        provider_seen(&snapshot, &root, &provider)
                    }));
                })
                .unwrap()
        };
        barrier.wait();
        // Spread the owner's start over the analysis's first steps.
        for _ in 0..(index % 64) * 40 {
            std::hint::spin_loop();
        }
        session.set_overlay(&provider, "2".to_owned()).unwrap();
        analyser.join().unwrap();
        let seen = provider_seen(&session.snapshot(), &root, &provider);
        if seen.as_deref() != Some("2") {
            stale += 1;
            println!("iteration {index}: after the edit the root still reads the provider as {seen:?}");
        }
        let _ = std::fs::remove_dir_all(&directory);
    }
    stop.store(true, Ordering::Relaxed);
    spinners.into_iter().for_each(|spinner| spinner.join().unwrap());
    let _ = std::fs::remove_dir_all(&base);
    println!("{stale} of {iterations} iterations stale");
    std::process::exit(if stale == 0 { 0 } else { 1 });
}
