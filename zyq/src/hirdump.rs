//! Typed, name-resolved HIR tree of a body as JSON. Closures are inlined into their parent.

use crate::json::J;
use crate::Ctx;
use rustc_hir as hir;
use rustc_hir::def::{DefKind, Res};
use rustc_hir::def_id::LocalDefId;
use rustc_middle::ty::TypeckResults;

struct D<'a, 'tcx> {
    cx: &'a Ctx<'tcx>,
    tr: &'tcx TypeckResults<'tcx>,
    owner: LocalDefId,
}

pub fn dump_body<'tcx>(cx: &Ctx<'tcx>, def: LocalDefId) -> Option<J> {
    let tcx = cx.tcx;
    let body = tcx.hir_maybe_body_owned_by(def)?;
    let tr = tcx.typeck(def);
    let d = D { cx, tr, owner: def };
    let params: Vec<J> = body.params.iter().map(|p| d.pat(p.pat)).collect();
    Some(J::Obj(vec![("params", J::Arr(params)), ("body", d.expr(body.value))]))
}

impl<'a, 'tcx> D<'a, 'tcx> {
    fn res(&self, res: Res) -> J {
        match res {
            Res::Local(hid) => J::Obj(vec![
                ("local", J::i(hid.local_id.as_u32())),
                ("name", J::s(self.cx.tcx.hir_name(hid).to_string())),
            ]),
            Res::Def(kind, did) => {
                // for constructors report the variant/struct path and mark it
                let (k, p) = match kind {
                    DefKind::Ctor(of, _) => {
                        let parent = self.cx.tcx.parent(did);
                        (format!("Ctor{:?}", of), self.cx.path(parent))
                    }
                    _ => (format!("{:?}", kind), self.cx.path(did)),
                };
                J::Obj(vec![("def", J::s(p)), ("dk", J::s(k))])
            }
            Res::SelfCtor(did) | Res::SelfTyAlias { alias_to: did, .. } => {
                let t = self.cx.tcx.type_of(did).instantiate_identity().skip_norm_wip();
                J::Obj(vec![("def", J::s(self.cx.ty_str(t))), ("dk", J::s("SelfCtor"))])
            }
            other => J::Obj(vec![("def", J::s(format!("{:?}", other))), ("dk", J::s("Other"))]),
        }
    }

    fn qpath(&self, q: &hir::QPath<'tcx>, hid: hir::HirId) -> J {
        let res = self.tr.qpath_res(q, hid);
        self.res(res)
    }

    fn lit(&self, l: &hir::Lit) -> J {
        use rustc_ast::LitKind;
        match &l.node {
            LitKind::Str(s, _) => J::Obj(vec![("str", J::s(s.to_string()))]),
            LitKind::Int(v, _) => J::Obj(vec![("int", J::Str(v.get().to_string()))]),
            LitKind::Bool(b) => J::Obj(vec![("bool", J::Bool(*b))]),
            LitKind::Char(c) => J::Obj(vec![("char", J::s(c.to_string()))]),
            LitKind::Float(s, _) => J::Obj(vec![("float", J::s(s.to_string()))]),
            other => J::Obj(vec![("other", J::s(format!("{:?}", other)))]),
        }
    }

    fn pat(&self, p: &hir::Pat<'tcx>) -> J {
        let tcx = self.cx.tcx;
        let mut o: Vec<(&'static str, J)> = vec![];
        match &p.kind {
            hir::PatKind::Wild => {
                o.push(("k", J::s("Wild")));
                o.push(("ty", J::s(self.cx.ty_str(self.tr.pat_ty(p)))));
            }
            hir::PatKind::Missing => o.push(("k", J::s("Missing"))),
            hir::PatKind::Never => o.push(("k", J::s("Never"))),
            hir::PatKind::Binding(mode, hid, ident, sub) => {
                o.push(("k", J::s("Bind")));
                o.push(("name", J::s(ident.name.to_string())));
                o.push(("local", J::i(hid.local_id.as_u32())));
                o.push(("byref", J::Bool(matches!(mode.0, hir::ByRef::Yes(..)))));
                if matches!(mode.1, rustc_ast::Mutability::Mut) {
                    o.push(("mut", J::Bool(true)));
                }
                o.push(("ty", J::s(self.cx.ty_str(self.tr.pat_ty(p)))));
                if let Some(s) = sub {
                    o.push(("sub", self.pat(s)));
                }
            }
            hir::PatKind::Struct(q, fields, rest) => {
                o.push(("k", J::s("Struct")));
                o.push(("path", self.qpath(q, p.hir_id)));
                o.push((
                    "fields",
                    J::Arr(
                        fields
                            .iter()
                            .map(|f| J::Obj(vec![("name", J::s(f.ident.name.to_string())), ("pat", self.pat(f.pat))]))
                            .collect(),
                    ),
                ));
                o.push(("rest", J::Bool(rest.is_some())));
            }
            hir::PatKind::TupleStruct(q, pats, ddpos) => {
                o.push(("k", J::s("TupleStruct")));
                o.push(("path", self.qpath(q, p.hir_id)));
                o.push(("pats", J::Arr(pats.iter().map(|x| self.pat(x)).collect())));
                if let Some(pos) = ddpos.as_opt_usize() {
                    o.push(("dd", J::i(pos)));
                }
            }
            hir::PatKind::Or(pats) => {
                o.push(("k", J::s("Or")));
                o.push(("pats", J::Arr(pats.iter().map(|x| self.pat(x)).collect())));
            }
            hir::PatKind::Tuple(pats, ddpos) => {
                o.push(("k", J::s("Tuple")));
                o.push(("pats", J::Arr(pats.iter().map(|x| self.pat(x)).collect())));
                if let Some(pos) = ddpos.as_opt_usize() {
                    o.push(("dd", J::i(pos)));
                }
            }
            hir::PatKind::Box(s) | hir::PatKind::Deref(s) => {
                o.push(("k", J::s("Deref")));
                o.push(("sub", self.pat(s)));
            }
            hir::PatKind::Ref(s, ..) => {
                o.push(("k", J::s("Ref")));
                o.push(("sub", self.pat(s)));
            }
            hir::PatKind::Expr(pe) => match &pe.kind {
                hir::PatExprKind::Lit { lit, negated } => {
                    o.push(("k", J::s("Lit")));
                    o.push(("lit", self.lit(lit)));
                    o.push(("neg", J::Bool(*negated)));
                }
                hir::PatExprKind::Path(q) => {
                    o.push(("k", J::s("Path")));
                    o.push(("path", self.qpath(q, pe.hir_id)));
                }
            },
            hir::PatKind::Guard(s, e) => {
                o.push(("k", J::s("Guard")));
                o.push(("sub", self.pat(s)));
                o.push(("guard", self.expr(e)));
            }
            hir::PatKind::Range(..) => o.push(("k", J::s("Range"))),
            hir::PatKind::Slice(before, mid, after) => {
                o.push(("k", J::s("Slice")));
                o.push(("before", J::Arr(before.iter().map(|x| self.pat(x)).collect())));
                if let Some(m) = mid {
                    o.push(("mid", self.pat(m)));
                }
                o.push(("after", J::Arr(after.iter().map(|x| self.pat(x)).collect())));
            }
            hir::PatKind::Err(_) => o.push(("k", J::s("Err"))),
        }
        let _ = tcx;
        o.push(("ln", self.cx.line(p.span)));
        J::Obj(o)
    }

    fn block(&self, b: &hir::Block<'tcx>) -> J {
        let mut stmts = vec![];
        for s in b.stmts.iter() {
            match &s.kind {
                hir::StmtKind::Let(l) => {
                    stmts.push(J::Obj(vec![
                        ("k", J::s("Let")),
                        ("pat", self.pat(l.pat)),
                        ("init", J::opt(l.init.map(|e| self.expr(e)))),
                        ("els", J::opt(l.els.map(|b| self.block(b)))),
                        ("src", match l.source {
                            hir::LocalSource::Normal => J::Null,
                            other => J::s(format!("{:?}", other)),
                        }),
                        ("ln", self.cx.line(s.span)),
                    ]));
                }
                hir::StmtKind::Item(_) => {}
                hir::StmtKind::Expr(e) => stmts.push(J::Obj(vec![("k", J::s("Expr")), ("e", self.expr(e))])),
                hir::StmtKind::Semi(e) => stmts.push(J::Obj(vec![("k", J::s("Semi")), ("e", self.expr(e))])),
            }
        }
        J::Obj(vec![
            ("k", J::s("Block")),
            ("stmts", J::Arr(stmts)),
            ("expr", J::opt(b.expr.map(|e| self.expr(e)))),
        ])
    }

    fn expr(&self, e: &hir::Expr<'tcx>) -> J {
        let tcx = self.cx.tcx;
        let mut o: Vec<(&'static str, J)> = vec![];
        let ty = self.tr.expr_ty_opt(e);
        let mut want_ty = true;
        match &e.kind {
            hir::ExprKind::ConstBlock(_) => o.push(("k", J::s("ConstBlock"))),
            hir::ExprKind::Array(es) => {
                o.push(("k", J::s("Array")));
                o.push(("es", J::Arr(es.iter().map(|x| self.expr(x)).collect())));
            }
            hir::ExprKind::Call(f, args) => {
                o.push(("k", J::s("Call")));
                o.push(("f", self.expr(f)));
                o.push(("args", J::Arr(args.iter().map(|x| self.expr(x)).collect())));
            }
            hir::ExprKind::MethodCall(seg, recv, args, _) => {
                o.push(("k", J::s("MethodCall")));
                o.push(("name", J::s(seg.ident.name.to_string())));
                if let Some(did) = self.tr.type_dependent_def_id(e.hir_id) {
                    let ga = self.tr.node_args(e.hir_id);
                    let (declared, resolved) = self.cx.resolve_callee(self.owner.to_def_id(), did, ga);
                    o.push(("fn", J::s(resolved.clone().unwrap_or_else(|| declared.clone()))));
                    if resolved.is_some() {
                        o.push(("decl", J::s(declared)));
                    }
                    o.push(("gargs", self.cx.args_json(ga)));
                }
                o.push(("recv", self.expr(recv)));
                o.push(("recv_ty", J::s(self.cx.ty_str(self.tr.expr_ty_adjusted(recv)))));
                o.push(("args", J::Arr(args.iter().map(|x| self.expr(x)).collect())));
            }
            hir::ExprKind::Use(x, _) => {
                o.push(("k", J::s("Use")));
                o.push(("e", self.expr(x)));
            }
            hir::ExprKind::Tup(es) => {
                o.push(("k", J::s("Tup")));
                o.push(("es", J::Arr(es.iter().map(|x| self.expr(x)).collect())));
            }
            hir::ExprKind::Binary(op, a, b) => {
                o.push(("k", J::s("Binary")));
                o.push(("op", J::s(format!("{:?}", op.node))));
                // overloaded operator?
                if let Some(did) = self.tr.type_dependent_def_id(e.hir_id) {
                    let ga = self.tr.node_args(e.hir_id);
                    let (declared, resolved) = self.cx.resolve_callee(self.owner.to_def_id(), did, ga);
                    o.push(("fn", J::s(resolved.unwrap_or(declared))));
                }
                o.push(("a", self.expr(a)));
                o.push(("b", self.expr(b)));
                o.push(("aty", J::s(self.cx.ty_str(self.tr.expr_ty_adjusted(a)))));
            }
            hir::ExprKind::Unary(op, a) => {
                o.push(("k", J::s("Unary")));
                o.push(("op", J::s(format!("{:?}", op))));
                if let Some(did) = self.tr.type_dependent_def_id(e.hir_id) {
                    let ga = self.tr.node_args(e.hir_id);
                    let (declared, resolved) = self.cx.resolve_callee(self.owner.to_def_id(), did, ga);
                    o.push(("fn", J::s(resolved.unwrap_or(declared))));
                }
                o.push(("e", self.expr(a)));
            }
            hir::ExprKind::Lit(l) => {
                o.push(("k", J::s("Lit")));
                o.push(("lit", self.lit(l)));
            }
            hir::ExprKind::Cast(x, _) => {
                o.push(("k", J::s("Cast")));
                o.push(("e", self.expr(x)));
                o.push(("from", J::s(self.cx.ty_str(self.tr.expr_ty(x)))));
            }
            hir::ExprKind::Type(x, _) => {
                o.push(("k", J::s("Type")));
                o.push(("e", self.expr(x)));
            }
            hir::ExprKind::DropTemps(x) => {
                // transparent
                return self.expr(x);
            }
            hir::ExprKind::Let(l) => {
                o.push(("k", J::s("LetExpr")));
                o.push(("pat", self.pat(l.pat)));
                o.push(("init", self.expr(l.init)));
            }
            hir::ExprKind::If(c, t, el) => {
                o.push(("k", J::s("If")));
                o.push(("c", self.expr(c)));
                o.push(("t", self.expr(t)));
                o.push(("e", J::opt(el.map(|x| self.expr(x)))));
            }
            hir::ExprKind::Loop(b, _, src, _) => {
                o.push(("k", J::s("Loop")));
                o.push(("src", J::s(format!("{:?}", src))));
                o.push(("body", self.block(b)));
                want_ty = false;
            }
            hir::ExprKind::Match(scrut, arms, src) => {
                o.push(("k", J::s("Match")));
                o.push(("src", match src {
                    hir::MatchSource::Normal => J::Null,
                    other => J::s(format!("{:?}", other)),
                }));
                o.push(("scrut", self.expr(scrut)));
                o.push(("scrut_ty", J::s(self.cx.ty_str(self.tr.expr_ty_adjusted(scrut)))));
                let mut aj = vec![];
                for a in arms.iter() {
                    aj.push(J::Obj(vec![
                        ("pat", self.pat(a.pat)),
                        ("guard", J::opt(a.guard.map(|g| self.expr(g)))),
                        ("body", self.expr(a.body)),
                        ("ln", self.cx.line(a.span)),
                    ]));
                }
                o.push(("arms", J::Arr(aj)));
            }
            hir::ExprKind::Closure(c) => {
                o.push(("k", J::s("Closure")));
                o.push(("def", J::s(self.cx.path(c.def_id.to_def_id()))));
                let body = tcx.hir_body(c.body);
                o.push(("params", J::Arr(body.params.iter().map(|p| self.pat(p.pat)).collect())));
                o.push(("body", self.expr(body.value)));
                o.push(("move", J::Bool(matches!(c.capture_clause, hir::CaptureBy::Value { .. }))));
                want_ty = false;
            }
            hir::ExprKind::Block(b, _) => {
                let mut bj = match self.block(b) {
                    J::Obj(v) => v,
                    _ => unreachable!(),
                };
                o.append(&mut bj);
                want_ty = false;
            }
            hir::ExprKind::Assign(l, r, _) => {
                o.push(("k", J::s("Assign")));
                o.push(("l", self.expr(l)));
                o.push(("r", self.expr(r)));
                want_ty = false;
            }
            hir::ExprKind::AssignOp(op, l, r) => {
                o.push(("k", J::s("AssignOp")));
                o.push(("op", J::s(format!("{:?}", op.node))));
                if let Some(did) = self.tr.type_dependent_def_id(e.hir_id) {
                    let ga = self.tr.node_args(e.hir_id);
                    let (declared, resolved) = self.cx.resolve_callee(self.owner.to_def_id(), did, ga);
                    o.push(("fn", J::s(resolved.unwrap_or(declared))));
                }
                o.push(("l", self.expr(l)));
                o.push(("r", self.expr(r)));
                want_ty = false;
            }
            hir::ExprKind::Field(x, ident) => {
                o.push(("k", J::s("Field")));
                o.push(("name", J::s(ident.name.to_string())));
                o.push(("e", self.expr(x)));
                o.push(("base_ty", J::s(self.cx.ty_str(self.tr.expr_ty_adjusted(x)))));
            }
            hir::ExprKind::Index(a, i, _) => {
                o.push(("k", J::s("Index")));
                if let Some(did) = self.tr.type_dependent_def_id(e.hir_id) {
                    let ga = self.tr.node_args(e.hir_id);
                    let (declared, resolved) = self.cx.resolve_callee(self.owner.to_def_id(), did, ga);
                    o.push(("fn", J::s(resolved.unwrap_or(declared))));
                }
                o.push(("e", self.expr(a)));
                o.push(("i", self.expr(i)));
                o.push(("base_ty", J::s(self.cx.ty_str(self.tr.expr_ty_adjusted(a)))));
            }
            hir::ExprKind::Path(q) => {
                o.push(("k", J::s("Path")));
                let r = self.tr.qpath_res(q, e.hir_id);
                o.push(("res", self.res(r)));
                if let Res::Def(DefKind::Fn | DefKind::AssocFn, did) = r {
                    let ga = self.tr.node_args(e.hir_id);
                    let (declared, resolved) = self.cx.resolve_callee(self.owner.to_def_id(), did, ga);
                    if let Some(rs) = resolved {
                        o.push(("fn", J::s(rs)));
                    } else {
                        o.push(("fn", J::s(declared)));
                    }
                    o.push(("gargs", self.cx.args_json(ga)));
                    want_ty = false;
                }
            }
            hir::ExprKind::AddrOf(_, m, x) => {
                o.push(("k", J::s("AddrOf")));
                o.push(("mut", J::Bool(matches!(m, rustc_ast::Mutability::Mut))));
                o.push(("e", self.expr(x)));
            }
            hir::ExprKind::Break(_, x) => {
                o.push(("k", J::s("Break")));
                o.push(("e", J::opt(x.map(|x| self.expr(x)))));
                want_ty = false;
            }
            hir::ExprKind::Continue(_) => {
                o.push(("k", J::s("Continue")));
                want_ty = false;
            }
            hir::ExprKind::Ret(x) => {
                o.push(("k", J::s("Ret")));
                o.push(("e", J::opt(x.map(|x| self.expr(x)))));
                want_ty = false;
            }
            hir::ExprKind::Become(x) => {
                o.push(("k", J::s("Become")));
                o.push(("e", self.expr(x)));
            }
            hir::ExprKind::Struct(q, fields, tail) => {
                o.push(("k", J::s("Struct")));
                o.push(("path", self.qpath(q, e.hir_id)));
                o.push((
                    "fields",
                    J::Arr(
                        fields
                            .iter()
                            .map(|f| J::Obj(vec![("name", J::s(f.ident.name.to_string())), ("e", self.expr(f.expr))]))
                            .collect(),
                    ),
                ));
                if let hir::StructTailExpr::Base(b) = tail {
                    o.push(("base", self.expr(b)));
                }
            }
            hir::ExprKind::Repeat(x, _) => {
                o.push(("k", J::s("Repeat")));
                o.push(("e", self.expr(x)));
            }
            hir::ExprKind::Yield(x, _) => {
                o.push(("k", J::s("Yield")));
                o.push(("e", self.expr(x)));
            }
            hir::ExprKind::InlineAsm(_) => o.push(("k", J::s("InlineAsm"))),
            hir::ExprKind::OffsetOf(..) => o.push(("k", J::s("OffsetOf"))),
            hir::ExprKind::UnsafeBinderCast(_, x, _) => {
                o.push(("k", J::s("UnsafeBinderCast")));
                o.push(("e", self.expr(x)));
            }
            hir::ExprKind::Err(_) => o.push(("k", J::s("Err"))),
        }
        if want_ty {
            if let Some(t) = ty {
                o.push(("ty", J::s(self.cx.ty_str(t))));
            }
        }
        if let Some(t) = ty {
            if t.is_never() {
                o.push(("never", J::Bool(true)));
            }
        }
        // adjustments that call user code (Deref overloads) are rare here; record autoderef count only
        o.push(("ln", self.cx.line(e.span)));
        if e.span.from_expansion() {
            o.push(("expn", self.cx.expn(e.span)));
        }
        J::Obj(o)
    }
}
