//! zyq: fact extractor for the zydeco workspace.
//!
//! Used as RUSTC_WORKSPACE_WRAPPER under `cargo +nightly check`. For every workspace crate it
//! compiles (the real build, with the real flags) it writes, into $ZYQ_OUT:
//!   <crate>[-<kind>].index.json   bodies, call edges, ADTs, impls, statics
//!   <crate>[-<kind>].mir.jsonl    one line per body: compact MIR
//!   <crate>[-<kind>].hir.jsonl    one line per body: typed, resolved HIR tree
//! It never executes or symbolically evaluates the analysed code.

#![feature(rustc_private)]
#![allow(clippy::all)]

extern crate rustc_abi;
extern crate rustc_ast;
extern crate rustc_driver;
extern crate rustc_hir;
extern crate rustc_interface;
extern crate rustc_middle;
extern crate rustc_session;
extern crate rustc_span;

mod hirdump;
mod json;
mod mirdump;

use json::J;
use rustc_driver::Compilation;
use rustc_hir::def::DefKind;
use rustc_hir::def_id::{DefId, LocalDefId};
use rustc_middle::ty::{self, TyCtxt};
use rustc_span::Span;
use std::io::Write;

pub struct Ctx<'tcx> {
    pub tcx: TyCtxt<'tcx>,
}

impl<'tcx> Ctx<'tcx> {
    pub fn path(&self, did: DefId) -> String {
        ty::print::with_resolve_crate_name!(ty::print::with_no_visible_paths!(ty::print::with_no_trimmed_paths!(self.tcx.def_path_str(did))))
    }
    pub fn ty_str(&self, t: ty::Ty<'tcx>) -> String {
        ty::print::with_resolve_crate_name!(ty::print::with_no_visible_paths!(ty::print::with_no_trimmed_paths!(format!("{}", t))))
    }
    /// [file, line, col, end_line, end_col] of the user-written call site of `sp`.
    pub fn loc(&self, sp: Span) -> J {
        let sp = sp.source_callsite();
        let sm = self.tcx.sess.source_map();
        let lo = sm.lookup_char_pos(sp.lo());
        let hi = sm.lookup_char_pos(sp.hi());
        let file = match &lo.file.name {
            rustc_span::FileName::Real(r) => match r.local_path() {
                Some(p) => p.to_string_lossy().into_owned(),
                None => format!("{:?}", lo.file.name),
            },
            other => format!("{:?}", other),
        };
        J::Arr(vec![J::s(file), J::i(lo.line), J::i(lo.col.0), J::i(hi.line), J::i(hi.col.0)])
    }
    pub fn line(&self, sp: Span) -> J {
        let sp = sp.source_callsite();
        let sm = self.tcx.sess.source_map();
        J::i(sm.lookup_char_pos(sp.lo()).line)
    }
    /// macro backtrace names, innermost first (empty when the span is user-written).
    pub fn expn(&self, sp: Span) -> J {
        if !sp.from_expansion() {
            return J::Null;
        }
        let mut v = vec![];
        for d in sp.macro_backtrace().take(6) {
            let name = match d.kind {
                rustc_span::ExpnKind::Macro(_, sym) => sym.to_string(),
                rustc_span::ExpnKind::Desugaring(k) => format!("desugar:{:?}", k),
                rustc_span::ExpnKind::AstPass(k) => format!("astpass:{:?}", k),
                rustc_span::ExpnKind::Root => "root".to_string(),
            };
            v.push(J::s(name));
        }
        if v.is_empty() {
            // desugarings (`?`, `for`) have no macro backtrace
            let d = sp.ctxt().outer_expn_data();
            if let rustc_span::ExpnKind::Desugaring(k) = d.kind {
                v.push(J::s(format!("desugar:{:?}", k)));
            }
        }
        J::Arr(v)
    }
    pub fn args_json(&self, args: ty::GenericArgsRef<'tcx>) -> J {
        J::Arr(
            args.iter()
                .filter_map(|a| match a.kind() {
                    ty::GenericArgKind::Type(t) => Some(J::s(self.ty_str(t))),
                    ty::GenericArgKind::Const(c) => Some(J::s(format!("{}", c))),
                    ty::GenericArgKind::Lifetime(_) => None,
                })
                .collect(),
        )
    }
    /// Resolve a (possibly trait) callee to the implementation actually selected.
    pub fn resolve_callee(
        &self,
        owner: DefId,
        callee: DefId,
        args: ty::GenericArgsRef<'tcx>,
    ) -> (String, Option<String>) {
        let declared = self.path(callee);
        let kind = self.tcx.def_kind(callee);
        if !matches!(kind, DefKind::Fn | DefKind::AssocFn) {
            return (declared, None);
        }
        // Only trait items need resolution.
        if self.tcx.trait_of_assoc(callee).is_none() {
            return (declared, None);
        }
        if self.tcx.generics_of(callee).count() != args.len() {
            return (declared, None);
        }
        let env = ty::TypingEnv::post_analysis(self.tcx, owner);
        let r = std::panic::catch_unwind(std::panic::AssertUnwindSafe(|| {
            ty::Instance::try_resolve(self.tcx, env, callee, args)
        }));
        match r {
            Ok(Ok(Some(inst))) => {
                let d = inst.def_id();
                let res = match inst.def {
                    ty::InstanceKind::Item(_) => self.path(d),
                    ty::InstanceKind::Virtual(..) => format!("dyn:{}", self.path(d)),
                    ty::InstanceKind::ClosureOnceShim { .. }
                    | ty::InstanceKind::FnPtrShim(..) => format!("shim:{}", self.path(d)),
                    _ => format!("inst:{}", self.path(d)),
                };
                (declared, Some(res))
            }
            _ => (declared, None),
        }
    }
}

struct Cb;

fn is_workspace_crate(name: &str) -> bool {
    name.starts_with("zydeco") || name == "cajun" || name == "build_script_build"
}

impl rustc_driver::Callbacks for Cb {
    fn after_analysis<'tcx>(
        &mut self,
        _c: &rustc_interface::interface::Compiler,
        tcx: TyCtxt<'tcx>,
    ) -> Compilation {
        let out_dir = match std::env::var("ZYQ_OUT") {
            Ok(d) => d,
            Err(_) => return Compilation::Continue,
        };
        let krate = tcx.crate_name(rustc_hir::def_id::LOCAL_CRATE).to_string();
        if !is_workspace_crate(&krate) || krate == "build_script_build" {
            return Compilation::Continue;
        }
        if tcx.dcx().has_errors().is_some() {
            return Compilation::Continue;
        }
        let crate_types = tcx.crate_types();
        let is_bin = crate_types.iter().any(|t| matches!(t, rustc_session::config::CrateType::Executable));
        let is_test = tcx.sess.opts.test;
        let is_pm = crate_types.iter().any(|t| matches!(t, rustc_session::config::CrateType::ProcMacro));
        if is_pm {
            return Compilation::Continue;
        }
        // disambiguate lib / bin / test targets of one package
        let src_tag = {
            let sm = tcx.sess.source_map();
            let root_span = tcx.def_span(rustc_hir::def_id::CRATE_DEF_ID);
            let f = sm.lookup_char_pos(root_span.lo()).file.name.prefer_local_unconditionally().to_string();
            let stem = std::path::Path::new(&f)
                .file_stem()
                .map(|s| s.to_string_lossy().into_owned())
                .unwrap_or_default();
            stem
        };
        let tag = format!(
            "{}{}{}",
            krate,
            if is_bin { format!("-bin-{}", src_tag) } else if src_tag != "lib" { format!("-{}", src_tag) } else { String::new() },
            if is_test { "-test" } else { "" }
        );
        let cx = Ctx { tcx };
        let mut index_bodies = vec![];
        let mut calls = vec![];
        let mut casts = vec![];
        let mut aggs = vec![];
        let mut mir_out = String::new();
        let mut hir_out = String::new();
        let owners: Vec<LocalDefId> = tcx.hir_body_owners().collect();
        for def in owners {
            let did = def.to_def_id();
            let kind = tcx.def_kind(did);
            let path = cx.path(did);
            let span = tcx.def_span(did);
            let mut body_entry = vec![
                ("def", J::s(path.clone())),
                ("kind", J::s(format!("{:?}", kind))),
                ("loc", cx.loc(span)),
                ("expn", cx.expn(span)),
            ];
            if matches!(kind, DefKind::Fn | DefKind::AssocFn) {
                let sig = tcx.fn_sig(did).instantiate_identity().skip_norm_wip();
                let sig = sig.skip_binder();
                body_entry.push(("ret", J::s(cx.ty_str(sig.output()))));
                body_entry.push((
                    "params",
                    J::Arr(sig.inputs().iter().map(|t| J::s(cx.ty_str(*t))).collect()),
                ));
                let vis = tcx.visibility(did);
                body_entry.push(("pub", J::Bool(vis.is_public())));
                if let Some(imp) = tcx.impl_of_assoc(did) {
                    let self_ty = tcx.type_of(imp).instantiate_identity().skip_norm_wip();
                    body_entry.push(("impl_self", J::s(cx.ty_str(self_ty))));
                    if let Some(tr) = tcx.impl_opt_trait_ref(imp) {
                        let tr = tr.instantiate_identity().skip_norm_wip();
                        body_entry.push(("impl_trait", J::s(cx.path(tr.def_id))));
                    }
                }
            }
            // MIR
            let has_mir = matches!(kind, DefKind::Fn | DefKind::AssocFn | DefKind::Closure)
                && tcx.is_mir_available(did);
            if has_mir {
                let body = tcx.optimized_mir(did);
                let (mj, mut cs, mut ks, mut ags) = mirdump::dump_body(&cx, def, body);
                casts.append(&mut ks);
                aggs.append(&mut ags);
                let line = J::Obj(vec![("def", J::s(path.clone())), ("mir", mj)]);
                line.write(&mut mir_out);
                mir_out.push('\n');
                for c in cs.drain(..) {
                    calls.push(c);
                }
            }
            // HIR (closures are inlined into their parent)
            if !matches!(kind, DefKind::Closure | DefKind::InlineConst | DefKind::AnonConst) {
                let is_generated = {
                    let sm = tcx.sess.source_map();
                    let f = sm.lookup_char_pos(span.source_callsite().lo()).file.name.prefer_local_unconditionally().to_string();
                    f.contains("/target/") || f.contains("/out/")
                };
                if !is_generated {
                    if let Some(hj) = hirdump::dump_body(&cx, def) {
                        let line = J::Obj(vec![("def", J::s(path.clone())), ("hir", hj)]);
                        line.write(&mut hir_out);
                        hir_out.push('\n');
                    }
                }
            }
            index_bodies.push(J::Obj(body_entry));
        }
        // type facts
        let mut adts = vec![];
        let mut statics = vec![];
        let mut fns_no_body = vec![];
        for id in tcx.hir_crate_items(()).definitions() {
            let did = id.to_def_id();
            match tcx.def_kind(did) {
                DefKind::Struct | DefKind::Enum | DefKind::Union => {
                    let adt = tcx.adt_def(did);
                    let mut variants = vec![];
                    for v in adt.variants().iter() {
                        let mut fields = vec![];
                        for f in v.fields.iter() {
                            let fty = tcx.type_of(f.did).instantiate_identity().skip_norm_wip();
                            fields.push(J::Obj(vec![
                                ("name", J::s(f.name.to_string())),
                                ("ty", J::s(cx.ty_str(fty))),
                                ("pub", J::Bool(f.vis.is_public())),
                                ("vis", J::s(format!("{:?}", f.vis))),
                            ]));
                        }
                        variants.push(J::Obj(vec![
                            ("name", J::s(v.name.to_string())),
                            ("ctor", J::s(format!("{:?}", v.ctor_kind()))),
                            ("fields", J::Arr(fields)),
                        ]));
                    }
                    adts.push(J::Obj(vec![
                        ("def", J::s(cx.path(did))),
                        ("kind", J::s(format!("{:?}", tcx.def_kind(did)))),
                        ("loc", cx.loc(tcx.def_span(did))),
                        ("pub", J::Bool(tcx.visibility(did).is_public())),
                        ("variants", J::Arr(variants)),
                    ]));
                }
                DefKind::Static { mutability, nested, .. } => {
                    let t = tcx.type_of(did).instantiate_identity().skip_norm_wip();
                    statics.push(J::Obj(vec![
                        ("def", J::s(cx.path(did))),
                        ("ty", J::s(cx.ty_str(t))),
                        ("mut", J::Bool(matches!(mutability, rustc_ast::Mutability::Mut))),
                        ("nested", J::Bool(nested)),
                        ("thread_local", J::Bool(tcx.is_thread_local_static(did))),
                        ("loc", cx.loc(tcx.def_span(did))),
                        ("expn", cx.expn(tcx.def_span(did))),
                    ]));
                }
                DefKind::Fn | DefKind::AssocFn => {
                    if tcx.hir_maybe_body_owned_by(id).is_none() {
                        fns_no_body.push(J::s(cx.path(did)));
                    }
                }
                _ => {}
            }
        }
        let mut impls = vec![];
        for (trait_did, impl_ids) in tcx.all_local_trait_impls(()).iter() {
            for imp in impl_ids {
                let self_ty = tcx.type_of(imp.to_def_id()).instantiate_identity().skip_norm_wip();
                impls.push(J::Obj(vec![
                    ("trait", J::s(cx.path(*trait_did))),
                    ("self", J::s(cx.ty_str(self_ty))),
                    ("loc", cx.loc(tcx.def_span(imp.to_def_id()))),
                    ("expn", cx.expn(tcx.def_span(imp.to_def_id()))),
                ]));
            }
        }
        let index = J::Obj(vec![
            ("crate", J::s(krate.clone())),
            ("tag", J::s(tag.clone())),
            ("is_bin", J::Bool(is_bin)),
            ("is_test", J::Bool(is_test)),
            ("bodies", J::Arr(index_bodies)),
            ("calls", J::Arr(calls)),
            ("casts", J::Arr(casts)),
            ("aggs", J::Arr(aggs)),
            ("adts", J::Arr(adts)),
            ("statics", J::Arr(statics)),
            ("impls", J::Arr(impls)),
            ("fns_no_body", J::Arr(fns_no_body)),
        ]);
        let write = |suffix: &str, content: &str| {
            let p = format!("{}/{}.{}", out_dir, tag, suffix);
            let tmp = format!("{}.tmp{}", p, std::process::id());
            let mut f = std::fs::File::create(&tmp).expect("zyq: cannot create fact file");
            f.write_all(content.as_bytes()).expect("zyq: write");
            drop(f);
            std::fs::rename(&tmp, &p).expect("zyq: rename");
        };
        write("mir.jsonl", &mir_out);
        write("hir.jsonl", &hir_out);
        write("index.json", &index.to_string());
        Compilation::Continue
    }
}

fn main() {
    let mut args: Vec<String> = std::env::args().collect();
    // wrapper mode: argv[1] is the path of the real rustc
    if args.len() > 1 && (args[1].ends_with("rustc") || args[1].contains("/rustc")) {
        args.remove(1);
    }
    rustc_driver::run_compiler(&args, &mut Cb);
}
