//! Minimal JSON value + writer (the driver has zero cargo dependencies).

#[derive(Clone)]
pub enum J {
    Null,
    Bool(bool),
    Int(i128),
    Str(String),
    Arr(Vec<J>),
    Obj(Vec<(&'static str, J)>),
}

impl J {
    pub fn s(x: impl Into<String>) -> J {
        J::Str(x.into())
    }
    pub fn i(x: impl TryInto<i128>) -> J {
        J::Int(x.try_into().ok().unwrap_or(-1))
    }
    pub fn opt(x: Option<J>) -> J {
        x.unwrap_or(J::Null)
    }
    pub fn write(&self, out: &mut String) {
        match self {
            J::Null => out.push_str("null"),
            J::Bool(b) => out.push_str(if *b { "true" } else { "false" }),
            J::Int(i) => out.push_str(&i.to_string()),
            J::Str(s) => write_str(s, out),
            J::Arr(v) => {
                out.push('[');
                for (k, x) in v.iter().enumerate() {
                    if k > 0 {
                        out.push(',');
                    }
                    x.write(out);
                }
                out.push(']');
            }
            J::Obj(v) => {
                out.push('{');
                let mut first = true;
                for (k, x) in v.iter() {
                    if matches!(x, J::Null) {
                        continue;
                    }
                    if !first {
                        out.push(',');
                    }
                    first = false;
                    write_str(k, out);
                    out.push(':');
                    x.write(out);
                }
                out.push('}');
            }
        }
    }
    pub fn to_string(&self) -> String {
        let mut s = String::new();
        self.write(&mut s);
        s
    }
}

fn write_str(s: &str, out: &mut String) {
    out.push('"');
    for c in s.chars() {
        match c {
            '"' => out.push_str("\\\""),
            '\\' => out.push_str("\\\\"),
            '\n' => out.push_str("\\n"),
            '\r' => out.push_str("\\r"),
            '\t' => out.push_str("\\t"),
            c if (c as u32) < 0x20 => out.push_str(&format!("\\u{:04x}", c as u32)),
            c => out.push(c),
        }
    }
    out.push('"');
}
