//! Compact JSON rendering of a MIR body + the call edges found in it.

use crate::json::J;
use crate::Ctx;
use rustc_hir::def_id::LocalDefId;
use rustc_middle::mir::*;
use rustc_middle::ty;

fn place<'tcx>(cx: &Ctx<'tcx>, body: &Body<'tcx>, p: &Place<'tcx>) -> J {
    let mut proj = vec![];
    let mut cur_ty = PlaceTy::from_ty(body.local_decls[p.local].ty);
    for elem in p.projection.iter() {
        let s = match elem {
            ProjectionElem::Deref => "*".to_string(),
            ProjectionElem::Field(f, _) => {
                // try to name the field
                let name = match cur_ty.ty.kind() {
                    ty::Adt(adt, _) => {
                        let v = match cur_ty.variant_index {
                            Some(v) => Some(adt.variant(v)),
                            None if adt.is_struct() || adt.is_union() => Some(adt.non_enum_variant()),
                            None => None,
                        };
                        v.and_then(|v| v.fields.get(f).map(|fd| fd.name.to_string()))
                    }
                    _ => None,
                };
                match name {
                    Some(n) => format!("f{}:{}", f.as_u32(), n),
                    None => format!("f{}", f.as_u32()),
                }
            }
            ProjectionElem::Index(l) => format!("[_{}]", l.as_u32()),
            ProjectionElem::ConstantIndex { offset, from_end, .. } => {
                if from_end {
                    format!("[-{}]", offset)
                } else {
                    format!("[{}]", offset)
                }
            }
            ProjectionElem::Subslice { from, to, from_end } => {
                format!("[{}..{}{}]", from, if from_end { "-" } else { "" }, to)
            }
            ProjectionElem::Downcast(name, idx) => match name {
                Some(n) => format!("as:{}", n),
                None => format!("as#{}", idx.as_u32()),
            },
            ProjectionElem::OpaqueCast(_) => "opaque".to_string(),
            ProjectionElem::UnwrapUnsafeBinder(_) => "unbinder".to_string(),
        };
        proj.push(J::s(s));
        cur_ty = cur_ty.projection_ty(cx.tcx, elem);
    }
    if proj.is_empty() {
        J::i(p.local.as_u32())
    } else {
        let mut v = vec![J::i(p.local.as_u32())];
        v.extend(proj);
        J::Arr(v)
    }
}

fn constant<'tcx>(cx: &Ctx<'tcx>, owner: LocalDefId, c: &ConstOperand<'tcx>) -> J {
    let t = c.const_.ty();
    match t.kind() {
        ty::FnDef(did, args) => {
            let (declared, resolved) = cx.resolve_callee(owner.to_def_id(), *did, args);
            J::Obj(vec![
                ("fn", J::s(resolved.clone().unwrap_or_else(|| declared.clone()))),
                ("decl", if resolved.is_some() { J::s(declared) } else { J::Null }),
                ("args", cx.args_json(args)),
            ])
        }
        _ => {
            // scalar value if cheaply available
            let val = match c.const_ {
                Const::Val(ConstValue::Scalar(s), _) => match s {
                    rustc_middle::mir::interpret::Scalar::Int(i) => {
                        let size = i.size();
                        let bits = i.to_bits(size);
                        Some(J::Str(bits.to_string()))
                    }
                    _ => None,
                },
                Const::Val(ConstValue::ZeroSized, _) => Some(J::s("zst")),
                _ => None,
            };
            let txt = match c.const_ {
                Const::Unevaluated(u, _) => Some(J::s(cx.path(u.def))),
                _ => None,
            };
            // reference to a `static`
            let stat = match c.const_ {
                Const::Val(ConstValue::Scalar(rustc_middle::mir::interpret::Scalar::Ptr(ptr, _)), _) => {
                    match cx.tcx.try_get_global_alloc(ptr.provenance.alloc_id()) {
                        Some(rustc_middle::mir::interpret::GlobalAlloc::Static(did)) => Some(J::s(cx.path(did))),
                        _ => None,
                    }
                }
                _ => None,
            };
            J::Obj(vec![("ty", J::s(cx.ty_str(t))), ("bits", J::opt(val)), ("unev", J::opt(txt)), ("static", J::opt(stat))])
        }
    }
}

fn operand<'tcx>(cx: &Ctx<'tcx>, owner: LocalDefId, body: &Body<'tcx>, o: &Operand<'tcx>) -> J {
    match o {
        Operand::Copy(p) => J::Arr(vec![J::s("c"), place(cx, body, p)]),
        Operand::Move(p) => J::Arr(vec![J::s("m"), place(cx, body, p)]),
        Operand::Constant(c) => J::Arr(vec![J::s("k"), constant(cx, owner, c)]),
        other => J::Arr(vec![J::s("?"), J::s(format!("{:?}", other))]),
    }
}

fn rvalue<'tcx>(cx: &Ctx<'tcx>, owner: LocalDefId, body: &Body<'tcx>, rv: &Rvalue<'tcx>) -> J {
    let op = |o: &Operand<'tcx>| operand(cx, owner, body, o);
    match rv {
        Rvalue::Use(o, ..) => J::Obj(vec![("k", J::s("use")), ("ops", J::Arr(vec![op(o)]))]),
        Rvalue::Repeat(o, _) => J::Obj(vec![("k", J::s("repeat")), ("ops", J::Arr(vec![op(o)]))]),
        Rvalue::Ref(_, bk, p) => J::Obj(vec![
            ("k", J::s("ref")),
            ("mut", J::Bool(matches!(bk, BorrowKind::Mut { .. }))),
            ("p", place(cx, body, p)),
        ]),
        Rvalue::RawPtr(_, p) => J::Obj(vec![("k", J::s("rawptr")), ("p", place(cx, body, p))]),
        Rvalue::ThreadLocalRef(d) => J::Obj(vec![("k", J::s("tls")), ("def", J::s(cx.path(*d)))]),
        Rvalue::Cast(kind, o, t) => J::Obj(vec![
            ("k", J::s("cast")),
            ("ck", J::s(format!("{:?}", kind))),
            ("ops", J::Arr(vec![op(o)])),
            ("from", J::s(cx.ty_str(o.ty(body, cx.tcx)))),
            ("to", J::s(cx.ty_str(*t))),
        ]),
        Rvalue::BinaryOp(b, ops) => J::Obj(vec![
            ("k", J::s("bin")),
            ("op", J::s(format!("{:?}", b))),
            ("ops", J::Arr(vec![op(&ops.0), op(&ops.1)])),
            ("ty", J::s(cx.ty_str(ops.0.ty(body, cx.tcx)))),
        ]),
        Rvalue::UnaryOp(u, o) => J::Obj(vec![
            ("k", J::s("un")),
            ("op", J::s(format!("{:?}", u))),
            ("ops", J::Arr(vec![op(o)])),
        ]),
        Rvalue::Discriminant(p) => {
            let pty = p.ty(body, cx.tcx).ty;
            let mut vars = vec![];
            let mut adt_name = None;
            if let ty::Adt(adt, _) = pty.kind() {
                if adt.is_enum() {
                    adt_name = Some(cx.path(adt.did()));
                    for (vidx, d) in adt.discriminants(cx.tcx) {
                        vars.push(J::Arr(vec![J::Str(d.val.to_string()), J::s(adt.variant(vidx).name.to_string())]));
                    }
                }
            }
            J::Obj(vec![
                ("k", J::s("discr")),
                ("p", place(cx, body, p)),
                ("adt", J::opt(adt_name.map(J::s))),
                ("variants", if vars.is_empty() { J::Null } else { J::Arr(vars) }),
            ])
        }
        Rvalue::Aggregate(kind, ops) => {
            let (ak, name, variant) = match &**kind {
                AggregateKind::Array(_) => ("array", None, None),
                AggregateKind::Tuple => ("tuple", None, None),
                AggregateKind::Adt(did, vidx, _, _, _) => {
                    let adt = cx.tcx.adt_def(*did);
                    let v = adt.variant(*vidx);
                    ("adt", Some(cx.path(*did)), Some(v.name.to_string()))
                }
                AggregateKind::Closure(did, _) => ("closure", Some(cx.path(*did)), None),
                AggregateKind::Coroutine(did, _) => ("coroutine", Some(cx.path(*did)), None),
                AggregateKind::CoroutineClosure(did, _) => ("coroutine_closure", Some(cx.path(*did)), None),
                AggregateKind::RawPtr(..) => ("rawptr", None, None),
            };
            let fields = match &**kind {
                AggregateKind::Adt(did, vidx, _, _, _) => {
                    let adt = cx.tcx.adt_def(*did);
                    let v = adt.variant(*vidx);
                    Some(J::Arr(v.fields.iter().map(|f| J::s(f.name.to_string())).collect()))
                }
                _ => None,
            };
            J::Obj(vec![
                ("k", J::s("agg")),
                ("ak", J::s(ak)),
                ("adt", J::opt(name.map(J::s))),
                ("variant", J::opt(variant.map(J::s))),
                ("fields", J::opt(fields)),
                ("ops", J::Arr(ops.iter().map(|o| op(o)).collect())),
            ])
        }
        Rvalue::CopyForDeref(p) => J::Obj(vec![("k", J::s("copyderef")), ("p", place(cx, body, p))]),
        other => J::Obj(vec![("k", J::s("other")), ("dbg", J::s(format!("{:?}", other)))]),
    }
}

pub fn dump_body<'tcx>(cx: &Ctx<'tcx>, owner: LocalDefId, body: &Body<'tcx>) -> (J, Vec<J>, Vec<J>, Vec<J>) {
    let owner_path = cx.path(owner.to_def_id());
    let mut calls = vec![];
    let mut casts = vec![];
    let mut aggs: Vec<J> = vec![];
    let mut agg_seen: std::collections::BTreeSet<(String, String)> = Default::default();
    let mut ref_seen: std::collections::BTreeSet<String> = Default::default();
    // locals
    let mut names: Vec<Option<String>> = vec![None; body.local_decls.len()];
    for vdi in body.var_debug_info.iter() {
        if let VarDebugInfoContents::Place(p) = &vdi.value {
            if p.projection.is_empty() {
                names[p.local.as_usize()] = Some(vdi.name.to_string());
            }
        }
    }
    let mut locals = vec![];
    for (l, decl) in body.local_decls.iter_enumerated() {
        locals.push(J::Obj(vec![
            ("ty", J::s(cx.ty_str(decl.ty))),
            ("name", J::opt(names[l.as_usize()].clone().map(J::s))),
        ]));
    }
    // captured upvars of closures (debug info with projections)
    let mut upvars = vec![];
    for vdi in body.var_debug_info.iter() {
        if let VarDebugInfoContents::Place(p) = &vdi.value {
            if !p.projection.is_empty() {
                upvars.push(J::Obj(vec![("name", J::s(vdi.name.to_string())), ("p", place(cx, body, p))]));
            }
        }
    }
    let mut blocks = vec![];
    for (bb, data) in body.basic_blocks.iter_enumerated() {
        let mut stmts = vec![];
        for st in data.statements.iter() {
            match &st.kind {
                StatementKind::Assign(b) => {
                    let (p, rv) = &**b;
                    if let Rvalue::Aggregate(kind, ops) = rv {
                        if let AggregateKind::Adt(did, vidx, _, _, _) = &**kind {
                            let adt = cx.tcx.adt_def(*did);
                            let key = (cx.path(*did), adt.variant(*vidx).name.to_string());
                            if agg_seen.insert(key.clone()) {
                                aggs.push(J::Obj(vec![
                                    ("fn", J::s(owner_path.clone())),
                                    ("adt", J::s(key.0)),
                                    ("variant", J::s(key.1)),
                                    ("loc", cx.loc(st.source_info.span)),
                                    ("expn", cx.expn(st.source_info.span)),
                                ]));
                            }
                        }
                        for o in ops.iter() {
                            note_fnref(cx, o, &mut ref_seen);
                        }
                    }
                    if let Rvalue::Use(o, ..) = rv {
                        note_fnref(cx, o, &mut ref_seen);
                    }
                    if let Rvalue::Cast(_, o, _) = rv {
                        note_fnref(cx, o, &mut ref_seen);
                    }
                    if let Rvalue::Cast(kind, o, t) = rv {
                        let from = o.ty(body, cx.tcx);
                        // pointer coercions (unsizing, reborrow) are not interesting
                        if !matches!(kind, CastKind::PointerCoercion(..)) {
                            casts.push(J::Obj(vec![
                                ("fn", J::s(owner_path.clone())),
                                ("ck", J::s(format!("{:?}", kind))),
                                ("from", J::s(cx.ty_str(from))),
                                ("to", J::s(cx.ty_str(*t))),
                                ("loc", cx.loc(st.source_info.span)),
                                ("expn", cx.expn(st.source_info.span)),
                            ]));
                        }
                    }
                    stmts.push(J::Obj(vec![
                        ("d", place(cx, body, p)),
                        ("rv", rvalue(cx, owner, body, rv)),
                        ("ln", cx.line(st.source_info.span)),
                    ]));
                }
                StatementKind::SetDiscriminant { place: p, variant_index } => {
                    stmts.push(J::Obj(vec![
                        ("d", place(cx, body, p)),
                        ("rv", J::Obj(vec![("k", J::s("setdiscr")), ("v", J::i(variant_index.as_u32()))])),
                        ("ln", cx.line(st.source_info.span)),
                    ]));
                }
                _ => {}
            }
        }
        let term = data.terminator();
        let sp = term.source_info.span;
        let tj = match &term.kind {
            TerminatorKind::Goto { target } => J::Obj(vec![("k", J::s("goto")), ("t", J::i(target.as_u32()))]),
            TerminatorKind::SwitchInt { discr, targets } => {
                let mut ts = vec![];
                for (v, t) in targets.iter() {
                    ts.push(J::Arr(vec![J::Str(v.to_string()), J::i(t.as_u32())]));
                }
                J::Obj(vec![
                    ("k", J::s("switch")),
                    ("discr", operand(cx, owner, body, discr)),
                    ("dty", J::s(cx.ty_str(discr.ty(body, cx.tcx)))),
                    ("targets", J::Arr(ts)),
                    ("otherwise", J::i(targets.otherwise().as_u32())),
                    ("ln", cx.line(sp)),
                ])
            }
            TerminatorKind::Return => J::Obj(vec![("k", J::s("return")), ("ln", cx.line(sp))]),
            TerminatorKind::Unreachable => J::Obj(vec![("k", J::s("unreachable"))]),
            TerminatorKind::UnwindResume => J::Obj(vec![("k", J::s("resume"))]),
            TerminatorKind::UnwindTerminate(_) => J::Obj(vec![("k", J::s("terminate"))]),
            TerminatorKind::Drop { place: p, target, unwind, .. } => J::Obj(vec![
                ("k", J::s("drop")),
                ("p", place(cx, body, p)),
                ("t", J::i(target.as_u32())),
                ("uw", unwind_j(unwind)),
            ]),
            TerminatorKind::Call { func, args, destination, target, unwind, fn_span, .. } => {
                let fj = operand(cx, owner, body, func);
                let fty = func.ty(body, cx.tcx);
                let (callee, decl, gargs, ckind) = match fty.kind() {
                    ty::FnDef(did, ga) => {
                        let (declared, resolved) = cx.resolve_callee(owner.to_def_id(), *did, ga);
                        (
                            resolved.clone().unwrap_or_else(|| declared.clone()),
                            if resolved.is_some() { Some(declared) } else { None },
                            Some(cx.args_json(ga)),
                            "fn",
                        )
                    }
                    ty::FnPtr(..) => (cx.ty_str(fty), None, None, "ptr"),
                    _ => (cx.ty_str(fty), None, None, "other"),
                };
                for a in args.iter() {
                    note_fnref(cx, &a.node, &mut ref_seen);
                }
                let argj: Vec<J> = args.iter().map(|a| operand(cx, owner, body, &a.node)).collect();
                let arg_tys: Vec<J> =
                    args.iter().map(|a| J::s(cx.ty_str(a.node.ty(body, cx.tcx)))).collect();
                calls.push(J::Obj(vec![
                    ("from", J::s(owner_path.clone())),
                    ("to", J::s(callee.clone())),
                    ("decl", J::opt(decl.clone().map(J::s))),
                    ("ck", J::s(ckind)),
                    ("args", J::opt(gargs.clone())),
                    ("arg_tys", J::Arr(arg_tys)),
                    ("bb", J::i(bb.as_u32())),
                    ("loc", cx.loc(*fn_span)),
                    ("expn", cx.expn(*fn_span)),
                ]));
                J::Obj(vec![
                    ("k", J::s("call")),
                    ("fn", J::s(callee)),
                    ("decl", J::opt(decl.map(J::s))),
                    ("ck", J::s(ckind)),
                    ("gargs", J::opt(gargs)),
                    ("f", if ckind == "fn" { J::Null } else { fj }),
                    ("args", J::Arr(argj)),
                    ("dest", place(cx, body, destination)),
                    ("t", J::opt(target.map(|t| J::i(t.as_u32())))),
                    ("uw", unwind_j(unwind)),
                    ("ln", cx.line(*fn_span)),
                    ("expn", cx.expn(*fn_span)),
                ])
            }
            TerminatorKind::TailCall { func, args, fn_span } => J::Obj(vec![
                ("k", J::s("tailcall")),
                ("f", operand(cx, owner, body, func)),
                ("args", J::Arr(args.iter().map(|a| operand(cx, owner, body, &a.node)).collect())),
                ("ln", cx.line(*fn_span)),
            ]),
            TerminatorKind::Assert { cond, expected, msg, target, unwind } => {
                let kind = match &**msg {
                    AssertKind::BoundsCheck { .. } => "bounds".to_string(),
                    AssertKind::Overflow(op, ..) => format!("overflow:{:?}", op),
                    AssertKind::OverflowNeg(_) => "overflow:neg".to_string(),
                    AssertKind::DivisionByZero(_) => "div0".to_string(),
                    AssertKind::RemainderByZero(_) => "rem0".to_string(),
                    _ => "other".to_string(),
                };
                J::Obj(vec![
                    ("k", J::s("assert")),
                    ("cond", operand(cx, owner, body, cond)),
                    ("expected", J::Bool(*expected)),
                    ("msg", J::s(kind)),
                    ("t", J::i(target.as_u32())),
                    ("uw", unwind_j(unwind)),
                    ("ln", cx.line(sp)),
                    ("expn", cx.expn(sp)),
                ])
            }
            TerminatorKind::Yield { resume, drop, .. } => J::Obj(vec![
                ("k", J::s("yield")),
                ("t", J::i(resume.as_u32())),
                ("drop", J::opt(drop.map(|d| J::i(d.as_u32())))),
            ]),
            TerminatorKind::CoroutineDrop => J::Obj(vec![("k", J::s("coroutine_drop"))]),
            TerminatorKind::FalseEdge { real_target, .. } => {
                J::Obj(vec![("k", J::s("goto")), ("t", J::i(real_target.as_u32()))])
            }
            TerminatorKind::FalseUnwind { real_target, .. } => {
                J::Obj(vec![("k", J::s("goto")), ("t", J::i(real_target.as_u32()))])
            }
            TerminatorKind::InlineAsm { .. } => J::Obj(vec![("k", J::s("asm"))]),
        };
        blocks.push(J::Obj(vec![
            ("s", J::Arr(stmts)),
            ("t", tj),
            ("cleanup", if data.is_cleanup { J::Bool(true) } else { J::Null }),
        ]));
    }
    let j = J::Obj(vec![
        ("argc", J::i(body.arg_count)),
        ("locals", J::Arr(locals)),
        ("upvars", if upvars.is_empty() { J::Null } else { J::Arr(upvars) }),
        ("blocks", J::Arr(blocks)),
    ]);
    for r in ref_seen {
        aggs.push(J::Obj(vec![("fn", J::s(owner_path.clone())), ("fnref", J::s(r))]));
    }
    (j, calls, casts, aggs)
}

/// functions (incl. tuple-struct / variant constructors) used as values
fn note_fnref<'tcx>(cx: &Ctx<'tcx>, o: &Operand<'tcx>, seen: &mut std::collections::BTreeSet<String>) {
    if let Operand::Constant(c) = o {
        if let ty::FnDef(did, _) = c.const_.ty().kind() {
            seen.insert(cx.path(*did));
        }
    }
}

fn unwind_j(u: &UnwindAction) -> J {
    match u {
        UnwindAction::Cleanup(bb) => J::i(bb.as_u32()),
        _ => J::Null,
    }
}
